package engine

import (
	"fmt"
	"go/types"
	"os"
	"sort"
	"strings"
	"sync"
	"sync/atomic"
	"time"

	"golang.org/x/tools/go/packages"
	"golang.org/x/tools/go/ssa"
	"golang.org/x/tools/go/ssa/ssautil"
)

// Load builds SSA for the packages matched by patterns in dir, with overlay files.
func Load(dir string, overlay map[string][]byte, patterns ...string) (*Program, error) {
	cfg := &packages.Config{
		Dir:     dir,
		Mode:    packages.LoadAllSyntax,
		Overlay: overlay,
		Env: append(os.Environ(), "GOFLAGS=-mod=mod", "GOPROXY=off", "GOSUMDB=off",
			"GOTOOLCHAIN=local", "CGO_ENABLED=0"),
		BuildFlags: []string{"-tags", "verif"},
	}
	pkgs, err := packages.Load(cfg, patterns...)
	if err != nil {
		return nil, err
	}
	var errs []string
	packages.Visit(pkgs, nil, func(p *packages.Package) {
		if strings.HasPrefix(p.PkgPath, "github.com/goose-lang/goose") || len(p.Errors) > 0 && len(errs) < 20 {
			for _, e := range p.Errors {
				errs = append(errs, e.Error())
			}
		}
	})
	if len(errs) > 0 {
		return nil, fmt.Errorf("package load errors:\n%s", strings.Join(errs, "\n"))
	}
	prog, _ := ssautil.AllPackages(pkgs, ssa.InstantiateGenerics)
	prog.Build()
	p := &Program{
		SSA:        prog,
		Pkgs:       map[string]*ssa.Package{},
		Intrinsics: map[string]Intrinsic{},
		Overrides:  map[string]string{},
		funcByName: map[string]*ssa.Function{},
		RepoPrefix: "github.com/goose-lang/goose",
		InitAllow:  map[string]bool{"unicode/utf8": true, "strings": true, "bytes": true, "path": true, "strconv": true, "sort": true, "io": true},
	}
	for k, v := range defaultIntrinsics {
		p.Intrinsics[k] = v
	}
	for _, sp := range prog.AllPackages() {
		p.Pkgs[sp.Pkg.Path()] = sp
	}
	for fn := range ssautil.AllFunctions(prog) {
		p.funcByName[fn.String()] = fn
	}
	p.RuntimeErr = types.NewNamed(types.NewTypeName(0, nil, "runtimeError", nil), types.Typ[types.String], nil)
	return p, nil
}

// Func finds a package-level function "pkgpath.Name".
func (p *Program) Func(pkg, name string) *ssa.Function {
	sp := p.Pkgs[pkg]
	if sp == nil {
		return nil
	}
	return sp.Func(name)
}

// ---------------------------------------------------------------------------

type ObAgg struct {
	Label        string `json:"label"`
	Checked      int    `json:"checked"`
	Trivial      int    `json:"trivial"`
	Discharged   int    `json:"discharged"`
	Violated     int    `json:"violated"`
	Inconclusive int    `json:"inconclusive"`
	Known        int    `json:"known"`
}

type Violation struct {
	Entry     string            `json:"entry"`
	Label     string            `json:"label"`
	Model     map[string]uint64 `json:"model"`
	Decisions []Decision        `json:"decisions"`
	Notes     []string          `json:"notes,omitempty"`
	Detail    string            `json:"detail,omitempty"`
	Finding   string            `json:"finding,omitempty"` // set for known findings
}

type PathSample struct {
	Decisions string   `json:"decisions"`
	End       string   `json:"end"`
	Steps     int      `json:"steps"`
	Obs       []string `json:"obligations"`
	Covers    []string `json:"covers,omitempty"`
	Notes     []string `json:"notes,omitempty"`
}

type Report struct {
	Witnesses    []*Witness
	maxWitness   int
	Outcomes     []*PathOutcome
	Entry        string
	Paths        int
	Ends         map[string]int
	EndMsgs      map[string]string
	Obs          map[string]*ObAgg
	Covers       map[string]int
	Violations   []Violation
	KnownHits    []Violation
	Steps        int64
	Funcs        map[string]bool
	Intrinsics   map[string]bool
	BoundExceed  map[string]int
	Uninit       map[string]bool
	Samples      []PathSample
	WallS        float64
	Truncated    bool
	mu           sync.Mutex
}

func newReport(entry string) *Report {
	return &Report{Entry: entry, Ends: map[string]int{}, EndMsgs: map[string]string{}, Obs: map[string]*ObAgg{},
		Covers: map[string]int{}, Funcs: map[string]bool{}, Intrinsics: map[string]bool{},
		BoundExceed: map[string]int{}, Uninit: map[string]bool{}}
}

func decStr(ds []Decision) string {
	var sb strings.Builder
	for _, d := range ds {
		if d.HasVal {
			fmt.Fprintf(&sb, "=%d ", d.Val)
		} else {
			fmt.Fprintf(&sb, "%d ", d.Alt)
		}
	}
	return strings.TrimSpace(sb.String())
}

func (r *Report) add(pr *PathResult) {
	r.mu.Lock()
	defer r.mu.Unlock()
	r.Paths++
	r.Ends[pr.End]++
	if pr.Outcome != nil {
		r.Outcomes = append(r.Outcomes, pr.Outcome)
	}
	if pr.Witness != nil && len(r.Witnesses) < r.maxWitness {
		r.Witnesses = append(r.Witnesses, pr.Witness)
	}
	if pr.EndMsg != "" {
		if _, ok := r.EndMsgs[pr.End]; !ok || pr.End == "unsupported" || pr.End == "panic" {
			if len(r.EndMsgs) < 40 {
				r.EndMsgs[pr.End+": "+pr.EndMsg] = decStr(pr.Decisions)
			}
			r.EndMsgs[pr.End] = pr.EndMsg
		}
	}
	r.Steps += int64(pr.Steps)
	for _, o := range pr.Obs {
		a := r.Obs[o.Label]
		if a == nil {
			a = &ObAgg{Label: o.Label}
			r.Obs[o.Label] = a
		}
		switch o.Status {
		case "trivial":
			a.Checked++
			a.Trivial++
		case "discharged":
			a.Checked++
			a.Discharged++
		case "violated":
			a.Checked++
			a.Violated++
			if len(r.Violations) < 50 {
				r.Violations = append(r.Violations, Violation{Entry: r.Entry, Label: o.Label, Model: o.Model,
					Decisions: pr.Decisions, Notes: pr.Notes, Detail: o.Detail})
			}
		case "inconclusive":
			a.Checked++
			a.Inconclusive++
		case "known":
			a.Known++
			if len(r.KnownHits) < 50 {
				r.KnownHits = append(r.KnownHits, Violation{Entry: r.Entry, Label: o.Label, Model: o.Model,
					Decisions: pr.Decisions, Notes: pr.Notes, Finding: o.Detail})
			}
		}
	}
	for _, c := range pr.Covers {
		r.Covers[c]++
	}
	for f := range pr.Funcs {
		r.Funcs[f] = true
	}
	for f := range pr.IntrinsUsed {
		r.Intrinsics[f] = true
	}
	for _, b := range pr.BoundExceed {
		r.BoundExceed[b]++
	}
	for _, u := range pr.UninitGlobal {
		r.Uninit[u] = true
	}
	if len(r.Samples) < 6 && (len(pr.Obs) > 0 || len(r.Samples) < 2) {
		ps := PathSample{Decisions: decStr(pr.Decisions), End: pr.End, Steps: pr.Steps, Covers: pr.Covers, Notes: pr.Notes}
		for i, o := range pr.Obs {
			if i >= 12 {
				break
			}
			ps.Obs = append(ps.Obs, o.Label+":"+o.Status)
		}
		r.Samples = append(r.Samples, ps)
	}
}

// RunPath executes entry along the given decision prefix and returns the result plus newly found alternatives.
func (p *Program) RunPath(entry *ssa.Function, opt *Options, sol *Solver, prefix []Decision) (*PathResult, [][]Decision) {
	return p.RunPathBody(entry, nil, opt, sol, prefix)
}

// RunPathBody runs either an SSA entry point or a host-level body along a decision prefix.
func (p *Program) RunPathBody(entry *ssa.Function, body func(m *Machine), opt *Options, sol *Solver, prefix []Decision) (*PathResult, [][]Decision) {
	sol.Reset()
	m := &Machine{
		P: p, Opt: opt, S: NewStore(), Sol: sol, prefix: prefix,
		globals: map[*ssa.Global]*Object{}, nondetN: map[string]int{},
		Extra: map[string]interface{}{}, inited: map[*ssa.Package]bool{}, uninit: map[string]bool{},
		Res: &PathResult{Funcs: map[string]bool{}, IntrinsUsed: map[string]bool{}},
	}
	m.Mon = newMonitor()
	m.Sched = newSched()
	m.K = newKernel(m)
	func() {
		defer func() {
			m.finishThreads()
			if r := recover(); r != nil {
				switch e := r.(type) {
				case *pathEnd:
					m.Res.End, m.Res.EndMsg = e.Kind, e.Msg
				case *GoPanic:
					m.Res.End, m.Res.EndMsg = "panic", e.Msg
				case *exitPanic:
					m.Res.End, m.Res.EndMsg = "exit", fmt.Sprint(e.code)
				case *kernelCrash:
					m.Res.End, m.Res.EndMsg = "crash", "crash point reached outside verifCrashed"
				default:
					panic(r)
				}
			}
		}()
		for _, ip := range p.InitPkgs {
			if sp := p.Pkgs[ip]; sp != nil {
				m.RunInit(sp)
			}
		}
		if body != nil {
			body(m)
		} else {
			m.RunInit(entry.Pkg)
			m.CallFunction(entry, nil, nil)
		}
		m.Res.End = "ok"
		if opt.Witnesses > 0 && len(m.Res.Covers) > 0 && opt.WitnessLeft != nil && atomic.AddInt32(opt.WitnessLeft, -1) >= 0 {
			allHeld := true
			for _, o := range m.Res.Obs {
				if o.Status != "trivial" && o.Status != "discharged" {
					allHeld = false
				}
			}
			if allHeld {
				if r, model := m.Sol.Check(nil, m.S.Vars, true); r == Sat {
					m.Res.Witness = &Witness{Model: model}
				}
			}
		}
	}()
	if m.Res.Outcome == nil && (m.Res.End == "deadlock" || m.Res.End == "goroutine-panic") {
		m.SetOutcome(m.Res.End, nil, m.Res.EndMsg)
	}
	m.Res.Decisions = m.decisions
	if m.Res.Witness != nil {
		m.Res.Witness.Decisions = m.decisions
	}
	m.Res.Steps = m.steps
	for u := range m.uninit {
		m.Res.UninitGlobal = append(m.Res.UninitGlobal, u)
	}
	return m.Res, m.pending
}

// Explore runs all paths of entry with a pool of workers.
func (p *Program) Explore(entry *ssa.Function, opt Options, workers int) *Report {
	return p.explore(entry.String(), entry, nil, opt, workers)
}

// ExploreHost explores all paths of a host-level body (used by the translation-validation driver).
func (p *Program) ExploreHost(name string, body func(m *Machine), opt Options, workers int) *Report {
	return p.explore(name, nil, body, opt, workers)
}

func (p *Program) explore(name string, entry *ssa.Function, body func(m *Machine), opt Options, workers int) *Report {
	t0 := time.Now()
	rep := newReport(name)
	rep.maxWitness = opt.Witnesses
	left := int32(opt.Witnesses * 3)
	opt.WitnessLeft = &left
	if opt.Budget == 0 {
		opt.Budget = 2_000_000
	}
	if opt.TimeoutMs == 0 {
		opt.TimeoutMs = 10000
	}
	if opt.MaxPaths == 0 {
		opt.MaxPaths = 200000
	}
	if opt.DeadlineS == 0 {
		opt.DeadlineS = 300
		if opt.Tier == 1 {
			opt.DeadlineS = 2400
		}
	}
	deadline := t0.Add(time.Duration(opt.DeadlineS) * time.Second)
	var mu sync.Mutex
	cond := sync.NewCond(&mu)
	queue := [][]Decision{nil}
	active := 0
	started := 0
	var wg sync.WaitGroup
	var fatal interface{}
	for w := 0; w < workers; w++ {
		wg.Add(1)
		go func() {
			defer wg.Done()
			sol := acquireSolver(opt.TimeoutMs)
			sol.NoFallback = opt.Tier == 0
			defer releaseSolver(sol)
			for {
				mu.Lock()
				for len(queue) == 0 && active > 0 && fatal == nil {
					cond.Wait()
				}
				if fatal != nil || (len(queue) == 0 && active == 0) {
					mu.Unlock()
					cond.Broadcast()
					return
				}
				if started >= opt.MaxPaths || time.Now().After(deadline) {
					rep.Truncated = true
					queue = nil
					mu.Unlock()
					cond.Broadcast()
					return
				}
				prefix := queue[len(queue)-1]
				queue = queue[:len(queue)-1]
				active++
				started++
				mu.Unlock()
				var res *PathResult
				var alts [][]Decision
				func() {
					defer func() {
						if r := recover(); r != nil {
							mu.Lock()
							if fatal == nil {
								fatal = fmt.Sprintf("%v (prefix %s)", r, decStr(prefix))
								buf := make([]byte, 1<<14)
								n := runtimeStack(buf)
								fatal = fmt.Sprintf("%v\n%s", fatal, buf[:n])
							}
							mu.Unlock()
						}
					}()
					o := opt
					res, alts = p.RunPathBody(entry, body, &o, sol, prefix)
				}()
				if res != nil {
					rep.add(res)
				}
				mu.Lock()
				queue = append(queue, alts...)
				active--
				mu.Unlock()
				cond.Broadcast()
			}
		}()
	}
	wg.Wait()
	if fatal != nil {
		rep.Ends["engine-fatal"]++
		rep.EndMsgs["engine-fatal"] = fmt.Sprint(fatal)
	}
	rep.WallS = time.Since(t0).Seconds()
	return rep
}

// Summary renders a short human-readable summary.
func (r *Report) Summary() string {
	var sb strings.Builder
	fmt.Fprintf(&sb, "%s: %d paths, %d steps, %.1fs\n", r.Entry, r.Paths, r.Steps, r.WallS)
	var ends []string
	for k, v := range r.Ends {
		ends = append(ends, fmt.Sprintf("%s=%d", k, v))
	}
	sort.Strings(ends)
	fmt.Fprintf(&sb, "  ends: %s\n", strings.Join(ends, " "))
	var labels []string
	for l := range r.Obs {
		labels = append(labels, l)
	}
	sort.Strings(labels)
	for _, l := range labels {
		a := r.Obs[l]
		fmt.Fprintf(&sb, "  ob %-40s checked=%d trivial=%d discharged=%d violated=%d inconclusive=%d known=%d\n",
			l, a.Checked, a.Trivial, a.Discharged, a.Violated, a.Inconclusive, a.Known)
	}
	var msgs []string
	for k, v := range r.EndMsgs {
		msgs = append(msgs, "  end "+k+" :: "+v)
	}
	sort.Strings(msgs)
	for _, mm := range msgs {
		sb.WriteString(mm + "\n")
	}
	for b, n := range r.BoundExceed {
		fmt.Fprintf(&sb, "  bound-exceeded %s ×%d\n", b, n)
	}
	return sb.String()
}
