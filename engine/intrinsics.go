package engine

import (
	"fmt"
	"go/types"
	"strconv"
	"strings"

	"golang.org/x/tools/go/ssa"
)

var defaultIntrinsics = map[string]Intrinsic{}

var opaqueHandlers = map[string]func(*Machine, Opaque, string, []Value) Value{}

// ErrorV is an opaque error value carrying a message.
type ErrorV struct {
	Msg   Str
	Cause Value
}

func intrinsicKey(fn *ssa.Function) string {
	if o := fn.Origin(); o != nil {
		return o.String()
	}
	return fn.String()
}

func (p *Program) lookupIntrinsic(fn *ssa.Function) Intrinsic {
	if in, ok := p.Intrinsics[intrinsicKey(fn)]; ok {
		return in
	}
	if fn.Blocks == nil && strings.HasPrefix(fn.Name(), "verif") {
		if in, ok := p.Intrinsics["verif:"+fn.Name()]; ok {
			return in
		}
	}
	return nil
}

func (m *Machine) mkError(msg Str, cause Value) Iface {
	return Iface{T: m.P.errorType(), V: Opaque{"error", &ErrorV{Msg: msg, Cause: cause}}}
}

var errType types.Type

func (p *Program) errorType() types.Type {
	return types.Universe.Lookup("error").Type()
}

// opaqueMethod dispatches interface method calls on host-implemented values.
func (m *Machine) opaqueMethod(o Opaque, name string, args []Value) Value {
	switch o.Kind {
	case "error":
		e := o.V.(*ErrorV)
		switch name {
		case "Error":
			return e.Msg
		case "Unwrap", "Cause":
			if e.Cause == nil {
				return Iface{}
			}
			return e.Cause
		}
	}
	if h, ok := opaqueHandlers[o.Kind]; ok {
		return h(m, o, name, args)
	}
	m.unsupported("method " + name + " on opaque " + o.Kind)
	return nil
}

func concStrArg(m *Machine, v Value, what string) string {
	s, ok := v.(Str).Concrete()
	if !ok {
		m.unsupported(what + " must be a concrete string")
	}
	return s
}

// ---------------------------------------------------------------------------
// decimal formatting of symbolic integers: fork on digit count, fresh digit variables

var pow10 = func() [20]uint64 {
	var p [20]uint64
	p[0] = 1
	for i := 1; i < 20; i++ {
		p[i] = p[i-1] * 10
	}
	return p
}()

// FormatUint renders an unsigned 64-bit term in decimal.
func (m *Machine) FormatUint(x *Term) Str {
	s := m.S
	if x.IsConst() {
		return ConcStr(strconv.FormatUint(x.Val, 10), s)
	}
	x = s.ZExt(x, 64)
	memo, _ := m.Extra["fmtuint"].(map[*Term]Str)
	if memo == nil {
		memo = map[*Term]Str{}
		m.Extra["fmtuint"] = memo
	}
	if r, ok := memo[x]; ok { // the same value renders to the same digits
		return r
	}
	defer func(key *Term) {
		if r := recover(); r != nil {
			panic(r)
		}
	}(x)
	k := 20
	for d := 1; d < 20; d++ {
		if m.Branch(s.ULt(x, s.Const(64, pow10[d]))) {
			k = d
			break
		}
	}
	// digits d[k-1] … d[0] as fresh variables with x == Σ d[i]·10^i (no overflow by construction)
	id := m.nondetN["__digits"]
	m.nondetN["__digits"] = id + 1
	digs := make([]*Term, k)
	rest := x
	n := k
	if k == 20 { // leading digit is 1, the rest is x − 10^19 written with 19 digits
		digs[19] = s.Const(8, 1)
		rest = s.Sub(x, s.Const(64, pow10[19]))
		n = 19
	}
	sum := s.Const(64, 0)
	for i := 0; i < n; i++ {
		d := s.Var(fmt.Sprintf("dig_%d_%d", id, i), 8)
		digs[i] = d
		m.Assume(s.ULe(d, s.Const(8, 9)))
		sum = s.Add(sum, s.Mul(s.ZExt(d, 64), s.Const(64, pow10[i])))
	}
	if k > 1 && k < 20 {
		m.Assume(s.Not(s.Eq(digs[k-1], s.Const(8, 0))))
	}
	m.Assume(s.Eq(sum, rest))
	out := make([]*Term, k)
	for i := 0; i < k; i++ {
		out[i] = s.Add(digs[k-1-i], s.Const(8, '0'))
	}
	memo[x] = Str{out}
	return Str{out}
}

func (m *Machine) FormatInt(x *Term, signed bool) Str {
	s := m.S
	if x.IsConst() {
		if signed {
			return ConcStr(strconv.FormatInt(signExt(x.Val, x.W), 10), s)
		}
		return ConcStr(strconv.FormatUint(x.Val, 10), s)
	}
	if !signed {
		return m.FormatUint(x)
	}
	x = s.SExt(x, 64)
	if m.Branch(s.SLt(x, s.Const(64, 0))) {
		r := m.FormatUint(s.Neg(x))
		return Str{append([]*Term{s.Const(8, '-')}, r.B...)}
	}
	return m.FormatUint(x)
}

// formatArg renders one operand for a verb.
func (m *Machine) formatArg(verb byte, flags string, a Value) Str {
	s := m.S
	iv, isIface := a.(Iface)
	var t types.Type
	v := a
	if isIface {
		t, v = iv.T, iv.V
		if t == nil {
			return ConcStr("<nil>", s)
		}
	}
	// error / Stringer
	if verb == 's' || verb == 'v' || verb == 'q' {
		if o, ok := v.(Opaque); ok && o.Kind == "error" {
			return o.V.(*ErrorV).Msg
		}
		if t != nil {
			for _, name := range []string{"Error", "String"} {
				if fn := m.P.Method(t, name); fn != nil && fn.Signature.Params().Len() == 0 &&
					fn.Signature.Results().Len() == 1 && isString(fn.Signature.Results().At(0).Type()) {
					r := m.CallFunction(fn, []Value{v}, nil).(Str)
					if verb == 'q' {
						return m.quoteStr(r)
					}
					return r
				}
			}
		}
	}
	switch x := v.(type) {
	case Str:
		switch verb {
		case 'q':
			return m.quoteStr(x)
		default:
			return x
		}
	case *Term:
		if x.W == 0 {
			if x.IsConst() {
				return ConcStr(strconv.FormatBool(x.IsTrue()), s)
			}
			if m.Branch(x) {
				return ConcStr("true", s)
			}
			return ConcStr("false", s)
		}
		signed := t != nil && isSigned(t)
		if m.looseFmt > 0 && !x.IsConst() {
			return ConcStr("<sym>", s)
		}
		switch verb {
		case 'd', 'v':
			return m.FormatInt(x, signed)
		case 'x':
			if x.IsConst() {
				return ConcStr(strconv.FormatUint(x.Val, 16), s)
			}
		case 'c':
			if x.IsConst() {
				return ConcStr(string(rune(x.Val)), s)
			}
		}
		m.unsupported(fmt.Sprintf("format verb %%%c on symbolic integer", verb))
	case Slice:
		if verb == 's' && t != nil {
			if sl, ok := t.Underlying().(*types.Slice); ok {
				if b, ok := sl.Elem().Underlying().(*types.Basic); ok && b.Kind() == types.Uint8 {
					return Str{B: m.SliceBytes(x)}
				}
			}
		}
		// %v of a slice: [a b c]
		parts := []*Term{s.Const(8, '[')}
		for i, e := range m.SliceVals(x) {
			if i > 0 {
				parts = append(parts, s.Const(8, ' '))
			}
			var et types.Type
			if t != nil {
				et = t.Underlying().(*types.Slice).Elem()
			}
			ev := e
			if _, ok := e.(Iface); !ok && et != nil {
				ev = Iface{T: et, V: e}
			}
			parts = append(parts, m.formatArg(verb, flags, ev).B...)
		}
		parts = append(parts, s.Const(8, ']'))
		return Str{parts}
	case Ptr:
		if x.Obj == nil {
			return ConcStr("<nil>", s)
		}
		return ConcStr(fmt.Sprintf("0xc%07d", x.Obj.ID), s)
	case *StructV:
		st, _ := t.Underlying().(*types.Struct)
		parts := []*Term{s.Const(8, '{')}
		for i, f := range x.F {
			if i > 0 {
				parts = append(parts, s.Const(8, ' '))
			}
			if st != nil {
				if strings.Contains(flags, "+") {
					parts = append(parts, ConcStr(st.Field(i).Name()+":", s).B...)
				}
				parts = append(parts, m.formatArg('v', flags, Iface{T: st.Field(i).Type(), V: f}).B...)
			}
		}
		parts = append(parts, s.Const(8, '}'))
		return Str{parts}
	case Opaque:
		return ConcStr(fmt.Sprint(x.V), s)
	case nil:
		return ConcStr("<nil>", s)
	}
	return ConcStr(describe(v), s)
}

func (m *Machine) quoteStr(x Str) Str {
	c, ok := x.Concrete()
	if !ok {
		m.unsupported("%q of symbolic string")
	}
	return ConcStr(strconv.Quote(c), m.S)
}

// SprintfLoose is Sprintf for error messages: symbolic integers are rendered as "<sym>"
// instead of forking on their digit count (message text is not observed by any property).
func (m *Machine) SprintfLoose(format string, args []Value) Str {
	m.looseFmt++
	defer func() { m.looseFmt-- }()
	return m.Sprintf(format, args)
}

// Sprintf interprets a concrete format string over (possibly symbolic) operands.
func (m *Machine) Sprintf(format string, args []Value) Str {
	s := m.S
	var out []*Term
	ai := 0
	for i := 0; i < len(format); i++ {
		c := format[i]
		if c != '%' {
			out = append(out, s.Const(8, uint64(c)))
			continue
		}
		i++
		if i >= len(format) {
			out = append(out, ConcStr("%!(NOVERB)", s).B...)
			break
		}
		flags := ""
		for i < len(format) && strings.ContainsRune("+-# 0", rune(format[i])) {
			flags += string(format[i])
			i++
		}
		width := ""
		for i < len(format) && (format[i] >= '0' && format[i] <= '9' || format[i] == '.') {
			width += string(format[i])
			i++
		}
		if i >= len(format) {
			break
		}
		verb := format[i]
		if verb == '%' {
			out = append(out, s.Const(8, '%'))
			continue
		}
		if ai >= len(args) {
			out = append(out, ConcStr("%!"+string(verb)+"(MISSING)", s).B...)
			continue
		}
		r := m.formatArg(verb, flags, args[ai])
		ai++
		if width != "" && !strings.HasPrefix(width, ".") {
			w, _ := strconv.Atoi(strings.SplitN(width, ".", 2)[0])
			pad := byte(' ')
			if strings.Contains(flags, "0") {
				pad = '0'
			}
			for len(r.B) < w {
				if strings.Contains(flags, "-") {
					r.B = append(r.B, s.Const(8, ' '))
				} else {
					r.B = append([]*Term{s.Const(8, uint64(pad))}, r.B...)
				}
			}
		}
		out = append(out, r.B...)
	}
	if ai < len(args) {
		out = append(out, ConcStr("%!(EXTRA)", s).B...)
	}
	return Str{out}
}

// Sprint implements fmt.Sprint / Sprintln operand joining.
func (m *Machine) Sprint(args []Value, ln bool) Str {
	s := m.S
	var out []*Term
	prevString := true
	for i, a := range args {
		isStr := false
		if iv, ok := a.(Iface); ok {
			_, isStr = iv.V.(Str)
		}
		if i > 0 && (ln || (!isStr && !prevString)) {
			out = append(out, s.Const(8, ' '))
		}
		out = append(out, m.formatArg('v', "", a).B...)
		prevString = isStr
	}
	if ln {
		out = append(out, s.Const(8, '\n'))
	}
	return Str{out}
}

func (m *Machine) variadic(v Value) []Value {
	sl := v.(Slice)
	return m.SliceVals(sl)
}

// WriteTo calls w.Write(p) on an io.Writer interface value.
func (m *Machine) WriteTo(w Iface, data Str) {
	if w.T == nil {
		m.goPanicStr("nil io.Writer")
	}
	buf := m.BytesToSlice(append([]*Term(nil), data.B...))
	if o, ok := w.V.(Opaque); ok {
		m.opaqueMethod(o, "Write", []Value{buf})
		return
	}
	fn := m.P.Method(w.T, "Write")
	if fn == nil {
		m.unsupported("Write method on " + w.T.String())
	}
	m.CallFunction(fn, []Value{w.V, buf}, nil)
}

func init() {
	reg := func(name string, f Intrinsic) { defaultIntrinsics[name] = f }
	reg("fmt.Sprintf", func(m *Machine, fn *ssa.Function, a []Value) Value {
		return m.Sprintf(concStrArg(m, a[0], "format"), m.variadic(a[1]))
	})
	reg("fmt.Errorf", func(m *Machine, fn *ssa.Function, a []Value) Value {
		args := m.variadic(a[1])
		var cause Value
		for _, x := range args {
			if iv, ok := x.(Iface); ok {
				if o, ok := iv.V.(Opaque); ok && o.Kind == "error" {
					cause = iv
				}
			}
		}
		return m.mkError(m.SprintfLoose(strings.ReplaceAll(concStrArg(m, a[0], "format"), "%w", "%v"), args), cause)
	})
	reg("fmt.Sprint", func(m *Machine, fn *ssa.Function, a []Value) Value { return m.Sprint(m.variadic(a[0]), false) })
	reg("fmt.Sprintln", func(m *Machine, fn *ssa.Function, a []Value) Value { return m.Sprint(m.variadic(a[0]), true) })
	nAndNil := func(m *Machine, n int) Value { return Tuple{m.S.Const(64, uint64(n)), Iface{}} }
	reg("fmt.Fprintf", func(m *Machine, fn *ssa.Function, a []Value) Value {
		r := m.Sprintf(concStrArg(m, a[1], "format"), m.variadic(a[2]))
		m.WriteTo(a[0].(Iface), r)
		return nAndNil(m, len(r.B))
	})
	reg("fmt.Fprint", func(m *Machine, fn *ssa.Function, a []Value) Value {
		r := m.Sprint(m.variadic(a[1]), false)
		m.WriteTo(a[0].(Iface), r)
		return nAndNil(m, len(r.B))
	})
	reg("fmt.Fprintln", func(m *Machine, fn *ssa.Function, a []Value) Value {
		r := m.Sprint(m.variadic(a[1]), true)
		m.WriteTo(a[0].(Iface), r)
		return nAndNil(m, len(r.B))
	})
	reg("fmt.Printf", func(m *Machine, fn *ssa.Function, a []Value) Value {
		r := m.Sprintf(concStrArg(m, a[0], "format"), m.variadic(a[1]))
		m.Stdout(r)
		return nAndNil(m, len(r.B))
	})
	reg("fmt.Println", func(m *Machine, fn *ssa.Function, a []Value) Value {
		r := m.Sprint(m.variadic(a[0]), true)
		m.Stdout(r)
		return nAndNil(m, len(r.B))
	})
	reg("fmt.Print", func(m *Machine, fn *ssa.Function, a []Value) Value {
		r := m.Sprint(m.variadic(a[0]), false)
		m.Stdout(r)
		return nAndNil(m, len(r.B))
	})
	// package log: output goes to the process's standard error (content abstracted: only that the
	// call returns, without touching program state, matters to the harnesses)
	for _, n := range []string{"log.Print", "log.Printf", "log.Println"} {
		reg(n, func(m *Machine, fn *ssa.Function, a []Value) Value { return nil })
	}
	reg("errors.New", func(m *Machine, fn *ssa.Function, a []Value) Value { return m.mkError(a[0].(Str), nil) })
	reg("github.com/pkg/errors.New", func(m *Machine, fn *ssa.Function, a []Value) Value { return m.mkError(a[0].(Str), nil) })
	reg("github.com/pkg/errors.Errorf", func(m *Machine, fn *ssa.Function, a []Value) Value {
		return m.mkError(m.SprintfLoose(concStrArg(m, a[0], "format"), m.variadic(a[1])), nil)
	})
	wrap := func(m *Machine, err Value, msg Str) Value {
		e := err.(Iface)
		if e.T == nil {
			return Iface{}
		}
		inner := m.formatArg('v', "", e)
		b := append(append(append([]*Term{}, msg.B...), ConcStr(": ", m.S).B...), inner.B...)
		return m.mkError(Str{b}, e)
	}
	reg("github.com/pkg/errors.Wrap", func(m *Machine, fn *ssa.Function, a []Value) Value { return wrap(m, a[0], a[1].(Str)) })
	reg("github.com/pkg/errors.Wrapf", func(m *Machine, fn *ssa.Function, a []Value) Value {
		return wrap(m, a[0], m.SprintfLoose(concStrArg(m, a[1], "format"), m.variadic(a[2])))
	})
	// strconv integer formatting (base 10): same decimal model as fmt's %d
	reg("strconv.FormatUint", func(m *Machine, fn *ssa.Function, a []Value) Value {
		if b := a[1].(*Term); !b.IsConst() || b.Val != 10 {
			m.unsupported("strconv.FormatUint with a base other than 10")
		}
		return m.FormatInt(a[0].(*Term), false)
	})
	reg("strconv.FormatInt", func(m *Machine, fn *ssa.Function, a []Value) Value {
		if b := a[1].(*Term); !b.IsConst() || b.Val != 10 {
			m.unsupported("strconv.FormatInt with a base other than 10")
		}
		return m.FormatInt(a[0].(*Term), true)
	})
	reg("strconv.Itoa", func(m *Machine, fn *ssa.Function, a []Value) Value {
		return m.FormatInt(a[0].(*Term), true)
	})
	reg("internal/abi.NoEscape", func(m *Machine, fn *ssa.Function, a []Value) Value { return a[0] })
	reg("runtime.Caller", func(m *Machine, fn *ssa.Function, a []Value) Value {
		return Tuple{m.S.Const(64, 0), ConcStr("caller.go", m.S), m.S.Const(64, 1), m.S.True}
	})
	// runtime.Gosched: a scheduling point that must hand over to another runnable thread if there
	// is one (a spin loop makes progress only when somebody else runs)
	reg("runtime.Gosched", func(m *Machine, fn *ssa.Function, a []Value) Value {
		m.yieldToOther("Gosched")
		return nil
	})
	reg("runtime.KeepAlive", func(m *Machine, fn *ssa.Function, a []Value) Value { return nil })
	reg("(syscall.Errno).Error", func(m *Machine, fn *ssa.Function, a []Value) Value {
		t := a[0].(*Term)
		if t.IsConst() {
			return ConcStr("errno "+strconv.FormatUint(t.Val, 10), m.S)
		}
		return ConcStr("errno ?", m.S)
	})
	flagVar := func(m *Machine, fn *ssa.Function, a []Value) Value {
		m.store(a[0].(Ptr), a[2])
		flags, _ := m.Extra["flags"].(map[string]Ptr)
		if flags == nil {
			flags = map[string]Ptr{}
			m.Extra["flags"] = flags
		}
		flags[concStrArg(m, a[1], "flag name")] = a[0].(Ptr)
		return nil
	}
	for _, n := range []string{"StringVar", "BoolVar", "IntVar", "Uint64Var", "UintVar", "Int64Var"} {
		reg("flag."+n, flagVar)
	}
	reg("flag.Parsed", func(m *Machine, fn *ssa.Function, a []Value) Value {
		p, _ := m.Extra["flagsParsed"].(bool)
		return m.S.Bool(p)
	})
	// sync/atomic: sequentially consistent operations on cells. Every atomic operation is a
	// scheduling point; it acquires and releases the happens-before clock attached to its cell and
	// is itself exempt from the data-race check (m.atomicOp).
	for _, n := range []string{"LoadPointer", "LoadInt32", "LoadInt64", "LoadUint32", "LoadUint64", "LoadUintptr"} {
		reg("sync/atomic."+n, func(m *Machine, fn *ssa.Function, a []Value) Value {
			var r Value
			m.atomicOp(a[0].(Ptr), func() { r = m.load(a[0].(Ptr)) })
			return r
		})
	}
	for _, n := range []string{"StorePointer", "StoreInt32", "StoreInt64", "StoreUint32", "StoreUint64", "StoreUintptr"} {
		reg("sync/atomic."+n, func(m *Machine, fn *ssa.Function, a []Value) Value {
			m.atomicOp(a[0].(Ptr), func() { m.store(a[0].(Ptr), a[1]) })
			return nil
		})
	}
	for _, n := range []string{"SwapPointer", "SwapInt32", "SwapInt64", "SwapUint32", "SwapUint64", "SwapUintptr"} {
		reg("sync/atomic."+n, func(m *Machine, fn *ssa.Function, a []Value) Value {
			var old Value
			m.atomicOp(a[0].(Ptr), func() {
				old = m.load(a[0].(Ptr))
				m.store(a[0].(Ptr), a[1])
			})
			return old
		})
	}
	for _, n := range []string{"AddInt32", "AddInt64", "AddUint32", "AddUint64", "AddUintptr"} {
		reg("sync/atomic."+n, func(m *Machine, fn *ssa.Function, a []Value) Value {
			var v *Term
			m.atomicOp(a[0].(Ptr), func() {
				v = m.S.Add(m.load(a[0].(Ptr)).(*Term), a[1].(*Term))
				m.store(a[0].(Ptr), v)
			})
			return v
		})
	}
	for _, n := range []string{"CompareAndSwapInt32", "CompareAndSwapInt64", "CompareAndSwapUint32", "CompareAndSwapUint64", "CompareAndSwapPointer", "CompareAndSwapUintptr"} {
		reg("sync/atomic."+n, func(m *Machine, fn *ssa.Function, a []Value) Value {
			var res *Term
			m.atomicOp(a[0].(Ptr), func() {
				cur := m.load(a[0].(Ptr))
				if m.Branch(m.valEq(cur, a[1])) {
					m.store(a[0].(Ptr), a[2])
					res = m.S.True
				} else {
					res = m.S.False
				}
			})
			return res
		})
	}
	// sync.Pool: Get returns one of the items put earlier (any of them) or a new one from New; Put
	// synchronizes with the Get that returns the item.
	reg("(*sync.Pool).Get", func(m *Machine, fn *ssa.Function, a []Value) Value {
		m.Yield(nil, "Pool.Get")
		pool := a[0].(Ptr)
		st := m.poolState(pool)
		k := m.Choose(len(st.items)+1, "pool item")
		if k < len(st.items) {
			it := st.items[k]
			st.items = append(append([]poolItem{}, st.items[:k]...), st.items[k+1:]...)
			t := m.Sched.cur
			for tid, c := range it.vc {
				if t.vc[tid] < c {
					t.vc[tid] = c
				}
			}
			return it.v
		}
		// the New field
		pt := pool.Obj.T.Underlying().(*types.Struct)
		for i := 0; i < pt.NumFields(); i++ {
			if pt.Field(i).Name() == "New" {
				if cl, ok := (*m.cell(pool)).(*StructV).F[i].(*Closure); ok && cl != nil {
					return m.CallClosure(cl, nil)
				}
			}
		}
		return Iface{}
	})
	reg("(*sync.Pool).Put", func(m *Machine, fn *ssa.Function, a []Value) Value {
		m.Yield(nil, "Pool.Put")
		st := m.poolState(a[0].(Ptr))
		t := m.Sched.cur
		vc := map[int]int{}
		for k, v := range t.vc {
			vc[k] = v
		}
		t.vc[t.id]++
		st.items = append(st.items, poolItem{v: a[1], vc: vc})
		return nil
	})
	sortSlice := func(m *Machine, fn *ssa.Function, a []Value) Value {
		sl, ok := a[0].(Iface).V.(Slice)
		if !ok {
			m.unsupported("sort.Slice on a non-slice")
		}
		less := a[1].(*Closure)
		if sl.Len < 2 {
			return nil
		}
		arr := (*m.cell(sl.Base)).(*ArrayV)
		idx := func(i int) *Term { return m.S.Const(64, uint64(i)) }
		for i := 1; i < sl.Len; i++ {
			for j := i; j > 0; j-- {
				lt := m.CallClosure(less, []Value{idx(j), idx(j - 1)}).(*Term)
				if !m.Branch(lt) {
					break
				}
				arr.E[sl.Off+j], arr.E[sl.Off+j-1] = arr.E[sl.Off+j-1], arr.E[sl.Off+j]
			}
		}
		return nil
	}
	reg("sort.Slice", sortSlice)
	reg("sort.SliceStable", sortSlice)
	reg("math/rand.Uint64", func(m *Machine, fn *ssa.Function, a []Value) Value { return m.Nondet("rand", 64) })
	reg("time.Now", func(m *Machine, fn *ssa.Function, a []Value) Value {
		return m.zero(fn.Signature.Results().At(0).Type())
	})
	reg("(time.Time).UnixNano", func(m *Machine, fn *ssa.Function, a []Value) Value { return m.Nondet("now", 64) })
	reg("time.After", func(m *Machine, fn *ssa.Function, a []Value) Value {
		return m.newTimer(fn.Signature.Results().At(0).Type().Underlying().(*types.Chan).Elem())
	})
	// time.AfterFunc(d, f): f runs in its own thread at a nondeterministic (but eventual) moment
	reg("time.AfterFunc", func(m *Machine, fn *ssa.Function, a []Value) Value {
		f := a[1].(*Closure)
		m.spawn(func() { m.CallClosure(f, nil) })
		t := fn.Signature.Results().At(0).Type().(*types.Pointer).Elem()
		return Ptr{Obj: m.newObject(t, m.zero(t), "timer")}
	})
	// time.NewTimer(d): a Timer whose channel C may deliver at any moment (same model as time.After)
	reg("time.NewTimer", func(m *Machine, fn *ssa.Function, a []Value) Value {
		t := fn.Signature.Results().At(0).Type().(*types.Pointer).Elem()
		st := t.Underlying().(*types.Struct)
		v := m.zero(t).(*StructV)
		for i := 0; i < st.NumFields(); i++ {
			if st.Field(i).Name() == "C" {
				v.F[i] = m.newTimer(st.Field(i).Type().Underlying().(*types.Chan).Elem())
			}
		}
		return Ptr{Obj: m.newObject(t, v, "timer")}
	})
	reg("(*time.Timer).Reset", func(m *Machine, fn *ssa.Function, a []Value) Value { return m.S.False })
	reg("(*time.Timer).Stop", func(m *Machine, fn *ssa.Function, a []Value) Value { return m.S.False })
	reg("time.Sleep", func(m *Machine, fn *ssa.Function, a []Value) Value { m.Yield(nil, "Sleep"); return nil })

	// bytealg (assembly in the real build): reference semantics on byte vectors
	reg("internal/bytealg.IndexByteString", func(m *Machine, fn *ssa.Function, a []Value) Value {
		return m.indexByte(a[0].(Str).B, a[1].(*Term))
	})
	reg("internal/bytealg.IndexByte", func(m *Machine, fn *ssa.Function, a []Value) Value {
		return m.indexByte(m.SliceBytes(a[0].(Slice)), a[1].(*Term))
	})
	reg("internal/bytealg.LastIndexByteString", func(m *Machine, fn *ssa.Function, a []Value) Value {
		return m.lastIndexByte(a[0].(Str).B, a[1].(*Term))
	})
	reg("internal/bytealg.CountString", func(m *Machine, fn *ssa.Function, a []Value) Value {
		return m.countByte(a[0].(Str).B, a[1].(*Term))
	})
	reg("internal/bytealg.Count", func(m *Machine, fn *ssa.Function, a []Value) Value {
		return m.countByte(m.SliceBytes(a[0].(Slice)), a[1].(*Term))
	})
	reg("internal/bytealg.IndexString", func(m *Machine, fn *ssa.Function, a []Value) Value {
		return m.indexString(a[0].(Str).B, a[1].(Str).B)
	})
	reg("internal/bytealg.Index", func(m *Machine, fn *ssa.Function, a []Value) Value {
		return m.indexString(m.SliceBytes(a[0].(Slice)), m.SliceBytes(a[1].(Slice)))
	})
	reg("internal/bytealg.Equal", func(m *Machine, fn *ssa.Function, a []Value) Value {
		return m.valEq(Str{m.SliceBytes(a[0].(Slice))}, Str{m.SliceBytes(a[1].(Slice))})
	})
	reg("internal/bytealg.Cutover", func(m *Machine, fn *ssa.Function, a []Value) Value { return m.S.Const(64, 1<<30) })
	reg("internal/bytealg.MakeNoZero", func(m *Machine, fn *ssa.Function, a []Value) Value {
		n := m.lenArg(a[0].(*Term), "MakeNoZero")
		base := m.newArrayObj(types.Typ[types.Uint8], n)
		return Slice{Base: base, Len: n, Cap: n}
	})
	reg("internal/stringslite.Index", func(m *Machine, fn *ssa.Function, a []Value) Value {
		return m.indexString(a[0].(Str).B, a[1].(Str).B)
	})
	reg("strings.Index", func(m *Machine, fn *ssa.Function, a []Value) Value {
		return m.indexString(a[0].(Str).B, a[1].(Str).B)
	})
	// strings.TrimSpace on a symbolic string: one fork per boundary position. A non-ASCII byte at
	// a trim boundary (the real code switches to unicode.IsSpace over decoded runes there) ends
	// the path as outside the bound.
	reg("strings.TrimSpace", func(m *Machine, fn *ssa.Function, a []Value) Value {
		b := a[0].(Str).B
		if c, ok := a[0].(Str).Concrete(); ok {
			return ConcStr(strings.TrimSpace(c), m.S)
		}
		s := m.S
		isSp := func(x *Term) *Term {
			return s.BOr(s.BOr(s.Eq(x, s.Const(8, ' ')), s.BAnd(s.ULe(s.Const(8, 9), x), s.ULe(x, s.Const(8, 13)))), s.False)
		}
		lo, hi := 0, len(b)
		for lo < hi {
			if m.Branch(s.ULe(s.Const(8, 0x80), b[lo])) {
				m.end("bound", "strings.TrimSpace: non-ASCII byte at the trim boundary")
			}
			if !m.Branch(isSp(b[lo])) {
				break
			}
			lo++
		}
		for hi > lo {
			if m.Branch(s.ULe(s.Const(8, 0x80), b[hi-1])) {
				m.end("bound", "strings.TrimSpace: non-ASCII byte at the trim boundary")
			}
			if !m.Branch(isSp(b[hi-1])) {
				break
			}
			hi--
		}
		return Str{B: b[lo:hi]}
	})
	reg("unicode/utf8.ValidString", func(m *Machine, fn *ssa.Function, a []Value) Value {
		if c, ok := a[0].(Str).Concrete(); ok {
			return m.S.Bool(validUTF8(c))
		}
		m.unsupported("utf8.ValidString on symbolic string")
		return nil
	})
}

func validUTF8(s string) bool {
	for _, r := range s {
		if r == 0xFFFD {
			return false
		}
	}
	return true
}

// indexByte: first position of c in b, or -1; forks on the position when symbolic.
func (m *Machine) indexByte(b []*Term, c *Term) Value {
	s := m.S
	for i, x := range b {
		if m.Branch(s.Eq(x, c)) {
			return s.Const(64, uint64(i))
		}
	}
	return s.Const(64, ^uint64(0))
}

func (m *Machine) lastIndexByte(b []*Term, c *Term) Value {
	s := m.S
	for i := len(b) - 1; i >= 0; i-- {
		if m.Branch(s.Eq(b[i], c)) {
			return s.Const(64, uint64(i))
		}
	}
	return s.Const(64, ^uint64(0))
}

func (m *Machine) countByte(b []*Term, c *Term) Value {
	s := m.S
	n := s.Const(64, 0)
	for _, x := range b {
		n = s.Add(n, s.Ite(s.Eq(x, c), s.Const(64, 1), s.Const(64, 0)))
	}
	if n.IsConst() {
		return n
	}
	return s.Const(64, m.Concretize(n, "count"))
}

func (m *Machine) matchAt(b, sub []*Term, i int) *Term {
	cs := make([]*Term, len(sub))
	for k := range sub {
		cs[k] = m.S.Eq(b[i+k], sub[k])
		if cs[k].IsFalse() {
			return m.S.False
		}
	}
	return m.S.BAndAll(cs)
}

func (m *Machine) indexString(b, sub []*Term) Value {
	s := m.S
	if len(sub) == 0 {
		return s.Const(64, 0)
	}
	for i := 0; i+len(sub) <= len(b); i++ {
		if m.Branch(m.matchAt(b, sub, i)) {
			return s.Const(64, uint64(i))
		}
	}
	return s.Const(64, ^uint64(0))
}

// countSub counts non-overlapping occurrences (forking on each candidate).
func (m *Machine) countSub(b, sub []*Term) int {
	n := 0
	for i := 0; i+len(sub) <= len(b); {
		if m.Branch(m.matchAt(b, sub, i)) {
			n++
			i += len(sub)
		} else {
			i++
		}
	}
	return n
}

// Stdout records process output (not a file of the kernel model).
func (m *Machine) Stdout(s Str) {
	old, _ := m.Extra["stdout"].(Str)
	m.Extra["stdout"] = Str{append(append([]*Term{}, old.B...), s.B...)}
}

// Method finds the exported method name in the method set of t (nil if absent).
func (p *Program) Method(t types.Type, name string) *ssa.Function {
	sel := p.SSA.MethodSets.MethodSet(t).Lookup(nil, name)
	if sel == nil {
		return nil
	}
	return p.SSA.MethodValue(sel)
}
