package engine

import (
	"fmt"
	"go/types"
	"sort"
	"strings"

	"golang.org/x/tools/go/ssa"
)

// Kernel is a small POSIX model: one directory tree, regular files with volatile
// and durable contents, a descriptor table, optional single-fault injection and
// crash points. All of it is part of the trusted base of the checks that use it.

const (
	oRDONLY    = 0x0
	oWRONLY    = 0x1
	oRDWR      = 0x2
	oCREAT     = 0x40
	oEXCL      = 0x80
	oTRUNC     = 0x200
	oAPPEND    = 0x400
	oDIRECTORY = 0x10000

	eNOENT       = 2
	eIO          = 5
	eBADF        = 9
	eEXIST       = 17
	eNOTDIR      = 20
	eISDIR       = 21
	eINVAL       = 22
	eNAMETOOLONG = 36
	eNOSPC       = 28
	eNOTEMPTY    = 39

	sIFREG = 0x8000
	sIFDIR = 0x4000
)

// fileData is the content of a regular file: Size may be symbolic; Cells[i] is
// meaningful for i < Size. Bytes at i ≥ len(Cells) (but < Size) are unknown and
// materialised on demand.
type fileData struct {
	Cells []*Term
	Size  *Term // BV64
}

type dataOp struct {
	kind string // "write", "trunc"
	off  int
	data []*Term
	size *Term
}

type Inode struct {
	id      int
	dir     bool
	vol     fileData
	dur     fileData
	pending []dataOp
	entries []*dirent // directories
	nlink   int
	unknown int // counter for unknown-content symbols
}

type dirent struct {
	name string
	ino  *Inode
}

type nsOp struct {
	kind        string // "create", "mkdir", "unlink", "rename", "link"
	dir, dir2   *Inode
	name, name2 string
	ino         *Inode
}

type fdesc struct {
	ino    *Inode
	flags  int
	off    int
	dirpos int // ReadDirent cursor
	path   string
}

type Kernel struct {
	m        *Machine
	root     *Inode
	fds      map[int]*fdesc
	nextIno  int
	Trace    []string
	nsys     int
	FaultsOn bool
	// FailAlways: syscall name → errno; every invocation fails (persistent failure)
	FailAlways map[string]int
	Faulted    string
	MaxFault   int
	nFault     int
	CrashAt    int // syscall ordinal (1-based) that is not executed; 0 = never
	crashed    bool
	// durable namespace: snapshot taken lazily; pending namespace operations since
	nsPending  []nsOp
	durRoot    map[*Inode][]*dirent // durable entries per directory (snapshot at first ns op)
	ShortDir   bool                 // ReadDirent returns entries in nondeterministic chunks
	ShortWrite bool                 // write(2) may transfer only a non-empty prefix of the data
	touched    []string
}

type kernelCrash struct{}

func newKernel(m *Machine) *Kernel {
	k := &Kernel{m: m, fds: map[int]*fdesc{}, MaxFault: 1}
	k.root = k.newInode(true)
	return k
}

func (k *Kernel) newInode(dir bool) *Inode {
	k.nextIno++
	z := k.m.S.Const(64, 0)
	return &Inode{id: k.nextIno, dir: dir, vol: fileData{Size: z}, dur: fileData{Size: z}}
}

func (k *Kernel) errno(e int) Iface {
	sp := k.m.P.Pkgs["syscall"]
	if sp == nil {
		k.m.unsupported("package syscall not loaded")
	}
	t := sp.Type("Errno").Type()
	return Iface{T: t, V: k.m.S.Const(64, uint64(e))}
}

func (k *Kernel) lookup(d *Inode, name string) *dirent {
	for _, e := range d.entries {
		if e.name == name {
			return e
		}
	}
	return nil
}

// resolve walks path from dir; returns the parent directory, the final name and the entry (nil if absent).
func (k *Kernel) resolve(dir *Inode, path string) (parent *Inode, name string, ent *dirent, errno int) {
	if strings.HasPrefix(path, "/") {
		dir = k.root
	}
	parts := []string{}
	for _, p := range strings.Split(path, "/") {
		if p == "" || p == "." {
			continue
		}
		parts = append(parts, p)
	}
	if len(parts) == 0 {
		return nil, "", &dirent{name: ".", ino: dir}, 0
	}
	cur := dir
	for i, p := range parts {
		if len(p) > 255 { // NAME_MAX
			return nil, "", nil, eNAMETOOLONG
		}
		if !cur.dir {
			return nil, "", nil, eNOTDIR
		}
		e := k.lookup(cur, p)
		if i == len(parts)-1 {
			return cur, p, e, 0
		}
		if e == nil {
			return nil, "", nil, eNOENT
		}
		cur = e.ino
	}
	return nil, "", nil, eINVAL
}

func (k *Kernel) dirOf(dirfd int) (*Inode, int) {
	const atFDCWD = -100
	if dirfd == atFDCWD {
		return k.root, 0
	}
	f := k.fds[dirfd]
	if f == nil {
		return nil, eBADF
	}
	if !f.ino.dir {
		return nil, eNOTDIR
	}
	return f.ino, 0
}

func (k *Kernel) allocFd(f *fdesc) int {
	fd := 3
	for k.fds[fd] != nil {
		fd++
	}
	k.fds[fd] = f
	return fd
}

// enter is called at the start of every syscall: trace, preemption, crash point, fault injection.
// It returns a non-zero errno if the call is to fail without effect.
func (k *Kernel) enter(name string, detail string) int {
	m := k.m
	if k.crashed {
		panic(&kernelCrash{})
	}
	if m.Sched.PreemptSyscalls {
		m.Yield(nil, "syscall "+name)
	}
	k.nsys++
	if k.CrashAt != 0 && k.nsys == k.CrashAt {
		k.crashed = true
		k.Trace = append(k.Trace, "CRASH before "+name+"("+detail+")")
		panic(&kernelCrash{})
	}
	k.Trace = append(k.Trace, name+"("+detail+")")
	if e, ok := k.FailAlways[name]; ok {
		k.Faulted = name
		k.Trace[len(k.Trace)-1] += fmt.Sprintf(" = errno %d (persistent)", e)
		return e
	}
	if k.FaultsOn && k.nFault < k.MaxFault {
		if m.Choose(2, "fault") == 1 {
			k.nFault++
			k.Faulted = name
			k.Trace[len(k.Trace)-1] += " = EIO (injected)"
			return eIO
		}
	}
	return 0
}

func (k *Kernel) snapshotNS() {
	if k.durRoot != nil {
		return
	}
	k.durRoot = map[*Inode][]*dirent{}
	var walk func(d *Inode)
	walk = func(d *Inode) {
		cp := make([]*dirent, len(d.entries))
		for i, e := range d.entries {
			cp[i] = &dirent{name: e.name, ino: e.ino}
			if e.ino.dir {
				walk(e.ino)
			}
		}
		k.durRoot[d] = cp
	}
	walk(k.root)
}

func (k *Kernel) nsRecord(op nsOp) {
	k.snapshotNS()
	k.nsPending = append(k.nsPending, op)
}

func applyNs(entries map[*Inode][]*dirent, op nsOp) {
	rm := func(d *Inode, name string) {
		es := entries[d]
		for i, e := range es {
			if e.name == name {
				entries[d] = append(append([]*dirent{}, es[:i]...), es[i+1:]...)
				return
			}
		}
	}
	switch op.kind {
	case "create", "mkdir", "link":
		rm(op.dir, op.name)
		entries[op.dir] = append(entries[op.dir], &dirent{name: op.name, ino: op.ino})
	case "unlink":
		rm(op.dir, op.name)
	case "rename":
		rm(op.dir, op.name)
		rm(op.dir2, op.name2)
		entries[op.dir2] = append(entries[op.dir2], &dirent{name: op.name2, ino: op.ino})
	}
}

// ---------------------------------------------------------------------------
// file data operations (symbolic size aware)

func (k *Kernel) cellAt(ino *Inode, fd *fileData, i int) *Term {
	for len(fd.Cells) <= i {
		ino.unknown++
		fd.Cells = append(fd.Cells, k.m.S.Var(fmt.Sprintf("kfile%d_unk%d", ino.id, ino.unknown), 8))
	}
	return fd.Cells[i]
}

// normalize makes cells [0,n) explicit: cell i = ite(i < size, cell, 0).
func (k *Kernel) validCell(ino *Inode, fd *fileData, i int) *Term {
	s := k.m.S
	in := s.ULt(s.Const(64, uint64(i)), fd.Size)
	if in.IsFalse() {
		return s.Const(8, 0)
	}
	return s.Ite(in, k.cellAt(ino, fd, i), s.Const(8, 0))
}

func (k *Kernel) dataWrite(ino *Inode, fd *fileData, off int, data []*Term) {
	s := k.m.S
	if len(data) == 0 {
		return
	}
	// the gap between the old size and off reads as zeros
	for i := 0; i < off; i++ {
		if i < len(fd.Cells) || !s.ULt(s.Const(64, uint64(i)), fd.Size).IsFalse() {
			c := k.validCell(ino, fd, i)
			for len(fd.Cells) <= i {
				fd.Cells = append(fd.Cells, s.Const(8, 0))
			}
			fd.Cells[i] = c
		} else {
			for len(fd.Cells) <= i {
				fd.Cells = append(fd.Cells, s.Const(8, 0))
			}
		}
	}
	for j, d := range data {
		for len(fd.Cells) <= off+j {
			if s.ULt(s.Const(64, uint64(len(fd.Cells))), fd.Size).IsFalse() {
				fd.Cells = append(fd.Cells, s.Const(8, 0))
			} else {
				k.cellAt(ino, fd, len(fd.Cells))
			}
		}
		fd.Cells[off+j] = d
	}
	end := s.Const(64, uint64(off+len(data)))
	fd.Size = s.Ite(s.ULt(fd.Size, end), end, fd.Size)
}

func (k *Kernel) dataTrunc(ino *Inode, fd *fileData, n int) {
	cells := make([]*Term, n)
	for i := 0; i < n; i++ {
		cells[i] = k.validCell(ino, fd, i)
	}
	fd.Cells = cells
	fd.Size = k.m.S.Const(64, uint64(n))
}

func cloneData(d fileData) fileData {
	return fileData{Cells: append([]*Term(nil), d.Cells...), Size: d.Size}
}

// ---------------------------------------------------------------------------
// syscalls

func (k *Kernel) sysOpenat(dirfd int, path string, flags int, what string) (int, Iface) {
	if e := k.enter(what, fmt.Sprintf("%d,%q,%#x", dirfd, path, flags)); e != 0 {
		return -1, k.errno(e)
	}
	if flags&(oWRONLY|oRDWR|oCREAT|oTRUNC) != 0 {
		// (a read-only open — e.g. of the parent directory, to fsync it — modifies nothing and is not
		// counted as touching the path)
		k.touched = append(k.touched, path)
	}
	dir, en := k.dirOf(dirfd)
	if en != 0 && !strings.HasPrefix(path, "/") {
		return -1, k.errno(en)
	}
	if dir == nil {
		dir = k.root
	}
	parent, name, ent, en := k.resolve(dir, path)
	if en != 0 {
		return -1, k.errno(en)
	}
	if ent == nil {
		if flags&oCREAT == 0 {
			return -1, k.errno(eNOENT)
		}
		ino := k.newInode(false)
		ino.nlink = 1
		parent.entries = append(parent.entries, &dirent{name: name, ino: ino})
		k.nsRecord(nsOp{kind: "create", dir: parent, name: name, ino: ino})
		ent = k.lookup(parent, name)
	} else {
		if flags&oCREAT != 0 && flags&oEXCL != 0 {
			return -1, k.errno(eEXIST)
		}
		if flags&oDIRECTORY != 0 && !ent.ino.dir {
			return -1, k.errno(eNOTDIR)
		}
		if ent.ino.dir && flags&(oWRONLY|oRDWR) != 0 {
			return -1, k.errno(eISDIR)
		}
		if flags&oTRUNC != 0 && !ent.ino.dir && flags&(oWRONLY|oRDWR) != 0 {
			k.dataTrunc(ent.ino, &ent.ino.vol, 0)
			ent.ino.pending = append(ent.ino.pending, dataOp{kind: "trunc", off: 0})
		}
	}
	return k.allocFd(&fdesc{ino: ent.ino, flags: flags, path: path}), Iface{}
}

func (k *Kernel) sysClose(fd int) Iface {
	if e := k.enter("close", fmt.Sprint(fd)); e != 0 {
		// Linux releases the descriptor even when close reports an error
		delete(k.fds, fd)
		return k.errno(e)
	}
	if k.fds[fd] == nil {
		return k.errno(eBADF)
	}
	delete(k.fds, fd)
	return Iface{}
}

func (k *Kernel) file(fd int, needWrite, needRead bool) (*fdesc, int) {
	f := k.fds[fd]
	if f == nil {
		return nil, eBADF
	}
	if f.ino.dir {
		return nil, eISDIR
	}
	acc := f.flags & 3
	if needWrite && acc == oRDONLY {
		return nil, eBADF
	}
	if needRead && acc == oWRONLY {
		return nil, eBADF
	}
	return f, 0
}

func (k *Kernel) sysPwrite(fd int, data []*Term, off *Term, what string) (*Term, Iface) {
	m := k.m
	s := m.S
	if e := k.enter(what, fmt.Sprintf("%d,len=%d,off=%s", fd, len(data), off)); e != 0 {
		return s.Const(64, ^uint64(0)), k.errno(e)
	}
	f, en := k.file(fd, true, false)
	if en != 0 {
		return s.Const(64, ^uint64(0)), k.errno(en)
	}
	var o int
	if off == nil { // write(2): at the descriptor offset, or at EOF with O_APPEND
		if f.flags&oAPPEND != 0 {
			o = int(m.Concretize(f.ino.vol.Size, "file size for append"))
		} else {
			o = f.off
		}
	} else {
		if !off.IsConst() && m.Branch(s.SLt(off, s.Const(64, 0))) {
			return s.Const(64, ^uint64(0)), k.errno(eINVAL)
		}
		ov := m.Concretize(off, "pwrite offset")
		if int64(ov) < 0 {
			return s.Const(64, ^uint64(0)), k.errno(eINVAL)
		}
		if ov > 1<<26 {
			m.end("bound", "pwrite offset beyond the modelled file size")
		}
		o = int(ov)
	}
	if k.ShortWrite && off == nil && len(data) > 1 {
		// a short write: 1..len(data) bytes are transferred
		data = data[:1+m.Choose(len(data), "short write")]
	}
	k.dataWrite(f.ino, &f.ino.vol, o, data)
	f.ino.pending = append(f.ino.pending, dataOp{kind: "write", off: o, data: append([]*Term(nil), data...)})
	if off == nil {
		f.off = o + len(data)
	}
	return s.Const(64, uint64(len(data))), Iface{}
}

func (k *Kernel) sysPread(fd int, buf Slice, off *Term) (*Term, Iface) {
	m := k.m
	s := m.S
	if e := k.enter("pread", fmt.Sprintf("%d,len=%d,off=%s", fd, buf.Len, off)); e != 0 {
		return s.Const(64, ^uint64(0)), k.errno(e)
	}
	f, en := k.file(fd, false, true)
	if en != 0 {
		return s.Const(64, ^uint64(0)), k.errno(en)
	}
	if !off.IsConst() && m.Branch(s.SLt(off, s.Const(64, 0))) {
		return s.Const(64, ^uint64(0)), k.errno(eINVAL)
	}
	if off.IsConst() && int64(off.Val) < 0 {
		return s.Const(64, ^uint64(0)), k.errno(eINVAL)
	}
	size := f.ino.vol.Size
	// offset at or beyond EOF: nothing read (no need to know the offset concretely)
	if !m.Branch(s.ULt(off, size)) {
		return s.Const(64, 0), Iface{}
	}
	ov := m.Concretize(off, "pread offset")
	if ov > 1<<26 {
		m.end("bound", "pread offset beyond the modelled file size")
	}
	o := int(ov)
	old := m.SliceBytes(buf)
	arr := (*m.cell(buf.Base)).(*ArrayV)
	m.accessRange(buf, true)
	n := s.Const(64, 0)
	for j := 0; j < buf.Len; j++ {
		in := s.ULt(s.Const(64, uint64(o+j)), size)
		if in.IsFalse() {
			break
		}
		arr.E[buf.Off+j] = s.Ite(in, k.cellAt(f.ino, &f.ino.vol, o+j), old[j])
		n = s.Add(n, s.Ite(in, s.Const(64, 1), s.Const(64, 0)))
	}
	return n, Iface{}
}

func (k *Kernel) sysSeek(fd int, off *Term, whence int) (*Term, Iface) {
	m := k.m
	s := m.S
	if e := k.enter("lseek", fmt.Sprintf("%d,%s,%d", fd, off, whence)); e != 0 {
		return s.Const(64, ^uint64(0)), k.errno(e)
	}
	f, en := k.file(fd, false, false)
	if en != 0 {
		return s.Const(64, ^uint64(0)), k.errno(en)
	}
	o := m.ConcreteInt(off, "lseek offset")
	switch whence {
	case 0:
	case 1:
		o += f.off
	case 2:
		o += int(m.Concretize(f.ino.vol.Size, "file size for lseek"))
	default:
		return s.Const(64, ^uint64(0)), k.errno(eINVAL)
	}
	if o < 0 {
		return s.Const(64, ^uint64(0)), k.errno(eINVAL)
	}
	f.off = o
	return s.Const(64, uint64(o)), Iface{}
}

// sysRead: read(2) at the descriptor offset.
func (k *Kernel) sysRead(fd int, buf Slice) (*Term, Iface) {
	m := k.m
	s := m.S
	if e := k.enter("read", fmt.Sprintf("%d,len=%d", fd, buf.Len)); e != 0 {
		return s.Const(64, ^uint64(0)), k.errno(e)
	}
	f, en := k.file(fd, false, true)
	if en != 0 {
		return s.Const(64, ^uint64(0)), k.errno(en)
	}
	size := int(m.Concretize(f.ino.vol.Size, "file size for read"))
	arr := (*m.cell(buf.Base)).(*ArrayV)
	n := 0
	for j := 0; j < buf.Len && f.off+j < size; j++ {
		arr.E[buf.Off+j] = k.cellAt(f.ino, &f.ino.vol, f.off+j)
		n++
	}
	f.off += n
	return s.Const(64, uint64(n)), Iface{}
}

func (k *Kernel) sysFaccessat(dirfd int, path string) Iface {
	if e := k.enter("faccessat", fmt.Sprintf("%d,%q", dirfd, path)); e != 0 {
		return k.errno(e)
	}
	dir, en := k.dirOf(dirfd)
	if en != 0 && !strings.HasPrefix(path, "/") {
		return k.errno(en)
	}
	if dir == nil {
		dir = k.root
	}
	_, _, ent, en := k.resolve(dir, path)
	if en != 0 {
		return k.errno(en)
	}
	if ent == nil {
		return k.errno(eNOENT)
	}
	return Iface{}
}

func (k *Kernel) sysFsync(fd int) Iface {
	if e := k.enter("fsync", fmt.Sprint(fd)); e != 0 {
		return k.errno(e)
	}
	f := k.fds[fd]
	if f == nil {
		return k.errno(eBADF)
	}
	if !f.ino.dir {
		f.ino.dur = cloneData(f.ino.vol)
		f.ino.pending = nil
	}
	return Iface{}
}

func (k *Kernel) sysFtruncate(fd int, length *Term) Iface {
	m := k.m
	if e := k.enter("ftruncate", fmt.Sprintf("%d,%s", fd, length)); e != 0 {
		return k.errno(e)
	}
	f, en := k.file(fd, true, false)
	if en != 0 {
		return k.errno(en)
	}
	if !length.IsConst() && m.Branch(m.S.SLt(length, m.S.Const(64, 0))) {
		return k.errno(eINVAL)
	}
	n := m.Concretize(length, "ftruncate length")
	if int64(n) < 0 {
		return k.errno(eINVAL)
	}
	if n > 1<<26 {
		m.end("bound", "ftruncate length beyond the modelled file size")
	}
	k.dataTrunc(f.ino, &f.ino.vol, int(n))
	f.ino.pending = append(f.ino.pending, dataOp{kind: "trunc", off: int(n)})
	return Iface{}
}

func (k *Kernel) sysMkdirat(dirfd int, path string) Iface {
	if e := k.enter("mkdirat", fmt.Sprintf("%d,%q", dirfd, path)); e != 0 {
		return k.errno(e)
	}
	dir, en := k.dirOf(dirfd)
	if en != 0 {
		return k.errno(en)
	}
	parent, name, ent, en := k.resolve(dir, path)
	if en != 0 {
		return k.errno(en)
	}
	if ent != nil {
		return k.errno(eEXIST)
	}
	ino := k.newInode(true)
	parent.entries = append(parent.entries, &dirent{name: name, ino: ino})
	k.nsRecord(nsOp{kind: "mkdir", dir: parent, name: name, ino: ino})
	return Iface{}
}

func (k *Kernel) sysUnlinkat(dirfd int, path string) Iface {
	if e := k.enter("unlinkat", fmt.Sprintf("%d,%q", dirfd, path)); e != 0 {
		return k.errno(e)
	}
	k.touched = append(k.touched, path)
	dir, en := k.dirOf(dirfd)
	if en != 0 {
		return k.errno(en)
	}
	parent, name, ent, en := k.resolve(dir, path)
	if en != 0 {
		return k.errno(en)
	}
	if ent == nil || parent == nil {
		return k.errno(eNOENT)
	}
	if ent.ino.dir {
		return k.errno(eISDIR)
	}
	k.removeEntry(parent, name)
	ent.ino.nlink--
	k.nsRecord(nsOp{kind: "unlink", dir: parent, name: name})
	return Iface{}
}

func (k *Kernel) removeEntry(d *Inode, name string) {
	for i, e := range d.entries {
		if e.name == name {
			d.entries = append(append([]*dirent{}, d.entries[:i]...), d.entries[i+1:]...)
			return
		}
	}
}

func (k *Kernel) sysRenameat(ofd int, opath string, nfd int, npath string) Iface {
	if e := k.enter("renameat", fmt.Sprintf("%d,%q,%d,%q", ofd, opath, nfd, npath)); e != 0 {
		return k.errno(e)
	}
	k.touched = append(k.touched, opath, npath)
	od, en := k.dirOf(ofd)
	if en != 0 {
		return k.errno(en)
	}
	nd, en := k.dirOf(nfd)
	if en != 0 {
		return k.errno(en)
	}
	op, oname, oent, en := k.resolve(od, opath)
	if en != 0 {
		return k.errno(en)
	}
	if oent == nil || op == nil {
		return k.errno(eNOENT)
	}
	np, nname, nent, en := k.resolve(nd, npath)
	if en != 0 {
		return k.errno(en)
	}
	if np == nil {
		return k.errno(eINVAL)
	}
	if nent != nil {
		if nent.ino == oent.ino {
			return Iface{} // same file: no-op
		}
		if nent.ino.dir != oent.ino.dir {
			if nent.ino.dir {
				return k.errno(eISDIR)
			}
			return k.errno(eNOTDIR)
		}
		if nent.ino.dir && len(nent.ino.entries) > 0 {
			return k.errno(eNOTEMPTY)
		}
		k.removeEntry(np, nname)
		nent.ino.nlink--
	}
	k.removeEntry(op, oname)
	np.entries = append(np.entries, &dirent{name: nname, ino: oent.ino})
	k.nsRecord(nsOp{kind: "rename", dir: op, name: oname, dir2: np, name2: nname, ino: oent.ino})
	return Iface{}
}

func (k *Kernel) sysLinkat(ofd int, opath string, nfd int, npath string) Iface {
	if e := k.enter("linkat", fmt.Sprintf("%d,%q,%d,%q", ofd, opath, nfd, npath)); e != 0 {
		return k.errno(e)
	}
	k.touched = append(k.touched, opath, npath)
	od, en := k.dirOf(ofd)
	if en != 0 {
		return k.errno(en)
	}
	nd, en := k.dirOf(nfd)
	if en != 0 {
		return k.errno(en)
	}
	_, _, oent, en := k.resolve(od, opath)
	if en != 0 {
		return k.errno(en)
	}
	if oent == nil {
		return k.errno(eNOENT)
	}
	np, nname, nent, en := k.resolve(nd, npath)
	if en != 0 {
		return k.errno(en)
	}
	if nent != nil {
		return k.errno(eEXIST)
	}
	if oent.ino.dir {
		return k.errno(eINVAL)
	}
	np.entries = append(np.entries, &dirent{name: nname, ino: oent.ino})
	oent.ino.nlink++
	k.nsRecord(nsOp{kind: "link", dir: np, name: nname, ino: oent.ino})
	return Iface{}
}

const direntRec = 32

// sysReadDirent fills buf with fixed-size records [len][name…]; "." and ".." come first.
func (k *Kernel) sysReadDirent(fd int, buf Slice) (*Term, Iface) {
	m := k.m
	s := m.S
	if e := k.enter("getdents64", fmt.Sprint(fd)); e != 0 {
		return s.Const(64, ^uint64(0)), k.errno(e)
	}
	f := k.fds[fd]
	if f == nil {
		return s.Const(64, ^uint64(0)), k.errno(eBADF)
	}
	if !f.ino.dir {
		return s.Const(64, ^uint64(0)), k.errno(eNOTDIR)
	}
	names := []string{".", ".."}
	for _, e := range f.ino.entries {
		names = append(names, e.name)
	}
	rest := names
	if f.dirpos < len(names) {
		rest = names[f.dirpos:]
	} else {
		rest = nil
	}
	max := buf.Len / direntRec
	if len(rest) > max {
		rest = rest[:max]
	}
	if k.ShortDir && len(rest) > 1 {
		n := 1 + m.Choose(len(rest), "dirchunk")
		rest = rest[:n]
	}
	arr := (*m.cell(buf.Base)).(*ArrayV)
	for i, nm := range rest {
		if len(nm) > direntRec-1 {
			m.unsupported("file name longer than the dirent record of the model")
		}
		base := buf.Off + i*direntRec
		arr.E[base] = s.Const(8, uint64(len(nm)))
		for j := 0; j < direntRec-1; j++ {
			c := byte(0)
			if j < len(nm) {
				c = nm[j]
			}
			arr.E[base+1+j] = s.Const(8, uint64(c))
		}
	}
	f.dirpos += len(rest)
	return s.Const(64, uint64(len(rest)*direntRec)), Iface{}
}

func (k *Kernel) parseDirent(buf Slice, max int, names Slice) Value {
	m := k.m
	s := m.S
	bs := m.SliceBytes(buf)
	consumed, count := 0, 0
	cur := names
	for consumed+direntRec <= len(bs) && (max < 0 || count < max) {
		ln := int(m.Concretize(bs[consumed], "dirent name length"))
		var nm []*Term
		for j := 0; j < ln; j++ {
			nm = append(nm, bs[consumed+1+j])
		}
		consumed += direntRec
		str := Str{nm}
		if c, ok := str.Concrete(); ok && (c == "." || c == "..") {
			continue
		}
		count++
		// append(names, str)
		if cur.Len < cur.Cap && cur.Base.Obj != nil {
			arr := (*m.cell(cur.Base)).(*ArrayV)
			arr.E[cur.Off+cur.Len] = str
			cur.Len++
		} else {
			old := m.SliceVals(cur)
			nc := cur.Cap*2 + 1
			base := m.newArrayObj(types.Typ[types.String], nc)
			arr := base.Obj.V.(*ArrayV)
			copy(arr.E, old)
			arr.E[len(old)] = str
			cur = Slice{Base: base, Off: 0, Len: len(old) + 1, Cap: nc}
		}
	}
	return Tuple{s.Const(64, uint64(consumed)), s.Const(64, uint64(count)), cur}
}

// ---------------------------------------------------------------------------
// crash / reboot

// Reboot applies the durability rules: a prefix of the pending namespace operations
// and, per file, the durable content plus a prefix of its pending data operations.
func (k *Kernel) Reboot() {
	m := k.m
	k.fds = map[int]*fdesc{}
	k.crashed = false
	k.CrashAt = 0
	// namespace
	if k.durRoot != nil {
		nkeep := m.Choose(len(k.nsPending)+1, "ns-prefix")
		ents := map[*Inode][]*dirent{}
		for d, es := range k.durRoot {
			ents[d] = append([]*dirent(nil), es...)
		}
		for _, op := range k.nsPending[:nkeep] {
			applyNs(ents, op)
		}
		var all []*Inode
		var walk func(d *Inode)
		seen := map[*Inode]bool{}
		walk = func(d *Inode) {
			if seen[d] {
				return
			}
			seen[d] = true
			d.entries = ents[d]
			for _, e := range d.entries {
				if e.ino.dir {
					walk(e.ino)
				} else if !seen[e.ino] {
					seen[e.ino] = true
					all = append(all, e.ino)
				}
			}
		}
		walk(k.root)
		k.durRoot = nil
		k.nsPending = nil
		// data
		for _, ino := range all {
			k.rebootFile(ino)
		}
		return
	}
	// no namespace change since start: only file data
	var files []*Inode
	var walk func(d *Inode)
	seen := map[*Inode]bool{}
	walk = func(d *Inode) {
		for _, e := range d.entries {
			if e.ino.dir {
				walk(e.ino)
			} else if !seen[e.ino] {
				seen[e.ino] = true
				files = append(files, e.ino)
			}
		}
	}
	walk(k.root)
	for _, ino := range files {
		k.rebootFile(ino)
	}
}

func (k *Kernel) rebootFile(ino *Inode) {
	m := k.m
	nkeep := 0
	if len(ino.pending) > 0 {
		nkeep = m.Choose(len(ino.pending)+1, "data-prefix")
	}
	d := cloneData(ino.dur)
	for _, op := range ino.pending[:nkeep] {
		switch op.kind {
		case "write":
			k.dataWrite(ino, &d, op.off, op.data)
		case "trunc":
			k.dataTrunc(ino, &d, op.off)
		}
	}
	ino.vol = d
	ino.dur = cloneData(d)
	ino.pending = nil
}

// ---------------------------------------------------------------------------
// harness-side helpers

// PlantFile creates a file (durable) with the given content cells and (possibly symbolic) size.
func (k *Kernel) PlantFile(path string, content []*Term, size *Term) {
	parent, name, ent, en := k.resolve(k.root, path)
	if en != 0 || parent == nil {
		k.m.end("assume", "plant: bad path "+path)
	}
	if ent != nil {
		k.removeEntry(parent, name)
	}
	ino := k.newInode(false)
	ino.nlink = 1
	ino.vol = fileData{Cells: append([]*Term(nil), content...), Size: size}
	ino.dur = cloneData(ino.vol)
	parent.entries = append(parent.entries, &dirent{name: name, ino: ino})
}

func (k *Kernel) PlantDir(path string) {
	parent, name, ent, en := k.resolve(k.root, path)
	if en != 0 || parent == nil {
		k.m.end("assume", "plant: bad path "+path)
	}
	if ent != nil {
		return
	}
	parent.entries = append(parent.entries, &dirent{name: name, ino: k.newInode(true)})
}

// FileBytes returns the volatile content of path (size concretised) and whether it exists.
func (k *Kernel) FileBytes(path string) ([]*Term, bool) {
	_, _, ent, en := k.resolve(k.root, path)
	if en != 0 || ent == nil || ent.ino.dir {
		return nil, false
	}
	n := int(k.m.Concretize(ent.ino.vol.Size, "file size"))
	if n > 1<<20 {
		k.m.end("bound", "file too large to inspect")
	}
	out := make([]*Term, n)
	for i := range out {
		out[i] = k.cellAt(ent.ino, &ent.ino.vol, i)
	}
	return out, true
}

func (k *Kernel) ListDir(path string) ([]string, bool) {
	_, _, ent, en := k.resolve(k.root, path)
	if en != 0 || ent == nil || !ent.ino.dir {
		return nil, false
	}
	var out []string
	for _, e := range ent.ino.entries {
		out = append(out, e.name)
	}
	sort.Strings(out)
	return out, true
}

func intArg(m *Machine, v Value, what string) int { return m.ConcreteInt(v.(*Term), what) }

func errTuple1(m *Machine, n *Term, e Iface) Value { return Tuple{n, e} }

func init() {
	reg := func(name string, f Intrinsic) { defaultIntrinsics["golang.org/x/sys/unix."+name] = f }
	reg("Open", func(m *Machine, fn *ssa.Function, a []Value) Value {
		fd, e := m.K.sysOpenat(-100, concStrArg(m, a[0], "path"), intArg(m, a[1], "open flags"), "open")
		return Tuple{m.S.Const(64, uint64(fd)), e}
	})
	reg("Openat", func(m *Machine, fn *ssa.Function, a []Value) Value {
		fd, e := m.K.sysOpenat(intArg(m, a[0], "dirfd"), concStrArg(m, a[1], "path"), intArg(m, a[2], "open flags"), "openat")
		return Tuple{m.S.Const(64, uint64(fd)), e}
	})
	reg("Close", func(m *Machine, fn *ssa.Function, a []Value) Value { return m.K.sysClose(intArg(m, a[0], "fd")) })
	reg("Fsync", func(m *Machine, fn *ssa.Function, a []Value) Value { return m.K.sysFsync(intArg(m, a[0], "fd")) })
	// fdatasync flushes the data and the metadata needed to read it back (the size): in this model
	// the same operation as fsync, recorded under the same name
	reg("Fdatasync", func(m *Machine, fn *ssa.Function, a []Value) Value { return m.K.sysFsync(intArg(m, a[0], "fd")) })
	reg("Fstat", func(m *Machine, fn *ssa.Function, a []Value) Value {
		k := m.K
		fd := intArg(m, a[0], "fd")
		if e := k.enter("fstat", fmt.Sprint(fd)); e != 0 {
			return k.errno(e)
		}
		f := k.fds[fd]
		if f == nil {
			return k.errno(eBADF)
		}
		p := a[1].(Ptr)
		st := p.Obj.T.Underlying().(*types.Struct)
		sv := (*m.cell(p)).(*StructV)
		for i := 0; i < st.NumFields(); i++ {
			switch st.Field(i).Name() {
			case "Mode":
				mode := uint64(sIFREG | 0o644)
				if f.ino.dir {
					mode = sIFDIR | 0o755
				}
				sv.F[i] = m.S.Const(32, mode)
			case "Size":
				if f.ino.dir {
					sv.F[i] = m.S.Const(64, 4096)
				} else {
					sv.F[i] = f.ino.vol.Size
				}
			case "Nlink":
				sv.F[i] = m.S.Const(64, uint64(f.ino.nlink))
			case "Ino":
				sv.F[i] = m.S.Const(64, uint64(f.ino.id))
			}
		}
		return Iface{}
	})
	reg("Ftruncate", func(m *Machine, fn *ssa.Function, a []Value) Value {
		return m.K.sysFtruncate(intArg(m, a[0], "fd"), a[1].(*Term))
	})
	reg("Pread", func(m *Machine, fn *ssa.Function, a []Value) Value {
		n, e := m.K.sysPread(intArg(m, a[0], "fd"), a[1].(Slice), a[2].(*Term))
		return Tuple{n, e}
	})
	reg("Pwrite", func(m *Machine, fn *ssa.Function, a []Value) Value {
		n, e := m.K.sysPwrite(intArg(m, a[0], "fd"), m.SliceBytes(a[1].(Slice)), a[2].(*Term), "pwrite")
		return Tuple{n, e}
	})
	reg("Write", func(m *Machine, fn *ssa.Function, a []Value) Value {
		n, e := m.K.sysPwrite(intArg(m, a[0], "fd"), m.SliceBytes(a[1].(Slice)), nil, "write")
		return Tuple{n, e}
	})
	reg("Seek", func(m *Machine, fn *ssa.Function, a []Value) Value {
		n, e := m.K.sysSeek(intArg(m, a[0], "fd"), a[1].(*Term), intArg(m, a[2], "whence"))
		return Tuple{n, e}
	})
	reg("Read", func(m *Machine, fn *ssa.Function, a []Value) Value {
		n, e := m.K.sysRead(intArg(m, a[0], "fd"), a[1].(Slice))
		return Tuple{n, e}
	})
	reg("Faccessat", func(m *Machine, fn *ssa.Function, a []Value) Value {
		return m.K.sysFaccessat(intArg(m, a[0], "dirfd"), concStrArg(m, a[1], "path"))
	})
	reg("Access", func(m *Machine, fn *ssa.Function, a []Value) Value {
		return m.K.sysFaccessat(-100, concStrArg(m, a[0], "path"))
	})
	reg("Mkdirat", func(m *Machine, fn *ssa.Function, a []Value) Value {
		return m.K.sysMkdirat(intArg(m, a[0], "dirfd"), concStrArg(m, a[1], "path"))
	})
	reg("Unlinkat", func(m *Machine, fn *ssa.Function, a []Value) Value {
		return m.K.sysUnlinkat(intArg(m, a[0], "dirfd"), concStrArg(m, a[1], "path"))
	})
	reg("Renameat", func(m *Machine, fn *ssa.Function, a []Value) Value {
		return m.K.sysRenameat(intArg(m, a[0], "dirfd"), concStrArg(m, a[1], "path"), intArg(m, a[2], "dirfd"), concStrArg(m, a[3], "path"))
	})
	reg("Linkat", func(m *Machine, fn *ssa.Function, a []Value) Value {
		return m.K.sysLinkat(intArg(m, a[0], "dirfd"), concStrArg(m, a[1], "path"), intArg(m, a[2], "dirfd"), concStrArg(m, a[3], "path"))
	})
	reg("ReadDirent", func(m *Machine, fn *ssa.Function, a []Value) Value {
		n, e := m.K.sysReadDirent(intArg(m, a[0], "fd"), a[1].(Slice))
		return Tuple{n, e}
	})
	reg("ParseDirent", func(m *Machine, fn *ssa.Function, a []Value) Value {
		return m.K.parseDirent(a[0].(Slice), intArg(m, a[1], "max"), a[2].(Slice))
	})

	// harness-side kernel controls
	hreg := func(name string, f Intrinsic) { defaultIntrinsics["verif:"+name] = f }
	hreg("verifPath", func(m *Machine, fn *ssa.Function, a []Value) Value {
		return ConcStr("/"+concStrArg(m, a[0], "path"), m.S)
	})
	hreg("verifKernelPlantFile", func(m *Machine, fn *ssa.Function, a []Value) Value {
		m.K.PlantFile(concStrArg(m, a[0], "path"), m.SliceBytes(a[1].(Slice)), a[2].(*Term))
		return nil
	})
	hreg("verifKernelMkdir", func(m *Machine, fn *ssa.Function, a []Value) Value {
		m.K.PlantDir(concStrArg(m, a[0], "path"))
		return nil
	})
	hreg("verifKernelFile", func(m *Machine, fn *ssa.Function, a []Value) Value {
		b, ok := m.K.FileBytes(concStrArg(m, a[0], "path"))
		if !ok {
			return Tuple{Slice{}, m.S.False}
		}
		return Tuple{m.BytesToSlice(b), m.S.True}
	})
	hreg("verifKernelFileSize", func(m *Machine, fn *ssa.Function, a []Value) Value {
		_, _, ent, en := m.K.resolve(m.K.root, concStrArg(m, a[0], "path"))
		if en != 0 || ent == nil || ent.ino.dir {
			return Tuple{m.S.Const(64, 0), m.S.False}
		}
		return Tuple{ent.ino.vol.Size, m.S.True}
	})
	hreg("verifKernelList", func(m *Machine, fn *ssa.Function, a []Value) Value {
		names, _ := m.K.ListDir(concStrArg(m, a[0], "path"))
		return ConcStr(strings.Join(names, ","), m.S)
	})
	hreg("verifKernelFaults", func(m *Machine, fn *ssa.Function, a []Value) Value {
		m.K.FaultsOn = a[0].(*Term).IsTrue()
		return nil
	})
	hreg("verifKernelFailAlways", func(m *Machine, fn *ssa.Function, a []Value) Value {
		if m.K.FailAlways == nil {
			m.K.FailAlways = map[string]int{}
		}
		name := concStrArg(m, a[0], "syscall")
		if name == "" {
			m.K.FailAlways = nil
			return nil
		}
		m.K.FailAlways[name] = intArg(m, a[1], "errno")
		return nil
	})
	hreg("verifKernelFaulted", func(m *Machine, fn *ssa.Function, a []Value) Value {
		return ConcStr(m.K.Faulted, m.S)
	})
	hreg("verifKernelCrashAt", func(m *Machine, fn *ssa.Function, a []Value) Value {
		m.K.CrashAt = m.K.nsys + intArg(m, a[0], "crash point")
		return nil
	})
	hreg("verifKernelSyscalls", func(m *Machine, fn *ssa.Function, a []Value) Value {
		return m.S.Const(64, uint64(m.K.nsys))
	})
	hreg("verifCrashed", func(m *Machine, fn *ssa.Function, a []Value) Value {
		crashed := false
		func() {
			depth := m.depth
			defer func() {
				if r := recover(); r != nil {
					if _, ok := r.(*kernelCrash); ok {
						crashed = true
						m.depth = depth
						// the crashed process is gone: the locks it held do not survive into the code
						// that runs "after the reboot" in the same harness
						if m.Mon != nil {
							for _, l := range m.Mon.locks {
								l.writer, l.readers = 0, 0
							}
						}
						return
					}
					panic(r)
				}
			}()
			m.CallClosure(a[0].(*Closure), nil)
		}()
		if !crashed {
			m.K.CrashAt = 0
		}
		return m.S.Bool(crashed)
	})
	hreg("verifKernelReboot", func(m *Machine, fn *ssa.Function, a []Value) Value { m.K.Reboot(); return nil })
	hreg("verifKernelShortWrite", func(m *Machine, fn *ssa.Function, a []Value) Value {
		m.K.ShortWrite = a[0].(*Term).IsTrue()
		return nil
	})
	hreg("verifKernelShortDir", func(m *Machine, fn *ssa.Function, a []Value) Value {
		m.K.ShortDir = a[0].(*Term).IsTrue()
		return nil
	})
	hreg("verifKernelTrace", func(m *Machine, fn *ssa.Function, a []Value) Value {
		return ConcStr(strings.Join(m.K.Trace, "; "), m.S)
	})
	hreg("verifKernelTraceReset", func(m *Machine, fn *ssa.Function, a []Value) Value {
		m.K.Trace = nil
		m.K.touched = nil
		return nil
	})
	// verifKernelEffectful: system calls in the trace that can change or observe file-system state
	// relevant to other operations — everything except close, fstat and read-only opens of
	// directories (helpers of a path lookup, invisible to concurrent operations of the API)
	hreg("verifKernelEffectful", func(m *Machine, fn *ssa.Function, a []Value) Value {
		n := 0
		for _, t := range m.K.Trace {
			switch {
			case strings.HasPrefix(t, "close("), strings.HasPrefix(t, "fstat("):
			case (strings.HasPrefix(t, "openat(") || strings.HasPrefix(t, "open(")) && traceOpenIsDirLookup(t):
			default:
				n++
			}
		}
		return m.S.Const(64, uint64(n))
	})
	hreg("verifKernelCount", func(m *Machine, fn *ssa.Function, a []Value) Value {
		name := concStrArg(m, a[0], "syscall name")
		n := 0
		for _, t := range m.K.Trace {
			if strings.HasPrefix(t, name+"(") {
				n++
			}
		}
		return m.S.Const(64, uint64(n))
	})
	hreg("verifKernelTouched", func(m *Machine, fn *ssa.Function, a []Value) Value {
		return ConcStr(strings.Join(m.K.touched, ","), m.S)
	})
	hreg("verifKernelOpenFds", func(m *Machine, fn *ssa.Function, a []Value) Value {
		return m.S.Const(64, uint64(len(m.K.fds)))
	})
	hreg("verifKernelPreempt", func(m *Machine, fn *ssa.Function, a []Value) Value {
		m.Sched.PreemptSyscalls = a[0].(*Term).IsTrue()
		return nil
	})
}

// traceOpenIsDirLookup: the trace entry is an open with O_DIRECTORY and without O_CREAT / write access.
func traceOpenIsDirLookup(t string) bool {
	i := strings.LastIndex(t, ",0x")
	if i < 0 {
		return false
	}
	j := i + 3
	k := j
	for k < len(t) && (t[k] >= '0' && t[k] <= '9' || t[k] >= 'a' && t[k] <= 'f') {
		k++
	}
	var flags int
	fmt.Sscanf(t[j:k], "%x", &flags)
	return flags&oDIRECTORY != 0 && flags&(oCREAT|oWRONLY|oRDWR|oTRUNC) == 0
}
