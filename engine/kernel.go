package engine

// Kernel is the POSIX model (see kernel.go).
type Kernel struct{ m *Machine }

func newKernel(m *Machine) *Kernel { return &Kernel{m: m} }
