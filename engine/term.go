// Package engine is "gosym": a symbolic executor over go/ssa with an SMT back end.
package engine

import (
	"fmt"
	"math/bits"
	"strconv"
	"strings"
)

// Op is a term constructor.
type Op uint8

const (
	OpConst Op = iota // BV or Bool constant
	OpVar
	OpAdd
	OpSub
	OpMul
	OpUDiv
	OpURem
	OpSDiv
	OpSRem
	OpAnd
	OpOr
	OpXor
	OpNot // bitwise (BV) or logical (Bool)
	OpNeg
	OpShl
	OpLShr
	OpAShr
	OpConcat
	OpExtract
	OpZExt
	OpSExt
	OpIte
	OpEq
	OpULt
	OpULe
	OpSLt
	OpSLe
	OpBAnd // boolean and
	OpBOr
)

// Term is a hash-consed SMT term. W == 0 means sort Bool, otherwise (_ BitVec W).
type Term struct {
	Op     Op
	W      int
	Args   []*Term
	Val    uint64 // OpConst
	Name   string // OpVar
	Hi, Lo int    // OpExtract
	ID     int
}

// Store owns the hash-consing table. One Store per explored path.
type Store struct {
	tab   map[string]*Term
	next  int
	Vars  []*Term
	True  *Term
	False *Term
}

func NewStore() *Store {
	s := &Store{tab: map[string]*Term{}}
	s.True = s.mk(&Term{Op: OpConst, W: 0, Val: 1})
	s.False = s.mk(&Term{Op: OpConst, W: 0, Val: 0})
	return s
}

func (s *Store) mk(t *Term) *Term {
	var sb strings.Builder
	sb.WriteByte(byte(t.Op) + 'A')
	sb.WriteString(strconv.Itoa(t.W))
	switch t.Op {
	case OpConst:
		sb.WriteByte(':')
		sb.WriteString(strconv.FormatUint(t.Val, 16))
	case OpVar:
		sb.WriteByte(':')
		sb.WriteString(t.Name)
	case OpExtract:
		sb.WriteByte(':')
		sb.WriteString(strconv.Itoa(t.Hi))
		sb.WriteByte(',')
		sb.WriteString(strconv.Itoa(t.Lo))
	}
	for _, a := range t.Args {
		sb.WriteByte(' ')
		sb.WriteString(strconv.Itoa(a.ID))
	}
	k := sb.String()
	if o, ok := s.tab[k]; ok {
		return o
	}
	t.ID = s.next
	s.next++
	s.tab[k] = t
	if t.Op == OpVar {
		s.Vars = append(s.Vars, t)
	}
	return t
}

func mask(w int) uint64 {
	if w >= 64 {
		return ^uint64(0)
	}
	return (uint64(1) << uint(w)) - 1
}

func (t *Term) IsConst() bool { return t.Op == OpConst }
func (t *Term) IsBool() bool  { return t.W == 0 }
func (t *Term) IsTrue() bool  { return t.Op == OpConst && t.W == 0 && t.Val == 1 }
func (t *Term) IsFalse() bool { return t.Op == OpConst && t.W == 0 && t.Val == 0 }

// Const builds a bit-vector constant of width w.
func (s *Store) Const(w int, v uint64) *Term {
	if w == 0 {
		panic("Const with width 0")
	}
	return s.mk(&Term{Op: OpConst, W: w, Val: v & mask(w)})
}

func (s *Store) Bool(b bool) *Term {
	if b {
		return s.True
	}
	return s.False
}

// Var builds (or finds) a variable. Names must be valid SMT simple symbols.
func (s *Store) Var(name string, w int) *Term {
	return s.mk(&Term{Op: OpVar, W: w, Name: name})
}

func signExt(v uint64, w int) int64 {
	if w >= 64 {
		return int64(v)
	}
	sh := uint(64 - w)
	return int64(v<<sh) >> sh
}

func (s *Store) bin(op Op, a, b *Term) *Term {
	if a.W != b.W {
		panic(fmt.Sprintf("width mismatch %d vs %d in op %d", a.W, b.W, op))
	}
	w := a.W
	if a.IsConst() && b.IsConst() {
		x, y := a.Val, b.Val
		switch op {
		case OpAdd:
			return s.Const(w, x+y)
		case OpSub:
			return s.Const(w, x-y)
		case OpMul:
			return s.Const(w, x*y)
		case OpUDiv:
			if y == 0 {
				return s.Const(w, mask(w))
			}
			return s.Const(w, x/y)
		case OpURem:
			if y == 0 {
				return a
			}
			return s.Const(w, x%y)
		case OpSDiv:
			if y != 0 {
				sx, sy := signExt(x, w), signExt(y, w)
				if !(sy == -1 && sx == signExt(uint64(1)<<uint(w-1), w)) {
					return s.Const(w, uint64(sx/sy))
				}
				return a
			}
		case OpSRem:
			if y != 0 {
				sx, sy := signExt(x, w), signExt(y, w)
				if sy == -1 {
					return s.Const(w, 0)
				}
				return s.Const(w, uint64(sx%sy))
			}
		case OpAnd:
			return s.Const(w, x&y)
		case OpOr:
			return s.Const(w, x|y)
		case OpXor:
			return s.Const(w, x^y)
		case OpShl:
			if y >= uint64(w) {
				return s.Const(w, 0)
			}
			return s.Const(w, x<<y)
		case OpLShr:
			if y >= uint64(w) {
				return s.Const(w, 0)
			}
			return s.Const(w, x>>y)
		case OpAShr:
			sx := signExt(x, w)
			if y >= uint64(w) {
				y = uint64(w - 1)
			}
			return s.Const(w, uint64(sx>>y))
		}
	}
	// algebraic identities
	switch op {
	case OpAdd:
		if a.IsConst() && a.Val == 0 {
			return b
		}
		if b.IsConst() && b.Val == 0 {
			return a
		}
		if a.IsConst() { // canonical: const on the right
			a, b = b, a
		}
		// (x + c1) + c2
		if b.IsConst() && a.Op == OpAdd && a.Args[1].IsConst() {
			return s.bin(OpAdd, a.Args[0], s.Const(w, a.Args[1].Val+b.Val))
		}
	case OpSub:
		if b.IsConst() && b.Val == 0 {
			return a
		}
		if a == b {
			return s.Const(w, 0)
		}
		if b.IsConst() {
			return s.bin(OpAdd, a, s.Const(w, -b.Val))
		}
	case OpMul:
		if a.IsConst() {
			a, b = b, a
		}
		if b.IsConst() {
			if b.Val == 0 {
				return b
			}
			if b.Val == 1 {
				return a
			}
			if bits.OnesCount64(b.Val) == 1 {
				return s.bin(OpShl, a, s.Const(w, uint64(bits.TrailingZeros64(b.Val))))
			}
		}
	case OpUDiv:
		if b.IsConst() && b.Val == 1 {
			return a
		}
		if b.IsConst() && bits.OnesCount64(b.Val) == 1 {
			return s.bin(OpLShr, a, s.Const(w, uint64(bits.TrailingZeros64(b.Val))))
		}
	case OpURem:
		if b.IsConst() && b.Val == 1 {
			return s.Const(w, 0)
		}
		if b.IsConst() && bits.OnesCount64(b.Val) == 1 {
			return s.bin(OpAnd, a, s.Const(w, b.Val-1))
		}
	case OpAnd:
		if a == b {
			return a
		}
		if a.IsConst() {
			a, b = b, a
		}
		if b.IsConst() {
			if b.Val == 0 {
				return b
			}
			if b.Val == mask(w) {
				return a
			}
			// and with low mask 2^k-1 == zext(extract)
			if k := bits.TrailingZeros64(^b.Val); k > 0 && k < w && b.Val == mask(k) {
				return s.ZExt(s.Extract(a, k-1, 0), w)
			}
		}
	case OpOr:
		if a == b {
			return a
		}
		if a.IsConst() {
			a, b = b, a
		}
		if b.IsConst() {
			if b.Val == 0 {
				return a
			}
			if b.Val == mask(w) {
				return b
			}
		}
		if r := s.orAsConcat(a, b); r != nil {
			return r
		}
	case OpXor:
		if a == b {
			return s.Const(w, 0)
		}
		if a.IsConst() {
			a, b = b, a
		}
		if b.IsConst() && b.Val == 0 {
			return a
		}
		if b.IsConst() && b.Val == mask(w) {
			return s.Not(a)
		}
	case OpShl:
		if b.IsConst() {
			if b.Val == 0 {
				return a
			}
			if b.Val >= uint64(w) {
				return s.Const(w, 0)
			}
			k := int(b.Val)
			// x << k == concat(extract(x, w-k-1, 0), 0_k)
			return s.Concat(s.Extract(a, w-k-1, 0), s.Const(k, 0))
		}
	case OpLShr:
		if b.IsConst() {
			if b.Val == 0 {
				return a
			}
			if b.Val >= uint64(w) {
				return s.Const(w, 0)
			}
			k := int(b.Val)
			return s.ZExt(s.Extract(a, w-1, k), w)
		}
	case OpAShr:
		if b.IsConst() && b.Val == 0 {
			return a
		}
	}
	return s.mk(&Term{Op: op, W: w, Args: []*Term{a, b}})
}

// lowZeros returns k such that the low k bits of t are known zero, and highZeros
// the number of known-zero high bits; used to turn or-of-disjoint into concat.
func (s *Store) knownZero(t *Term) (low, high int) {
	switch t.Op {
	case OpConst:
		if t.Val == 0 {
			return t.W, t.W
		}
		return bits.TrailingZeros64(t.Val), t.W - bits.Len64(t.Val)
	case OpConcat:
		hi, lo := t.Args[0], t.Args[1]
		ll, lh := s.knownZero(lo)
		hl, hh := s.knownZero(hi)
		low = ll
		if ll == lo.W {
			low = lo.W + hl
		}
		high = hh
		if hh == hi.W {
			high = hi.W + lh
		}
		return
	case OpZExt:
		l, h := s.knownZero(t.Args[0])
		return l, h + (t.W - t.Args[0].W)
	}
	return 0, 0
}

// orAsConcat rewrites a|b when the non-zero bit ranges of a and b are disjoint:
// the result is rebuilt from slices, which lets byte (de)composition fold.
func (s *Store) orAsConcat(a, b *Term) *Term {
	w := a.W
	al, ah := s.knownZero(a)
	bl, bh := s.knownZero(b)
	if al == w {
		return b
	}
	if bl == w {
		return a
	}
	// a occupies [al, w-ah), b occupies [bl, w-bh)
	if w-ah <= bl { // a entirely below b
		a, b = b, a
		al, ah, bl, bh = bl, bh, al, ah
	}
	if w-bh <= al { // b entirely below a
		// result = [zeros ah][a bits w-ah-1..al][zeros al-(w-bh)][b bits w-bh-1..bl][zeros bl]
		parts := []*Term{}
		if ah > 0 {
			parts = append(parts, s.Const(ah, 0))
		}
		parts = append(parts, s.Extract(a, w-ah-1, al))
		if gap := al - (w - bh); gap > 0 {
			parts = append(parts, s.Const(gap, 0))
		}
		parts = append(parts, s.Extract(b, w-bh-1, bl))
		if bl > 0 {
			parts = append(parts, s.Const(bl, 0))
		}
		r := parts[0]
		for _, p := range parts[1:] {
			r = s.Concat(r, p)
		}
		return r
	}
	return nil
}

func (s *Store) Add(a, b *Term) *Term  { return s.bin(OpAdd, a, b) }
func (s *Store) Sub(a, b *Term) *Term  { return s.bin(OpSub, a, b) }
func (s *Store) Mul(a, b *Term) *Term  { return s.bin(OpMul, a, b) }
func (s *Store) UDiv(a, b *Term) *Term { return s.bin(OpUDiv, a, b) }
func (s *Store) URem(a, b *Term) *Term { return s.bin(OpURem, a, b) }
func (s *Store) SDiv(a, b *Term) *Term { return s.bin(OpSDiv, a, b) }
func (s *Store) SRem(a, b *Term) *Term { return s.bin(OpSRem, a, b) }
func (s *Store) And(a, b *Term) *Term  { return s.bin(OpAnd, a, b) }
func (s *Store) Or(a, b *Term) *Term   { return s.bin(OpOr, a, b) }
func (s *Store) Xor(a, b *Term) *Term  { return s.bin(OpXor, a, b) }
func (s *Store) Shl(a, b *Term) *Term  { return s.bin(OpShl, a, b) }
func (s *Store) LShr(a, b *Term) *Term { return s.bin(OpLShr, a, b) }
func (s *Store) AShr(a, b *Term) *Term { return s.bin(OpAShr, a, b) }

// Not is bitwise complement on BV and logical negation on Bool.
func (s *Store) Not(a *Term) *Term {
	if a.IsConst() {
		if a.W == 0 {
			return s.Bool(a.Val == 0)
		}
		return s.Const(a.W, ^a.Val)
	}
	if a.Op == OpNot {
		return a.Args[0]
	}
	return s.mk(&Term{Op: OpNot, W: a.W, Args: []*Term{a}})
}

func (s *Store) Neg(a *Term) *Term {
	if a.IsConst() {
		return s.Const(a.W, -a.Val)
	}
	return s.mk(&Term{Op: OpNeg, W: a.W, Args: []*Term{a}})
}

// Concat: hi is the most significant part.
func (s *Store) Concat(hi, lo *Term) *Term {
	w := hi.W + lo.W
	if hi.IsConst() && lo.IsConst() && w <= 64 {
		return s.Const(w, hi.Val<<uint(lo.W)|lo.Val)
	}
	// concat(extract(x,a,b), extract(x,b-1,c)) = extract(x,a,c)
	if hi.Op == OpExtract && lo.Op == OpExtract && hi.Args[0] == lo.Args[0] && hi.Lo == lo.Hi+1 {
		return s.Extract(hi.Args[0], hi.Hi, lo.Lo)
	}
	// concat(hi, concat(extract.., rest)) — re-associate to expose merges
	if lo.Op == OpConcat && hi.Op == OpExtract && lo.Args[0].Op == OpExtract &&
		hi.Args[0] == lo.Args[0].Args[0] && hi.Lo == lo.Args[0].Hi+1 {
		return s.Concat(s.Extract(hi.Args[0], hi.Hi, lo.Args[0].Lo), lo.Args[1])
	}
	if hi.Op == OpConcat && lo.Op == OpExtract && hi.Args[1].Op == OpExtract &&
		hi.Args[1].Args[0] == lo.Args[0] && hi.Args[1].Lo == lo.Hi+1 {
		return s.Concat(hi.Args[0], s.Extract(lo.Args[0], hi.Args[1].Hi, lo.Lo))
	}
	if hi.IsConst() && hi.Val == 0 {
		return s.ZExt(lo, w)
	}
	if w > 64 {
		panic("Concat wider than 64 bits")
	}
	return s.mk(&Term{Op: OpConcat, W: w, Args: []*Term{hi, lo}})
}

func (s *Store) Extract(a *Term, hi, lo int) *Term {
	if hi < lo || hi >= a.W || lo < 0 {
		panic(fmt.Sprintf("bad extract [%d:%d] of width %d", hi, lo, a.W))
	}
	w := hi - lo + 1
	if w == a.W {
		return a
	}
	switch a.Op {
	case OpConst:
		return s.Const(w, a.Val>>uint(lo))
	case OpExtract:
		return s.Extract(a.Args[0], a.Lo+hi, a.Lo+lo)
	case OpConcat:
		h, l := a.Args[0], a.Args[1]
		if hi < l.W {
			return s.Extract(l, hi, lo)
		}
		if lo >= l.W {
			return s.Extract(h, hi-l.W, lo-l.W)
		}
		return s.Concat(s.Extract(h, hi-l.W, 0), s.Extract(l, l.W-1, lo))
	case OpZExt:
		in := a.Args[0]
		if hi < in.W {
			return s.Extract(in, hi, lo)
		}
		if lo >= in.W {
			return s.Const(w, 0)
		}
		return s.ZExt(s.Extract(in, in.W-1, lo), w)
	case OpSExt:
		in := a.Args[0]
		if hi < in.W {
			return s.Extract(in, hi, lo)
		}
	case OpIte:
		if a.Args[1].IsConst() && a.Args[2].IsConst() {
			return s.Ite(a.Args[0], s.Extract(a.Args[1], hi, lo), s.Extract(a.Args[2], hi, lo))
		}
	case OpAnd, OpOr, OpXor:
		if lo == 0 || a.Args[1].IsConst() {
			return s.bin(a.Op, s.Extract(a.Args[0], hi, lo), s.Extract(a.Args[1], hi, lo))
		}
	case OpAdd, OpSub, OpMul:
		if lo == 0 { // low bits of modular arithmetic depend only on low bits
			return s.bin(a.Op, s.Extract(a.Args[0], hi, 0), s.Extract(a.Args[1], hi, 0))
		}
	}
	return s.mk(&Term{Op: OpExtract, W: w, Args: []*Term{a}, Hi: hi, Lo: lo})
}

func (s *Store) ZExt(a *Term, w int) *Term {
	if w == a.W {
		return a
	}
	if w < a.W {
		return s.Extract(a, w-1, 0)
	}
	if a.IsConst() {
		return s.Const(w, a.Val)
	}
	if a.Op == OpZExt {
		return s.ZExt(a.Args[0], w)
	}
	return s.mk(&Term{Op: OpZExt, W: w, Args: []*Term{a}})
}

func (s *Store) SExt(a *Term, w int) *Term {
	if w == a.W {
		return a
	}
	if w < a.W {
		return s.Extract(a, w-1, 0)
	}
	if a.IsConst() {
		return s.Const(w, uint64(signExt(a.Val, a.W)))
	}
	if a.Op == OpZExt { // sign bit known zero
		return s.ZExt(a.Args[0], w)
	}
	return s.mk(&Term{Op: OpSExt, W: w, Args: []*Term{a}})
}

func (s *Store) Ite(c, a, b *Term) *Term {
	if c.IsTrue() {
		return a
	}
	if c.IsFalse() {
		return b
	}
	if a == b {
		return a
	}
	if a.W == 0 {
		if a.IsTrue() && b.IsFalse() {
			return c
		}
		if a.IsFalse() && b.IsTrue() {
			return s.Not(c)
		}
	}
	if c.Op == OpNot {
		return s.Ite(c.Args[0], b, a)
	}
	// ite(c, ite(c, x, y), z) = ite(c, x, z)
	if a.Op == OpIte && a.Args[0] == c {
		a = a.Args[1]
	}
	if b.Op == OpIte && b.Args[0] == c {
		b = b.Args[2]
	}
	return s.mk(&Term{Op: OpIte, W: a.W, Args: []*Term{c, a, b}})
}

func (s *Store) Eq(a, b *Term) *Term {
	if a.W != b.W {
		panic(fmt.Sprintf("Eq width mismatch %d vs %d", a.W, b.W))
	}
	if a == b {
		return s.True
	}
	if a.IsConst() && b.IsConst() {
		return s.Bool(a.Val == b.Val)
	}
	if a.W == 0 {
		if a.IsTrue() {
			return b
		}
		if b.IsTrue() {
			return a
		}
		if a.IsFalse() {
			return s.Not(b)
		}
		if b.IsFalse() {
			return s.Not(a)
		}
	}
	if a.IsConst() {
		a, b = b, a
	}
	if b.IsConst() {
		// zext(x) == c
		if a.Op == OpZExt {
			in := a.Args[0]
			if b.Val > mask(in.W) {
				return s.False
			}
			return s.Eq(in, s.Const(in.W, b.Val))
		}
		if a.Op == OpIte && a.Args[1].IsConst() && a.Args[2].IsConst() {
			return s.Ite(a.Args[0], s.Bool(a.Args[1].Val == b.Val), s.Bool(a.Args[2].Val == b.Val))
		}
		if a.Op == OpConcat {
			lo := a.Args[1]
			return s.BAnd(s.Eq(a.Args[0], s.Const(a.Args[0].W, b.Val>>uint(lo.W))), s.Eq(lo, s.Const(lo.W, b.Val)))
		}
	}
	if a.ID > b.ID && !b.IsConst() {
		a, b = b, a
	}
	return s.mk(&Term{Op: OpEq, W: 0, Args: []*Term{a, b}})
}

func (s *Store) cmp(op Op, a, b *Term) *Term {
	if a.W != b.W {
		panic("cmp width mismatch")
	}
	if a.IsConst() && b.IsConst() {
		switch op {
		case OpULt:
			return s.Bool(a.Val < b.Val)
		case OpULe:
			return s.Bool(a.Val <= b.Val)
		case OpSLt:
			return s.Bool(signExt(a.Val, a.W) < signExt(b.Val, a.W))
		case OpSLe:
			return s.Bool(signExt(a.Val, a.W) <= signExt(b.Val, a.W))
		}
	}
	if a == b {
		return s.Bool(op == OpULe || op == OpSLe)
	}
	switch op {
	case OpULt:
		if b.IsConst() && b.Val == 0 {
			return s.False
		}
		if a.IsConst() && a.Val == mask(a.W) {
			return s.False
		}
	case OpULe:
		if a.IsConst() && a.Val == 0 {
			return s.True
		}
		if b.IsConst() && b.Val == mask(a.W) {
			return s.True
		}
	}
	// zext(x) < c where c exceeds the range
	if (op == OpULt || op == OpULe) && a.Op == OpZExt && b.IsConst() && b.Val > mask(a.Args[0].W) {
		return s.True
	}
	return s.mk(&Term{Op: op, W: 0, Args: []*Term{a, b}})
}

func (s *Store) ULt(a, b *Term) *Term { return s.cmp(OpULt, a, b) }
func (s *Store) ULe(a, b *Term) *Term { return s.cmp(OpULe, a, b) }
func (s *Store) SLt(a, b *Term) *Term { return s.cmp(OpSLt, a, b) }
func (s *Store) SLe(a, b *Term) *Term { return s.cmp(OpSLe, a, b) }

func (s *Store) BAnd(a, b *Term) *Term {
	if a.IsFalse() || b.IsFalse() {
		return s.False
	}
	if a.IsTrue() {
		return b
	}
	if b.IsTrue() {
		return a
	}
	if a == b {
		return a
	}
	if (a.Op == OpNot && a.Args[0] == b) || (b.Op == OpNot && b.Args[0] == a) {
		return s.False
	}
	return s.mk(&Term{Op: OpBAnd, W: 0, Args: []*Term{a, b}})
}

func (s *Store) BOr(a, b *Term) *Term {
	if a.IsTrue() || b.IsTrue() {
		return s.True
	}
	if a.IsFalse() {
		return b
	}
	if b.IsFalse() {
		return a
	}
	if a == b {
		return a
	}
	if (a.Op == OpNot && a.Args[0] == b) || (b.Op == OpNot && b.Args[0] == a) {
		return s.True
	}
	return s.mk(&Term{Op: OpBOr, W: 0, Args: []*Term{a, b}})
}

func (s *Store) Implies(a, b *Term) *Term { return s.BOr(s.Not(a), b) }

// BAndAll builds a balanced conjunction.
func (s *Store) BAndAll(ts []*Term) *Term {
	if len(ts) == 0 {
		return s.True
	}
	for len(ts) > 1 {
		var n []*Term
		for i := 0; i+1 < len(ts); i += 2 {
			n = append(n, s.BAnd(ts[i], ts[i+1]))
		}
		if len(ts)%2 == 1 {
			n = append(n, ts[len(ts)-1])
		}
		ts = n
	}
	return ts[0]
}

// ---------------------------------------------------------------------------
// SMT-LIB printing

func sortStr(w int) string {
	if w == 0 {
		return "Bool"
	}
	return "(_ BitVec " + strconv.Itoa(w) + ")"
}

func constStr(t *Term) string {
	if t.W == 0 {
		if t.Val == 1 {
			return "true"
		}
		return "false"
	}
	if t.W%4 == 0 {
		return fmt.Sprintf("#x%0*x", t.W/4, t.Val)
	}
	return fmt.Sprintf("#b%0*b", t.W, t.Val)
}

func (t *Term) ref() string {
	switch t.Op {
	case OpConst:
		return constStr(t)
	case OpVar:
		return t.Name
	}
	return "t" + strconv.Itoa(t.ID)
}

var opNames = map[Op]string{
	OpAdd: "bvadd", OpSub: "bvsub", OpMul: "bvmul", OpUDiv: "bvudiv", OpURem: "bvurem",
	OpSDiv: "bvsdiv", OpSRem: "bvsrem", OpAnd: "bvand", OpOr: "bvor", OpXor: "bvxor",
	OpNeg: "bvneg", OpShl: "bvshl", OpLShr: "bvlshr", OpAShr: "bvashr", OpConcat: "concat",
	OpIte: "ite", OpEq: "=", OpULt: "bvult", OpULe: "bvule", OpSLt: "bvslt", OpSLe: "bvsle",
	OpBAnd: "and", OpBOr: "or",
}

func (t *Term) body() string {
	var sb strings.Builder
	switch t.Op {
	case OpNot:
		if t.W == 0 {
			sb.WriteString("(not ")
		} else {
			sb.WriteString("(bvnot ")
		}
		sb.WriteString(t.Args[0].ref())
		sb.WriteByte(')')
		return sb.String()
	case OpExtract:
		return fmt.Sprintf("((_ extract %d %d) %s)", t.Hi, t.Lo, t.Args[0].ref())
	case OpZExt:
		return fmt.Sprintf("((_ zero_extend %d) %s)", t.W-t.Args[0].W, t.Args[0].ref())
	case OpSExt:
		return fmt.Sprintf("((_ sign_extend %d) %s)", t.W-t.Args[0].W, t.Args[0].ref())
	}
	sb.WriteByte('(')
	sb.WriteString(opNames[t.Op])
	for _, a := range t.Args {
		sb.WriteByte(' ')
		sb.WriteString(a.ref())
	}
	sb.WriteByte(')')
	return sb.String()
}

// Eval evaluates t under a model (variables by name; missing ⇒ 0).
func Eval(t *Term, model map[string]uint64, memo map[*Term]uint64) uint64 {
	if v, ok := memo[t]; ok {
		return v
	}
	var r uint64
	arg := func(i int) uint64 { return Eval(t.Args[i], model, memo) }
	b2u := func(b bool) uint64 {
		if b {
			return 1
		}
		return 0
	}
	switch t.Op {
	case OpConst:
		r = t.Val
	case OpVar:
		r = model[t.Name] & mask1(t.W)
	case OpAdd:
		r = arg(0) + arg(1)
	case OpSub:
		r = arg(0) - arg(1)
	case OpMul:
		r = arg(0) * arg(1)
	case OpUDiv:
		if y := arg(1); y == 0 {
			r = ^uint64(0)
		} else {
			r = arg(0) / y
		}
	case OpURem:
		if y := arg(1); y == 0 {
			r = arg(0)
		} else {
			r = arg(0) % y
		}
	case OpSDiv:
		x, y := signExt(arg(0), t.W), signExt(arg(1), t.W)
		if y == 0 {
			if x < 0 {
				r = 1
			} else {
				r = ^uint64(0)
			}
		} else if y == -1 {
			r = uint64(-x)
		} else {
			r = uint64(x / y)
		}
	case OpSRem:
		x, y := signExt(arg(0), t.W), signExt(arg(1), t.W)
		if y == 0 {
			r = uint64(x)
		} else if y == -1 {
			r = 0
		} else {
			r = uint64(x % y)
		}
	case OpAnd:
		r = arg(0) & arg(1)
	case OpOr:
		r = arg(0) | arg(1)
	case OpXor:
		r = arg(0) ^ arg(1)
	case OpNot:
		if t.W == 0 {
			r = 1 - arg(0)
		} else {
			r = ^arg(0)
		}
	case OpNeg:
		r = -arg(0)
	case OpShl:
		if y := arg(1); y >= uint64(t.W) {
			r = 0
		} else {
			r = arg(0) << y
		}
	case OpLShr:
		if y := arg(1); y >= uint64(t.W) {
			r = 0
		} else {
			r = arg(0) >> y
		}
	case OpAShr:
		y := arg(1)
		if y >= uint64(t.W) {
			y = uint64(t.W - 1)
		}
		r = uint64(signExt(arg(0), t.W) >> y)
	case OpConcat:
		r = arg(0)<<uint(t.Args[1].W) | arg(1)
	case OpExtract:
		r = arg(0) >> uint(t.Lo)
	case OpZExt:
		r = arg(0)
	case OpSExt:
		r = uint64(signExt(arg(0), t.Args[0].W))
	case OpIte:
		if arg(0) == 1 {
			r = arg(1)
		} else {
			r = arg(2)
		}
	case OpEq:
		r = b2u(arg(0) == arg(1))
	case OpULt:
		r = b2u(arg(0) < arg(1))
	case OpULe:
		r = b2u(arg(0) <= arg(1))
	case OpSLt:
		r = b2u(signExt(arg(0), t.Args[0].W) < signExt(arg(1), t.Args[0].W))
	case OpSLe:
		r = b2u(signExt(arg(0), t.Args[0].W) <= signExt(arg(1), t.Args[0].W))
	case OpBAnd:
		r = arg(0) & arg(1)
	case OpBOr:
		r = arg(0) | arg(1)
	}
	r &= mask1(t.W)
	memo[t] = r
	return r
}

func mask1(w int) uint64 {
	if w == 0 {
		return 1
	}
	return mask(w)
}

// String renders a term for diagnostics (bounded depth).
func (t *Term) String() string { return t.str(4) }

func (t *Term) str(d int) string {
	switch t.Op {
	case OpConst:
		if t.W == 0 {
			return constStr(t)
		}
		return strconv.FormatUint(t.Val, 10)
	case OpVar:
		return t.Name
	}
	if d == 0 {
		return "…"
	}
	var parts []string
	for _, a := range t.Args {
		parts = append(parts, a.str(d-1))
	}
	name := opNames[t.Op]
	switch t.Op {
	case OpNot:
		name = "not"
	case OpExtract:
		name = fmt.Sprintf("extract[%d:%d]", t.Hi, t.Lo)
	case OpZExt:
		name = fmt.Sprintf("zext%d", t.W)
	case OpSExt:
		name = fmt.Sprintf("sext%d", t.W)
	}
	return "(" + name + " " + strings.Join(parts, " ") + ")"
}

// SMT renders t as a closed SMT-LIB expression (variables by name); used to combine
// results of different paths (each path has its own term store) in one query.
func SMT(t *Term, memo map[*Term]string) string {
	if r, ok := memo[t]; ok {
		return r
	}
	var r string
	switch t.Op {
	case OpConst:
		r = constStr(t)
	case OpVar:
		r = t.Name
	case OpNot:
		if t.W == 0 {
			r = "(not " + SMT(t.Args[0], memo) + ")"
		} else {
			r = "(bvnot " + SMT(t.Args[0], memo) + ")"
		}
	case OpExtract:
		r = fmt.Sprintf("((_ extract %d %d) %s)", t.Hi, t.Lo, SMT(t.Args[0], memo))
	case OpZExt:
		r = fmt.Sprintf("((_ zero_extend %d) %s)", t.W-t.Args[0].W, SMT(t.Args[0], memo))
	case OpSExt:
		r = fmt.Sprintf("((_ sign_extend %d) %s)", t.W-t.Args[0].W, SMT(t.Args[0], memo))
	default:
		var sb strings.Builder
		sb.WriteByte('(')
		sb.WriteString(opNames[t.Op])
		for _, a := range t.Args {
			sb.WriteByte(' ')
			sb.WriteString(SMT(a, memo))
		}
		sb.WriteByte(')')
		r = sb.String()
	}
	memo[t] = r
	return r
}

// VarDecls lists (declare-const …) lines for the variables occurring in the given terms.
func VarDecls(ts ...*Term) map[string]string {
	out := map[string]string{}
	seen := map[*Term]bool{}
	var walk func(t *Term)
	walk = func(t *Term) {
		if seen[t] {
			return
		}
		seen[t] = true
		if t.Op == OpVar {
			out[t.Name] = "(declare-const " + t.Name + " " + sortStr(t.W) + ")"
		}
		for _, a := range t.Args {
			walk(a)
		}
	}
	for _, t := range ts {
		walk(t)
	}
	return out
}
