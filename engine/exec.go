package engine

import (
	"fmt"
	"go/constant"
	"go/token"
	"go/types"
	"strings"

	"golang.org/x/tools/go/ssa"
)

// CallFunction runs fn with args (and closure environment env).
func (m *Machine) CallFunction(fn *ssa.Function, args []Value, env []Value) Value {
	if repl, ok := m.P.Overrides[fn.String()]; ok && !m.Opt.NoOverrides {
		r := m.P.funcByName[repl]
		if r == nil {
			m.unsupported("override target not found: " + repl)
		}
		m.Res.IntrinsUsed["override:"+fn.String()+"->"+repl] = true
		fn = r
	}
	if fn.Synthetic == "package initializer" && fn.Pkg != nil {
		path := fn.Pkg.Pkg.Path()
		if m.inited[fn.Pkg] && m.depth > 0 {
			return nil
		}
		m.inited[fn.Pkg] = true
		if !strings.HasPrefix(path, m.P.RepoPrefix) && !m.P.InitAllow[path] {
			return nil
		}
	}
	if in := m.P.lookupIntrinsic(fn); in != nil && !m.Opt.RealBodies[intrinsicKey(fn)] {
		m.Res.IntrinsUsed[intrinsicKey(fn)] = true
		return in(m, fn, args)
	}
	if fn.Blocks == nil {
		m.unsupported("no body: " + fn.String())
	}
	// a model object stands for an *os.File: running the real body of a method that has no
	// model would act on a zero os.File and return made-up errors — refuse instead
	if r := fn.Signature.Recv(); r != nil && fn.Pkg != nil && fn.Pkg.Pkg.Path() == "os" && strings.Contains(r.Type().String(), "os.File") {
		m.unsupported("os.File method without a model: " + fn.String())
	}
	m.Res.Funcs[fn.String()] = true
	m.callStack = append(m.callStack, fn)
	defer func() {
		if n := len(m.callStack); n > 0 {
			m.callStack = m.callStack[:n-1]
		}
	}()
	m.depth++
	if m.depth > 400 {
		m.end("unwind", "call depth exceeded in "+fn.String())
	}
	defer func() { m.depth-- }()
	fr := &frame{fn: fn, regs: make(map[ssa.Value]Value, 16), env: env}
	for i, p := range fn.Params {
		fr.regs[p] = args[i]
	}
	return m.run(fr)
}

func (m *Machine) run(fr *frame) (ret Value) {
	defer func() {
		r := recover()
		if r == nil {
			return
		}
		gp, ok := r.(*GoPanic)
		if !ok {
			panic(r)
		}
		fr.panicking = gp
		m.runDefers(fr)
		if fr.panicking != nil {
			panic(fr.panicking)
		}
		// recovered
		if fr.fn.Recover != nil {
			fr.prev = nil
			ret = m.execFrom(fr, fr.fn.Recover)
			return
		}
		ret = m.zeroResults(fr.fn)
	}()
	return m.execFrom(fr, fr.fn.Blocks[0])
}

func (m *Machine) zeroResults(fn *ssa.Function) Value {
	res := fn.Signature.Results()
	switch res.Len() {
	case 0:
		return nil
	case 1:
		return m.zero(res.At(0).Type())
	}
	return m.zero(res)
}

func (m *Machine) runDefers(fr *frame) {
	for len(fr.defers) > 0 {
		d := fr.defers[len(fr.defers)-1]
		fr.defers = fr.defers[:len(fr.defers)-1]
		m.panicFrs = append(m.panicFrs, fr)
		func() {
			defer func() {
				if n := len(m.panicFrs); n > 0 {
					m.panicFrs = m.panicFrs[:n-1]
				}
				if r := recover(); r != nil {
					if gp, ok := r.(*GoPanic); ok {
						// a panic in a deferred call replaces the current one
						fr.panicking = gp
						return
					}
					panic(r)
				}
			}()
			d.call()
		}()
	}
}

func (m *Machine) execFrom(fr *frame, b *ssa.BasicBlock) Value {
	for {
		fr.block = b
		var next *ssa.BasicBlock
		for _, ins := range b.Instrs {
			m.steps++
			if m.steps > m.Opt.Budget {
				m.end("unwind", fmt.Sprintf("instruction budget %d exhausted in %s", m.Opt.Budget, fr.fn))
			}
			switch i := ins.(type) {
			case *ssa.Jump:
				next = b.Succs[0]
			case *ssa.If:
				c := m.get(fr, i.Cond).(*Term)
				if m.Branch(c) {
					next = b.Succs[0]
				} else {
					next = b.Succs[1]
				}
			case *ssa.Return:
				switch len(i.Results) {
				case 0:
					return nil
				case 1:
					return copyVal(m.get(fr, i.Results[0]))
				default:
					t := make(Tuple, len(i.Results))
					for k, r := range i.Results {
						t[k] = copyVal(m.get(fr, r))
					}
					return t
				}
			case *ssa.Panic:
				v := m.get(fr, i.X)
				panic(&GoPanic{Val: v, Msg: m.panicMsg(v)})
			default:
				m.exec(fr, ins)
			}
		}
		if next == nil {
			panic("engine: block without terminator in " + fr.fn.String())
		}
		fr.prev = b
		b = next
	}
}

func (m *Machine) panicMsg(v Value) string {
	if f, ok := v.(Iface); ok {
		if s, ok := f.V.(Str); ok {
			return s.String()
		}
		if o, ok := f.V.(Opaque); ok && o.Kind == "error" {
			return o.V.(*ErrorV).Msg.String()
		}
		if f.T != nil {
			return "panic value of type " + f.T.String()
		}
	}
	return describe(v)
}

func (m *Machine) get(fr *frame, v ssa.Value) Value {
	switch x := v.(type) {
	case *ssa.Const:
		return m.constVal(x)
	case *ssa.Global:
		return Ptr{Obj: m.global(x)}
	case *ssa.Function:
		return &Closure{Fn: x}
	case *ssa.Builtin:
		return &Closure{Bltn: x}
	case *ssa.FreeVar:
		for i, fv := range fr.fn.FreeVars {
			if fv == x {
				return fr.env[i]
			}
		}
		panic("engine: free var not found")
	}
	r, ok := fr.regs[v]
	if !ok {
		panic(fmt.Sprintf("engine: register %s (%T) not set in %s", v.Name(), v, fr.fn))
	}
	return r
}

func (m *Machine) constVal(c *ssa.Const) Value {
	t := c.Type()
	if c.Value == nil {
		return m.zero(t)
	}
	switch u := t.Underlying().(type) {
	case *types.Basic:
		if w, _, ok := intWidth(u); ok {
			if i, exact := constant.Int64Val(constant.ToInt(c.Value)); exact {
				return m.S.Const(w, uint64(i))
			}
			ui, _ := constant.Uint64Val(constant.ToInt(c.Value))
			return m.S.Const(w, ui)
		}
		switch {
		case u.Info()&types.IsBoolean != 0:
			return m.S.Bool(constant.BoolVal(c.Value))
		case u.Info()&types.IsString != 0:
			return ConcStr(constant.StringVal(c.Value), m.S)
		case u.Info()&types.IsFloat != 0:
			f, _ := constant.Float64Val(c.Value)
			return Opaque{"float", f}
		}
	case *types.Interface:
		// untyped nil handled above; typed constants boxed in interfaces don't occur
	}
	m.unsupported("constant of type " + t.String())
	return nil
}

func (m *Machine) global(g *ssa.Global) *Object {
	if o, ok := m.globals[g]; ok {
		return o
	}
	elem := g.Type().(*types.Pointer).Elem()
	o := m.newObject(elem, m.zero(elem), g.String())
	m.globals[g] = o
	m.initOSGlobal(g, o)
	if g.Pkg != nil && !m.inited[g.Pkg] {
		m.uninit[g.String()] = true
	}
	return o
}

// RunInit executes the package initialiser of pkg (not of its imports).
func (m *Machine) RunInit(pkg *ssa.Package) {
	if m.inited[pkg] {
		return
	}
	m.inited[pkg] = true
	pkg.Build() // bodies of dependency packages are built on demand
	if f := pkg.Func("init"); f != nil && f.Blocks != nil {
		m.CallFunction(f, nil, nil)
	}
}

func (m *Machine) exec(fr *frame, ins ssa.Instruction) {
	s := m.S
	switch i := ins.(type) {
	case *ssa.DebugRef:
	case *ssa.Alloc:
		elem := i.Type().(*types.Pointer).Elem()
		o := m.newObject(elem, m.zero(elem), i.Comment)
		fr.regs[i] = Ptr{Obj: o}
	case *ssa.BinOp:
		fr.regs[i] = m.binop(i.Op, m.get(fr, i.X), m.get(fr, i.Y), i.X.Type(), i.Y.Type())
	case *ssa.UnOp:
		x := m.get(fr, i.X)
		switch i.Op {
		case token.MUL:
			v := m.load(x.(Ptr))
			if t, ok := v.(*Term); ok && t.W == 8 {
				if w := widthOf(i.Type()); w > 8 {
					// a load of a wider integer through a reinterpreted pointer into a byte array:
					// little-endian, as on every supported target
					v = m.loadWide(x.(Ptr), w)
				}
			}
			fr.regs[i] = v
		case token.SUB:
			fr.regs[i] = s.Neg(x.(*Term))
		case token.NOT, token.XOR:
			fr.regs[i] = s.Not(x.(*Term))
		case token.ARROW:
			fr.regs[i] = m.chanRecv(x.(*ChanV), i.CommaOk, i.Type())
		default:
			m.unsupported("unop " + i.Op.String())
		}
	case *ssa.Call:
		fr.regs[i] = m.call(fr, &i.Call)
	case *ssa.Defer:
		fn, args := m.prepareCall(fr, &i.Call)
		fr.defers = append(fr.defers, deferred{call: func() { fn(args) }})
	case *ssa.Go:
		fn, args := m.prepareCall(fr, &i.Call)
		m.spawn(func() { fn(args) })
	case *ssa.RunDefers:
		m.runDefers(fr)
		if fr.panicking != nil {
			panic(fr.panicking)
		}
	case *ssa.ChangeInterface:
		fr.regs[i] = m.get(fr, i.X)
	case *ssa.ChangeType:
		fr.regs[i] = m.get(fr, i.X)
	case *ssa.Convert:
		fr.regs[i] = m.convert(m.get(fr, i.X), i.X.Type(), i.Type())
	case *ssa.MultiConvert:
		fr.regs[i] = m.convert(m.get(fr, i.X), i.X.Type(), i.Type())
	case *ssa.Extract:
		fr.regs[i] = m.get(fr, i.Tuple).(Tuple)[i.Index]
	case *ssa.Field:
		fr.regs[i] = copyVal(m.get(fr, i.X).(*StructV).F[i.Field])
	case *ssa.FieldAddr:
		p := m.get(fr, i.X).(Ptr)
		if p.Obj == nil {
			m.goPanicStr("runtime error: invalid memory address or nil pointer dereference")
		}
		fr.regs[i] = sub(p, i.Field)
	case *ssa.Index:
		x := m.get(fr, i.X)
		idx := m.get(fr, i.Index).(*Term)
		switch a := x.(type) {
		case *ArrayV:
			if _, scalar := i.X.Type().Underlying().(*types.Array).Elem().Underlying().(*types.Basic); scalar && !idx.IsConst() && len(a.E) > 8 && !isString(i.X.Type().Underlying().(*types.Array).Elem()) {
				if !m.Branch(m.inRange(idx, len(a.E))) {
					m.goPanicStr(fmt.Sprintf("runtime error: index out of range [symbolic] with length %d", len(a.E)))
				}
				tmp := m.newObject(i.X.Type(), a, "tmparray")
				fr.regs[i] = m.selectSym(Ptr{Obj: tmp, Sym: idx})
				return
			}
			k := m.index(idx, len(a.E))
			fr.regs[i] = copyVal(a.E[k])
		case Str:
			k := m.index(idx, len(a.B))
			fr.regs[i] = a.B[k]
		default:
			m.unsupported(fmt.Sprintf("Index on %T", x))
		}
	case *ssa.IndexAddr:
		x := m.get(fr, i.X)
		idx := m.get(fr, i.Index).(*Term)
		switch a := x.(type) {
		case Slice:
			k := m.index(idx, a.Len)
			fr.regs[i] = sliceElem(a, k)
		case Ptr:
			at := i.X.Type().Underlying().(*types.Pointer).Elem().Underlying().(*types.Array)
			n := int(at.Len())
			if a.Obj == nil {
				m.goPanicStr("runtime error: invalid memory address or nil pointer dereference")
			}
			if _, scalar := at.Elem().Underlying().(*types.Basic); scalar && !idx.IsConst() && n > 8 && n <= 4096 && !isString(at.Elem()) && a.Sym == nil {
				// symbolic index into a scalar table: keep it symbolic (select) instead of forking on its value
				if !m.Branch(m.inRange(idx, n)) {
					m.goPanicStr(fmt.Sprintf("runtime error: index out of range [symbolic] with length %d", n))
				}
				fr.regs[i] = Ptr{Obj: a.Obj, Path: a.Path, Sym: idx}
				return
			}
			k := m.index(idx, n)
			if _, isArr := (*m.cell(a)).(*ArrayV); !isArr {
				// (*[n]T)(unsafe.Pointer(&b[i])): the pointer designates byte i of a byte array; element
				// k of the reinterpreted array starts k*sizeof(T) bytes further on
				if off, ok := m.byteOffset(a); ok {
					if w := widthOf(at.Elem()); w >= 8 {
						p := Ptr{Obj: a.Obj, Path: append(append([]int(nil), a.Path[:len(a.Path)-1]...), off+k*(w/8))}
						fr.regs[i] = p
						return
					}
				}
				m.unsupported("IndexAddr through a reinterpreted pointer")
			}
			fr.regs[i] = sub(a, k)
		default:
			m.unsupported(fmt.Sprintf("IndexAddr on %T", x))
		}
	case *ssa.Lookup:
		x := m.get(fr, i.X)
		switch a := x.(type) {
		case Str:
			idx := m.get(fr, i.Index).(*Term)
			k := m.index(idx, len(a.B))
			fr.regs[i] = a.B[k]
		case *MapV:
			v, ok := m.mapLookup(a, m.get(fr, i.Index))
			if !ok {
				v = m.zero(i.X.Type().Underlying().(*types.Map).Elem())
			}
			if i.CommaOk {
				fr.regs[i] = Tuple{copyVal(v), s.Bool(ok)}
			} else {
				fr.regs[i] = copyVal(v)
			}
		default:
			m.unsupported(fmt.Sprintf("Lookup on %T", x))
		}
	case *ssa.MapUpdate:
		mp := m.get(fr, i.Map).(*MapV)
		if mp == nil {
			m.goPanicStr("assignment to entry in nil map")
		}
		m.mapUpdate(mp, m.get(fr, i.Key), m.get(fr, i.Value))
	case *ssa.MakeMap:
		mt := i.Type().Underlying().(*types.Map)
		m.nextMap++
		fr.regs[i] = &MapV{ID: m.nextMap, KT: mt.Key(), VT: mt.Elem()}
	case *ssa.MakeSlice:
		st := i.Type().Underlying().(*types.Slice)
		ln := m.lenArg(m.get(fr, i.Len).(*Term), "make len")
		cp := m.lenArg(m.get(fr, i.Cap).(*Term), "make cap")
		if cp < ln {
			m.goPanicStr("runtime error: makeslice: cap out of range")
		}
		base := m.newArrayObj(st.Elem(), cp)
		fr.regs[i] = Slice{Base: base, Off: 0, Len: ln, Cap: cp}
	case *ssa.MakeChan:
		sz := m.ConcreteInt(m.get(fr, i.Size).(*Term), "chan size")
		fr.regs[i] = m.newChan(sz, i.Type().Underlying().(*types.Chan).Elem())
	case *ssa.MakeClosure:
		c := &Closure{Fn: i.Fn.(*ssa.Function)}
		for _, b := range i.Bindings {
			c.Env = append(c.Env, m.get(fr, b))
		}
		fr.regs[i] = c
	case *ssa.MakeInterface:
		fr.regs[i] = Iface{T: i.X.Type(), V: copyVal(m.get(fr, i.X))}
	case *ssa.Range:
		fr.regs[i] = m.newRange(m.get(fr, i.X), i.X.Type())
	case *ssa.Next:
		fr.regs[i] = m.rangeNext(m.get(fr, i.Iter).(*rangeIter), i)
	case *ssa.Slice:
		fr.regs[i] = m.sliceOp(fr, i)
	case *ssa.Store:
		m.store(m.get(fr, i.Addr).(Ptr), m.get(fr, i.Val))
	case *ssa.Phi:
		for k, p := range fr.block.Preds {
			if p == fr.prev {
				fr.regs[i] = m.get(fr, i.Edges[k])
				return
			}
		}
		panic("engine: phi without matching predecessor")
	case *ssa.TypeAssert:
		fr.regs[i] = m.typeAssert(m.get(fr, i.X).(Iface), i)
	case *ssa.Send:
		m.chanSend(m.get(fr, i.Chan).(*ChanV), m.get(fr, i.X))
	case *ssa.Select:
		fr.regs[i] = m.selectOp(fr, i)
	case *ssa.SliceToArrayPointer:
		sl := m.get(fr, i.X).(Slice)
		n := int(i.Type().Underlying().(*types.Pointer).Elem().Underlying().(*types.Array).Len())
		if sl.Len < n {
			m.goPanicStr("runtime error: cannot convert slice to array pointer")
		}
		if sl.Off != 0 {
			m.unsupported("slice-to-array-pointer at non-zero offset")
		}
		fr.regs[i] = sl.Base
	default:
		m.unsupported(fmt.Sprintf("instruction %T", ins))
	}
}

// index checks a (possibly symbolic) index against [0,n) and returns it concretely.
func (m *Machine) index(idx *Term, n int) int {
	if idx.IsConst() {
		k := signExt(idx.Val, idx.W)
		if k < 0 || k >= int64(n) {
			m.goPanicStr(fmt.Sprintf("runtime error: index out of range [%d] with length %d", k, n))
		}
		return int(k)
	}
	if !m.Branch(m.inRange(idx, n)) {
		m.goPanicStr(fmt.Sprintf("runtime error: index out of range [symbolic] with length %d", n))
	}
	return int(m.Concretize(idx, "index"))
}

// inRange: 0 ≤ idx < n for an index term of any width (signed indices are negative when huge unsigned).
func (m *Machine) inRange(idx *Term, n int) *Term {
	if idx.W < 64 && uint64(n) > mask(idx.W) {
		return m.S.True
	}
	return m.S.ULt(idx, m.S.Const(idx.W, uint64(n)))
}

// lenArg concretises a length/capacity argument (panics in Go when negative).
func (m *Machine) lenArg(t *Term, what string) int {
	if !t.IsConst() {
		neg := m.S.SLt(t, m.S.Const(t.W, 0))
		if m.Branch(neg) {
			m.goPanicStr("runtime error: " + what + " out of range")
		}
	}
	n := m.ConcreteInt(t, what)
	if n < 0 {
		m.goPanicStr("runtime error: " + what + " out of range")
	}
	if n > 1<<24 {
		m.end("bound", what+" too large")
	}
	return n
}

func (m *Machine) sliceOp(fr *frame, i *ssa.Slice) Value {
	x := m.get(fr, i.X)
	opt := func(v ssa.Value, def int, what string) int {
		if v == nil {
			return def
		}
		return m.lenArg(m.get(fr, v).(*Term), what)
	}
	switch a := x.(type) {
	case Str:
		lo := opt(i.Low, 0, "slice low")
		hi := opt(i.High, len(a.B), "slice high")
		if lo > hi || hi > len(a.B) {
			m.goPanicStr(fmt.Sprintf("runtime error: slice bounds out of range [%d:%d] with length %d", lo, hi, len(a.B)))
		}
		return Str{B: a.B[lo:hi:hi]}
	case Slice:
		lo := opt(i.Low, 0, "slice low")
		hi := opt(i.High, a.Len, "slice high")
		mx := opt(i.Max, a.Cap, "slice max")
		if lo > hi || hi > mx || mx > a.Cap {
			m.goPanicStr(fmt.Sprintf("runtime error: slice bounds out of range [%d:%d:%d] with capacity %d", lo, hi, mx, a.Cap))
		}
		if a.Base.Obj == nil {
			return Slice{}
		}
		return Slice{Base: a.Base, Off: a.Off + lo, Len: hi - lo, Cap: mx - lo}
	case Ptr:
		n := int(i.X.Type().Underlying().(*types.Pointer).Elem().Underlying().(*types.Array).Len())
		if a.Obj == nil {
			m.goPanicStr("runtime error: invalid memory address or nil pointer dereference")
		}
		lo := opt(i.Low, 0, "slice low")
		hi := opt(i.High, n, "slice high")
		mx := opt(i.Max, n, "slice max")
		if lo > hi || hi > mx || mx > n {
			m.goPanicStr("runtime error: slice bounds out of range")
		}
		return Slice{Base: a, Off: lo, Len: hi - lo, Cap: mx - lo}
	}
	m.unsupported(fmt.Sprintf("Slice on %T", x))
	return nil
}

func (m *Machine) typeAssert(x Iface, i *ssa.TypeAssert) Value {
	ok := false
	if x.T != nil {
		if types.IsInterface(i.AssertedType) {
			ok = types.AssignableTo(x.T, i.AssertedType) || implements(x.T, i.AssertedType)
		} else {
			ok = types.Identical(x.T, i.AssertedType)
		}
	}
	var res Value
	if ok {
		if types.IsInterface(i.AssertedType) {
			res = x
		} else {
			res = copyVal(x.V)
		}
	} else {
		if !i.CommaOk {
			desc := "nil"
			if x.T != nil {
				desc = x.T.String()
			}
			m.goPanicStr("interface conversion: interface is " + desc + ", not " + i.AssertedType.String())
		}
		res = m.zero(i.AssertedType)
	}
	if i.CommaOk {
		return Tuple{res, m.S.Bool(ok)}
	}
	return res
}

func implements(t types.Type, iface types.Type) bool {
	it, ok := iface.Underlying().(*types.Interface)
	if !ok {
		return false
	}
	return types.Implements(t, it)
}

// ---------------------------------------------------------------------------
// calls

// prepareCall evaluates callee and arguments and returns a host closure that performs the call.
func (m *Machine) prepareCall(fr *frame, c *ssa.CallCommon) (func([]Value) Value, []Value) {
	var args []Value
	if c.IsInvoke() {
		recv := m.get(fr, c.Value).(Iface)
		for _, a := range c.Args {
			args = append(args, copyVal(m.get(fr, a)))
		}
		return func(args []Value) Value {
			if recv.T == nil {
				m.goPanicStr("runtime error: invalid memory address or nil pointer dereference")
			}
			if o, ok := recv.V.(Opaque); ok {
				return m.opaqueMethod(o, c.Method.Name(), args)
			}
			var fn *ssa.Function
			if sel := m.P.SSA.MethodSets.MethodSet(recv.T).Lookup(c.Method.Pkg(), c.Method.Name()); sel != nil {
				fn = m.P.SSA.MethodValue(sel)
			}
			if fn == nil {
				m.unsupported("method " + c.Method.Name() + " not found on " + recv.T.String())
			}
			return m.CallFunction(fn, append([]Value{recv.V}, args...), nil)
		}, args
	}
	for _, a := range c.Args {
		args = append(args, copyVal(m.get(fr, a)))
	}
	switch f := c.Value.(type) {
	case *ssa.Function:
		return func(args []Value) Value { return m.CallFunction(f, args, nil) }, args
	case *ssa.Builtin:
		argTypes := make([]types.Type, len(c.Args))
		for k, a := range c.Args {
			argTypes[k] = a.Type()
		}
		return func(args []Value) Value { return m.builtin(f, args, argTypes) }, args
	}
	cl := m.get(fr, c.Value).(*Closure)
	return func(args []Value) Value { return m.CallClosure(cl, args) }, args
}

func (m *Machine) CallClosure(cl *Closure, args []Value) Value {
	if cl == nil {
		m.goPanicStr("runtime error: invalid memory address or nil pointer dereference (nil func)")
	}
	if cl.Host != nil {
		return cl.Host(m, args)
	}
	if cl.Bltn != nil {
		m.unsupported("builtin as function value")
	}
	return m.CallFunction(cl.Fn, args, cl.Env)
}

func (m *Machine) call(fr *frame, c *ssa.CallCommon) Value {
	fn, args := m.prepareCall(fr, c)
	return fn(args)
}

func (m *Machine) builtin(b *ssa.Builtin, args []Value, at []types.Type) Value {
	s := m.S
	switch b.Name() {
	case "len":
		switch x := args[0].(type) {
		case Str:
			return s.Const(64, uint64(len(x.B)))
		case Slice:
			return s.Const(64, uint64(x.Len))
		case *MapV:
			if x == nil {
				return s.Const(64, 0)
			}
			return s.Const(64, uint64(len(x.Keys)))
		case *ArrayV:
			return s.Const(64, uint64(len(x.E)))
		case Ptr:
			return s.Const(64, uint64(at[0].Underlying().(*types.Pointer).Elem().Underlying().(*types.Array).Len()))
		case *ChanV:
			return s.Const(64, uint64(len(x.buf)))
		}
	case "cap":
		switch x := args[0].(type) {
		case Slice:
			return s.Const(64, uint64(x.Cap))
		case *ArrayV:
			return s.Const(64, uint64(len(x.E)))
		case Ptr:
			return s.Const(64, uint64(at[0].Underlying().(*types.Pointer).Elem().Underlying().(*types.Array).Len()))
		}
	case "append":
		dst := args[0].(Slice)
		var add []Value
		switch src := args[1].(type) {
		case Slice:
			add = m.SliceVals(src)
		case Str:
			for _, t := range src.B {
				add = append(add, t)
			}
		}
		if len(add) == 0 {
			return dst
		}
		elemT := at[0].Underlying().(*types.Slice).Elem()
		if dst.Len+len(add) <= dst.Cap && dst.Base.Obj != nil {
			arr := (*m.cell(dst.Base)).(*ArrayV)
			w := Slice{Base: dst.Base, Off: dst.Off + dst.Len, Len: len(add), Cap: len(add)}
			m.accessRange(w, true)
			for k, v := range add {
				arr.E[dst.Off+dst.Len+k] = v
			}
			return Slice{Base: dst.Base, Off: dst.Off, Len: dst.Len + len(add), Cap: dst.Cap}
		}
		newCap := dst.Cap * 2
		if newCap < dst.Len+len(add) {
			newCap = dst.Len + len(add)
		}
		old := m.SliceVals(dst)
		base := m.newArrayObj(elemT, newCap)
		arr := base.Obj.V.(*ArrayV)
		copy(arr.E, old)
		copy(arr.E[len(old):], add)
		return Slice{Base: base, Off: 0, Len: len(old) + len(add), Cap: newCap}
	case "copy":
		dst := args[0].(Slice)
		var src []Value
		switch x := args[1].(type) {
		case Slice:
			src = m.SliceVals(x)
		case Str:
			for _, t := range x.B {
				src = append(src, t)
			}
		}
		n := dst.Len
		if len(src) < n {
			n = len(src)
		}
		if n > 0 {
			arr := (*m.cell(dst.Base)).(*ArrayV)
			m.accessRange(Slice{Base: dst.Base, Off: dst.Off, Len: n, Cap: n}, true)
			for k := 0; k < n; k++ {
				arr.E[dst.Off+k] = src[k]
			}
		}
		return s.Const(64, uint64(n))
	case "delete":
		mp := args[0].(*MapV)
		if mp != nil {
			m.mapDelete(mp, args[1])
		}
		return nil
	case "recover":
		if len(m.panicFrs) > 0 {
			fr := m.panicFrs[len(m.panicFrs)-1]
			if fr.panicking != nil {
				v := fr.panicking.Val
				fr.panicking = nil
				if iv, ok := v.(Iface); ok {
					return iv
				}
				return Iface{T: types.Typ[types.String], V: ConcStr(fmt.Sprint(v), s)}
			}
		}
		return Iface{}
	case "print", "println":
		return nil
	case "ssa:wrapnilchk":
		if p, ok := args[0].(Ptr); ok && p.Obj == nil {
			m.goPanicStr("value method called using nil pointer")
		}
		return args[0]
	case "min", "max":
		acc := args[0].(*Term)
		signed := isSigned(at[0])
		for _, a := range args[1:] {
			y := a.(*Term)
			var lt *Term
			if signed {
				lt = s.SLt(y, acc)
			} else {
				lt = s.ULt(y, acc)
			}
			if b.Name() == "max" {
				lt = s.Not(s.BOr(lt, s.Eq(y, acc)))
			}
			acc = s.Ite(lt, y, acc)
		}
		return acc
	case "clear":
		if mp, ok := args[0].(*MapV); ok && mp != nil {
			mp.Keys, mp.Vals = nil, nil
			return nil
		}
	case "close":
		m.chanClose(args[0].(*ChanV))
		return nil
	case "SliceData": // unsafe.SliceData
		sl := args[0].(Slice)
		if sl.Base.Obj == nil {
			return Ptr{}
		}
		return sub(sl.Base, sl.Off)
	case "String", "Slice": // unsafe.String(ptr, len), unsafe.Slice(ptr, len)
		p := args[0].(Ptr)
		n := m.lenArg(args[1].(*Term), "unsafe length")
		isStr := b.Name() == "String"
		if n == 0 || p.Obj == nil {
			if isStr {
				return Str{}
			}
			return Slice{}
		}
		base := Ptr{Obj: p.Obj, Path: p.Path[:len(p.Path)-1]}
		off := p.Path[len(p.Path)-1]
		arr, ok := (*m.cell(base)).(*ArrayV)
		if !ok || off+n > len(arr.E) {
			m.unsupported("unsafe.String/Slice outside an array")
		}
		if !isStr {
			return Slice{Base: base, Off: off, Len: n, Cap: len(arr.E) - off}
		}
		out := make([]*Term, n)
		for i := range out {
			out[i] = arr.E[off+i].(*Term)
		}
		return Str{out}
	case "StringData":
		st := args[0].(Str)
		if len(st.B) == 0 {
			return Ptr{}
		}
		return sub(m.BytesToSlice(append([]*Term(nil), st.B...)).Base, 0)
	}
	m.unsupported("builtin " + b.Name() + fmt.Sprintf(" on %T", args[0]))
	return nil
}

// ---------------------------------------------------------------------------
// operators

func (m *Machine) binop(op token.Token, x, y Value, xt, yt types.Type) Value {
	s := m.S
	switch a := x.(type) {
	case *Term:
		b := y.(*Term)
		if a.W == 0 { // bool
			switch op {
			case token.EQL:
				return s.Eq(a, b)
			case token.NEQ:
				return s.Not(s.Eq(a, b))
			case token.AND, token.LAND:
				return s.BAnd(a, b)
			case token.OR, token.LOR:
				return s.BOr(a, b)
			}
			m.unsupported("bool binop " + op.String())
		}
		signed := isSigned(xt)
		switch op {
		case token.ADD:
			return s.Add(a, b)
		case token.SUB:
			return s.Sub(a, b)
		case token.MUL:
			return s.Mul(a, b)
		case token.QUO, token.REM:
			if !b.IsConst() {
				if m.Branch(s.Eq(b, s.Const(b.W, 0))) {
					m.goPanicStr("runtime error: integer divide by zero")
				}
			} else if b.Val == 0 {
				m.goPanicStr("runtime error: integer divide by zero")
			}
			if op == token.QUO {
				if signed {
					return s.SDiv(a, b)
				}
				return s.UDiv(a, b)
			}
			if signed {
				return s.SRem(a, b)
			}
			return s.URem(a, b)
		case token.AND:
			return s.And(a, b)
		case token.OR:
			return s.Or(a, b)
		case token.XOR:
			return s.Xor(a, b)
		case token.AND_NOT:
			return s.And(a, s.Not(b))
		case token.SHL, token.SHR:
			if isSigned(yt) {
				if !b.IsConst() {
					if m.Branch(s.SLt(b, s.Const(b.W, 0))) {
						m.goPanicStr("runtime error: negative shift amount")
					}
				} else if signExt(b.Val, b.W) < 0 {
					m.goPanicStr("runtime error: negative shift amount")
				}
			}
			var amt *Term
			var big *Term = s.False
			if b.W > a.W {
				big = s.Not(s.ULt(b, s.Const(b.W, uint64(a.W))))
				amt = s.Extract(b, a.W-1, 0)
			} else {
				amt = s.ZExt(b, a.W)
			}
			var r, over *Term
			switch {
			case op == token.SHL:
				r, over = s.Shl(a, amt), s.Const(a.W, 0)
			case signed:
				r, over = s.AShr(a, amt), s.AShr(a, s.Const(a.W, uint64(a.W-1)))
			default:
				r, over = s.LShr(a, amt), s.Const(a.W, 0)
			}
			return s.Ite(big, over, r)
		case token.EQL:
			return s.Eq(a, b)
		case token.NEQ:
			return s.Not(s.Eq(a, b))
		case token.LSS:
			if signed {
				return s.SLt(a, b)
			}
			return s.ULt(a, b)
		case token.LEQ:
			if signed {
				return s.SLe(a, b)
			}
			return s.ULe(a, b)
		case token.GTR:
			if signed {
				return s.SLt(b, a)
			}
			return s.ULt(b, a)
		case token.GEQ:
			if signed {
				return s.SLe(b, a)
			}
			return s.ULe(b, a)
		}
	case Str:
		b := y.(Str)
		switch op {
		case token.ADD:
			nb := make([]*Term, 0, len(a.B)+len(b.B))
			nb = append(nb, a.B...)
			nb = append(nb, b.B...)
			return Str{nb}
		case token.EQL:
			return m.valEq(a, b)
		case token.NEQ:
			return s.Not(m.valEq(a, b))
		case token.LSS:
			return m.strLess(a, b)
		case token.GTR:
			return m.strLess(b, a)
		case token.LEQ:
			return s.Not(m.strLess(b, a))
		case token.GEQ:
			return s.Not(m.strLess(a, b))
		}
	case Opaque:
		if a.Kind == "float" {
			b := y.(Opaque)
			fa, fb := a.V.(float64), b.V.(float64)
			switch op {
			case token.ADD:
				return Opaque{"float", fa + fb}
			case token.SUB:
				return Opaque{"float", fa - fb}
			case token.MUL:
				return Opaque{"float", fa * fb}
			case token.QUO:
				return Opaque{"float", fa / fb}
			case token.LSS:
				return s.Bool(fa < fb)
			case token.GTR:
				return s.Bool(fa > fb)
			case token.LEQ:
				return s.Bool(fa <= fb)
			case token.GEQ:
				return s.Bool(fa >= fb)
			case token.EQL:
				return s.Bool(fa == fb)
			case token.NEQ:
				return s.Bool(fa != fb)
			}
		}
	}
	switch op {
	case token.EQL:
		return m.cmpAny(x, y)
	case token.NEQ:
		return s.Not(m.cmpAny(x, y))
	}
	m.unsupported(fmt.Sprintf("binop %s on %T", op, x))
	return nil
}

func (m *Machine) cmpAny(x, y Value) *Term {
	// slices, maps, funcs compare only against nil
	switch a := x.(type) {
	case Slice:
		if b, ok := y.(Slice); ok {
			if a.Base.Obj == nil || b.Base.Obj == nil {
				return m.S.Bool(a.Base.Obj == nil && b.Base.Obj == nil)
			}
		}
	case *Closure:
		b, _ := y.(*Closure)
		return m.S.Bool(a == nil && b == nil)
	}
	return m.valEq(x, y)
}

func (m *Machine) convert(x Value, from, to types.Type) Value {
	s := m.S
	fu, tu := from.Underlying(), to.Underlying()
	switch v := x.(type) {
	case *Term:
		if tw := widthOf(to); tw > 0 && v.W > 0 {
			if tw <= v.W {
				return s.Extract(v, tw-1, 0)
			}
			if isSigned(from) {
				return s.SExt(v, tw)
			}
			return s.ZExt(v, tw)
		}
		if isString(to) && v.W > 0 { // string(rune)
			if v.IsConst() {
				return ConcStr(string(rune(signExt(v.Val, v.W))), s)
			}
			return m.encodeRuneSym(v, isSigned(from))
		}
		if isFloat(to) {
			if v.IsConst() {
				if isSigned(from) {
					return Opaque{"float", float64(signExt(v.Val, v.W))}
				}
				return Opaque{"float", float64(v.Val)}
			}
			m.unsupported("symbolic int to float")
		}
	case Str:
		if sl, ok := tu.(*types.Slice); ok {
			if b, ok := sl.Elem().Underlying().(*types.Basic); ok && b.Kind() == types.Uint8 {
				return m.BytesToSlice(append([]*Term(nil), v.B...))
			}
			if c, ok := v.Concrete(); ok { // []rune
				var vals []Value
				for _, r := range c {
					vals = append(vals, s.Const(32, uint64(r)))
				}
				return m.MakeSlice(sl.Elem(), vals)
			}
			m.unsupported("[]rune(symbolic string)")
		}
		if isString(to) {
			return v
		}
	case Slice:
		if isString(to) {
			elem := fu.(*types.Slice).Elem().Underlying().(*types.Basic)
			if elem.Kind() == types.Uint8 {
				return Str{B: m.SliceBytes(v)}
			}
			// []rune → string, concrete only
			var rs []rune
			for _, e := range m.SliceVals(v) {
				t := e.(*Term)
				if !t.IsConst() {
					m.unsupported("string([]rune) symbolic")
				}
				rs = append(rs, rune(t.Val))
			}
			return ConcStr(string(rs), s)
		}
		if _, ok := tu.(*types.Slice); ok {
			return v
		}
	case Ptr:
		if b, ok := tu.(*types.Basic); ok && b.Kind() == types.Uintptr {
			// the address of a byte of an array: an unconstrained base per object plus the byte
			// offset (any alignment of the base is realisable through windows of larger allocations)
			if v.Obj == nil {
				return s.Const(64, 0)
			}
			if off, ok := m.byteOffset(v); ok {
				base := s.Var(fmt.Sprintf("addr_obj%d", v.Obj.ID), 64)
				// Go's allocator aligns objects of 8 bytes or more to 8: other alignments of a byte are
				// reached through windows into such an object (and so can be replayed natively)
				m.Assume(s.Eq(s.And(base, s.Const(64, 7)), s.Const(64, 0)))
				return s.Add(base, s.Const(64, uint64(off)))
			}
			m.unsupported("address of a cell that is not a byte of an array")
		}
		return v // unsafe.Pointer conversions keep the pointer
	case Opaque:
		if v.Kind == "float" {
			if tw := widthOf(to); tw > 0 {
				return s.Const(tw, uint64(int64(v.V.(float64))))
			}
			if isFloat(to) {
				return v
			}
		}
	}
	m.unsupported(fmt.Sprintf("convert %s -> %s (%T)", from, to, x))
	return nil
}

// encodeRuneSym is string(r) for a symbolic integer r, forking on the UTF-8 length classes.
func (m *Machine) encodeRuneSym(v *Term, signed bool) Str {
	s := m.S
	var r *Term
	if signed {
		r = s.SExt(v, 64)
	} else {
		r = s.ZExt(v, 64)
	}
	c := func(x uint64) *Term { return s.Const(64, x) }
	b := func(t *Term) *Term { return s.Extract(t, 7, 0) }
	cont := func(sh uint64) *Term {
		return b(s.Or(c(0x80), s.And(s.LShr(r, c(sh)), c(0x3F))))
	}
	invalid := s.BOr(s.Not(s.ULe(r, c(0x10FFFF))), s.BAnd(s.ULe(c(0xD800), r), s.ULe(r, c(0xDFFF))))
	if m.Branch(invalid) {
		return ConcStr("\uFFFD", s)
	}
	if m.Branch(s.ULt(r, c(0x80))) {
		return Str{[]*Term{b(r)}}
	}
	if m.Branch(s.ULt(r, c(0x800))) {
		return Str{[]*Term{b(s.Or(c(0xC0), s.LShr(r, c(6)))), cont(0)}}
	}
	if m.Branch(s.ULt(r, c(0x10000))) {
		return Str{[]*Term{b(s.Or(c(0xE0), s.LShr(r, c(12)))), cont(6), cont(0)}}
	}
	return Str{[]*Term{b(s.Or(c(0xF0), s.LShr(r, c(18)))), cont(12), cont(6), cont(0)}}
}

// byteOffset: p designates element i of an array of 8-bit cells; returns i.
func (m *Machine) byteOffset(p Ptr) (int, bool) {
	if p.Obj == nil || len(p.Path) == 0 || p.Sym != nil {
		return 0, false
	}
	parent := Ptr{Obj: p.Obj, Path: p.Path[:len(p.Path)-1]}
	arr, ok := (*m.cell(parent)).(*ArrayV)
	if !ok {
		return 0, false
	}
	i := p.Path[len(p.Path)-1]
	if i < 0 || i >= len(arr.E) {
		return 0, false
	}
	if t, ok := arr.E[i].(*Term); !ok || t.W != 8 {
		return 0, false
	}
	return i, true
}

// loadWide reads a w-bit little-endian integer starting at the byte p designates.
func (m *Machine) loadWide(p Ptr, w int) Value {
	off, ok := m.byteOffset(p)
	if !ok {
		m.unsupported("wide load through a pointer that is not into a byte array")
	}
	parent := Ptr{Obj: p.Obj, Path: p.Path[:len(p.Path)-1]}
	arr := (*m.cell(parent)).(*ArrayV)
	n := w / 8
	if off+n > len(arr.E) {
		m.unsupported("wide load past the end of the byte array")
	}
	m.accessRange(Slice{Base: parent, Off: off, Len: n, Cap: n}, false)
	v := arr.E[off+n-1].(*Term)
	for j := n - 2; j >= 0; j-- {
		v = m.S.Concat(v, arr.E[off+j].(*Term))
	}
	return v
}
