package engine

import (
	"fmt"
	"go/types"
	"runtime"

	"golang.org/x/tools/go/ssa"
)

// ---------------------------------------------------------------------------
// cooperative scheduler: simulated threads are host goroutines passing a baton.

type Thread struct {
	id     int
	wake   chan struct{}
	done   bool
	canRun func() bool
	what   string
	// vector clock for the happens-before race check
	vc map[int]int
	// interpreter stacks of this thread while it is not running (the Machine holds the running one's)
	skipOnce       bool // set while the thread asks to be passed over by the next dispatch
	savedCallStack []*ssa.Function
	savedPanicFrs  []*frame
	savedDepth     int
}

type Sched struct {
	threads []*Thread
	cur     *Thread
	kill    chan struct{}
	fatal   interface{}
	// Switches counts context switches taken on this path.
	Switches int
	// PreemptSyscalls makes every kernel-model syscall a yield point.
	PreemptSyscalls bool
}

func newSched() *Sched {
	main := &Thread{id: 0, wake: make(chan struct{}, 1), vc: map[int]int{0: 1}}
	return &Sched{threads: []*Thread{main}, cur: main, kill: make(chan struct{})}
}

func (m *Machine) spawn(f func()) {
	sc := m.Sched
	parent := sc.cur
	t := &Thread{id: len(sc.threads), wake: make(chan struct{}, 1), vc: map[int]int{}}
	for k, v := range parent.vc {
		t.vc[k] = v
	}
	t.vc[t.id] = 1
	parent.vc[parent.id]++
	sc.threads = append(sc.threads, t)
	go func() {
		select {
		case <-t.wake:
		case <-sc.kill:
			return
		}
		defer func() {
			if r := recover(); r != nil {
				if _, isKill := r.(killed); isKill {
					return
				}
				sc.fatal = r
				if gp, ok := r.(*GoPanic); ok {
					sc.fatal = &pathEnd{Kind: "goroutine-panic", Msg: gp.Msg}
				}
				t.done = true
				sc.threads[0].wake <- struct{}{}
				return
			}
		}()
		f()
		t.done = true
		m.dispatch(t)
	}()
	// spawning is a scheduling point
	m.Yield(nil, "go")
}

type killed struct{}

// Yield is a scheduling point. canRun == nil means the thread stays runnable.
func (m *Machine) Yield(canRun func() bool, what string) {
	sc := m.Sched
	t := sc.cur
	if len(sc.threads) == 1 {
		if canRun != nil && !canRun() {
			m.end("deadlock", "single thread blocks forever on "+what)
		}
		return
	}
	t.canRun, t.what = canRun, what
	m.dispatch(t)
	t.canRun = nil
}

// dispatch picks the next thread; called by the current thread t.
func (m *Machine) dispatch(t *Thread) {
	sc := m.Sched
	var runnable []*Thread
	for _, th := range sc.threads {
		if th.done {
			continue
		}
		if th.canRun == nil || th.canRun() {
			runnable = append(runnable, th)
		}
	}
	// a thread that yields "to another" (Gosched, a pending timer) is passed over when somebody else
	// can run
	if len(runnable) > 1 {
		var others []*Thread
		for _, th := range runnable {
			if !th.skipOnce {
				others = append(others, th)
			}
		}
		if len(others) > 0 {
			runnable = others
		}
	}
	if len(runnable) == 0 {
		allDone := true
		for _, th := range sc.threads {
			if !th.done {
				allDone = false
			}
		}
		if allDone {
			return
		}
		desc := ""
		for _, th := range sc.threads {
			if !th.done {
				desc += fmt.Sprintf(" T%d:%s", th.id, th.what)
			}
		}
		pe := &pathEnd{Kind: "deadlock", Msg: "no runnable thread:" + desc}
		if t.id == 0 {
			panic(pe)
		}
		sc.fatal = pe
		sc.threads[0].wake <- struct{}{}
		m.park(t)
		return
	}
	var pick int
	func() {
		// a pathEnd raised inside Choose must reach the main thread
		defer func() {
			if r := recover(); r != nil {
				if t.id == 0 {
					panic(r)
				}
				sc.fatal = r
				sc.threads[0].wake <- struct{}{}
				m.park(t)
			}
		}()
		pick = m.Choose(len(runnable), "sched")
	}()
	next := runnable[pick]
	if next == t {
		return
	}
	sc.Switches++
	// the interpreter's call stack, panicking frames and depth belong to the running thread
	t.savedCallStack, t.savedPanicFrs, t.savedDepth = m.callStack, m.panicFrs, m.depth
	m.callStack, m.panicFrs, m.depth = next.savedCallStack, next.savedPanicFrs, next.savedDepth
	sc.cur = next
	next.wake <- struct{}{}
	if t.done {
		return
	}
	m.park(t)
}

// park blocks the host goroutine of t until it gets the baton again.
func (m *Machine) park(t *Thread) {
	sc := m.Sched
	select {
	case <-t.wake:
	case <-sc.kill:
		if t.id != 0 {
			runtime.Goexit()
		}
	}
	if t.id == 0 && sc.fatal != nil {
		f := sc.fatal
		sc.fatal = nil
		// the main thread is resumed out of band: it unwinds on its own interpreter stacks
		m.callStack, m.panicFrs, m.depth = t.savedCallStack, t.savedPanicFrs, t.savedDepth
		sc.cur = t
		panic(f)
	}
	sc.cur = t
}

// finishThreads is called when the main harness function returns.
func (m *Machine) finishThreads() {
	close(m.Sched.kill)
}

// ---------------------------------------------------------------------------
// locks

type lockState struct {
	writer  int // thread id + 1, 0 = none
	readers int
	vc      map[int]int
}

func ptrKey(p Ptr) string {
	return fmt.Sprintf("%d%v", p.Obj.ID, p.Path)
}

// Monitor tracks lock state and the lock discipline on shared objects.
type Monitor struct {
	locks     map[string]*lockState
	lockOrder []string
	guards    map[string]bool // ptrKeys of guarding locks
	Enabled   bool
	// accesses seen: counts for evidence
	Protected   int
	Unprotected []string
	Sections    int // critical sections entered (lock acquisitions of guard locks)
	conds       map[string]*condState
	wgs         map[string]*wgState
}

type condState struct {
	waiters []*condWaiter
}
type condWaiter struct {
	signalled bool
	thread    int
}
type wgState struct {
	n  int64
	vc map[int]int
}

func newMonitor() *Monitor {
	return &Monitor{locks: map[string]*lockState{}, guards: map[string]bool{}, conds: map[string]*condState{}, wgs: map[string]*wgState{}}
}

func (mon *Monitor) lock(p Ptr) *lockState {
	k := ptrKey(p)
	l := mon.locks[k]
	if l == nil {
		l = &lockState{}
		mon.locks[k] = l
		mon.lockOrder = append(mon.lockOrder, k)
	}
	return l
}

// AnyHeld reports whether some lock is held (by anyone).
func (mon *Monitor) AnyHeld() bool {
	for _, l := range mon.locks {
		if l.writer != 0 || l.readers != 0 {
			return true
		}
	}
	return false
}

func (m *Machine) lockAcquire(p Ptr, write bool) {
	if p.Obj == nil {
		m.goPanicStr("runtime error: invalid memory address or nil pointer dereference")
	}
	l := m.Mon.lock(p)
	me := m.Sched.cur.id + 1
	if write {
		m.Yield(func() bool { return l.writer == 0 && l.readers == 0 }, "Lock")
		l.writer = me
	} else {
		m.Yield(func() bool { return l.writer == 0 }, "RLock")
		l.readers++
	}
	m.hbAcquire(l)
	if m.Mon.guards[ptrKey(p)] {
		m.Mon.Sections++
	}
}

func (m *Machine) lockRelease(p Ptr, write bool) {
	if p.Obj == nil {
		m.goPanicStr("runtime error: invalid memory address or nil pointer dereference")
	}
	l := m.Mon.lock(p)
	if write {
		if l.writer == 0 {
			m.end("fatal", "sync: unlock of unlocked mutex")
		}
		l.writer = 0
	} else {
		if l.readers == 0 {
			m.end("fatal", "sync: RUnlock of unlocked RWMutex")
		}
		l.readers--
	}
	m.hbRelease(l)
	// releases are left movers: no scheduling point needed after them
}

func (m *Machine) hbAcquire(l *lockState) {
	t := m.Sched.cur
	for k, v := range l.vc {
		if t.vc[k] < v {
			t.vc[k] = v
		}
	}
}

func (m *Machine) hbRelease(l *lockState) {
	t := m.Sched.cur
	if l.vc == nil {
		l.vc = map[int]int{}
	}
	for k, v := range t.vc {
		if l.vc[k] < v {
			l.vc[k] = v
		}
	}
	t.vc[t.id]++
}

// heldAdequately: some guard lock is held by the current thread in a mode adequate for the access.
func (m *Machine) heldAdequately(write bool) bool {
	me := m.Sched.cur.id + 1
	for k := range m.Mon.guards {
		l := m.Mon.locks[k]
		if l == nil {
			continue
		}
		if l.writer == me {
			return true
		}
		if !write && l.readers > 0 {
			return true
		}
	}
	return false
}

// atomicOp runs one sync/atomic operation on the cell p: a scheduling point, ordered with the other
// atomic operations on the same cell, and not itself subject to the race check.
func (m *Machine) atomicOp(p Ptr, op func()) {
	m.Yield(nil, "atomic")
	if len(m.Sched.threads) > 1 {
		cells, _ := m.Extra["atomiccells"].(map[string]*lockState)
		if cells == nil {
			cells = map[string]*lockState{}
			m.Extra["atomiccells"] = cells
		}
		key := "nil"
		if p.Obj != nil {
			key = fmt.Sprintf("obj%d%v", p.Obj.ID, p.Path)
		}
		l := cells[key]
		if l == nil {
			l = &lockState{}
			cells[key] = l
		}
		m.hbAcquire(l)
		defer m.hbRelease(l)
	}
	was, _ := m.Extra["inatomic"].(bool)
	m.Extra["inatomic"] = true
	defer func() { m.Extra["inatomic"] = was }()
	op()
}

type poolItem struct {
	v  Value
	vc map[int]int
}

type poolState struct{ items []poolItem }

func (m *Machine) poolState(p Ptr) *poolState {
	pools, _ := m.Extra["pools"].(map[int]*poolState)
	if pools == nil {
		pools = map[int]*poolState{}
		m.Extra["pools"] = pools
	}
	id := 0
	if p.Obj != nil {
		id = p.Obj.ID
	}
	if pools[id] == nil {
		pools[id] = &poolState{}
	}
	return pools[id]
}

// raceCell is the happens-before bookkeeping of one memory cell.
type raceCell struct {
	wTid, wClk int
	hasW       bool
	reads      map[int]int
}

// raceCheck implements the vector-clock data-race check for one access by the current thread.
func (m *Machine) raceCheck(key string, write bool) {
	cells, _ := m.Extra["racecells"].(map[string]*raceCell)
	if cells == nil {
		cells = map[string]*raceCell{}
		m.Extra["racecells"] = cells
	}
	t := m.Sched.cur
	c := cells[key]
	if c == nil {
		c = &raceCell{reads: map[int]int{}}
		cells[key] = c
	}
	report := func(kind string) {
		rs, _ := m.Extra["races"].([]string)
		if len(rs) < 8 {
			m.Extra["races"] = append(rs, kind+" on "+key)
		}
	}
	if c.hasW && c.wTid != t.id && c.wClk > t.vc[c.wTid] {
		if write {
			report("write/write race")
		} else {
			report("read/write race")
		}
	}
	if write {
		for tid, clk := range c.reads {
			if tid != t.id && clk > t.vc[tid] {
				report("write/read race")
			}
		}
		c.hasW, c.wTid, c.wClk = true, t.id, t.vc[t.id]
		c.reads = map[int]int{}
	} else {
		c.reads[t.id] = t.vc[t.id]
	}
}

func (m *Machine) raceOn() bool {
	on, _ := m.Extra["raceon"].(bool)
	if in, _ := m.Extra["inatomic"].(bool); in {
		return false
	}
	return on && len(m.Sched.threads) > 1
}

func (m *Machine) access(p Ptr, write bool) {
	if p.Obj != nil && m.raceOn() && !m.isLockObj(p.Obj) {
		m.raceCheck(fmt.Sprintf("obj%d%v(%s)", p.Obj.ID, p.Path, p.Obj.Name), write)
	}
	if m.Mon == nil || !m.Mon.Enabled || p.Obj == nil || !p.Obj.Shared {
		return
	}
	m.checkAccess(fmt.Sprintf("obj%d(%s)", p.Obj.ID, p.Obj.Name), write)
}

func (m *Machine) accessRange(s Slice, write bool) {
	if s.Base.Obj == nil {
		return
	}
	if m.raceOn() {
		for i := 0; i < s.Len; i++ {
			m.raceCheck(fmt.Sprintf("obj%d%v[%d](%s)", s.Base.Obj.ID, s.Base.Path, s.Off+i, s.Base.Obj.Name), write)
		}
	}
	if m.Mon != nil && m.Mon.Enabled && s.Base.Obj.Shared {
		m.checkAccess(fmt.Sprintf("obj%d(%s)", s.Base.Obj.ID, s.Base.Obj.Name), write)
	}
}

func (m *Machine) accessMap(mp *MapV, write bool) {
	if mp != nil && m.raceOn() {
		m.raceCheck(fmt.Sprintf("map#%d", mp.ID), write)
	}
	if m.Mon == nil || !m.Mon.Enabled || mp == nil || !m.sharedMaps()[mp] {
		return
	}
	m.checkAccess(fmt.Sprintf("map#%d", mp.ID), write)
}

func (m *Machine) sharedMaps() map[*MapV]bool {
	sm, _ := m.Extra["sharedMaps"].(map[*MapV]bool)
	if sm == nil {
		sm = map[*MapV]bool{}
		m.Extra["sharedMaps"] = sm
	}
	return sm
}

func (m *Machine) checkAccess(what string, write bool) {
	if m.heldAdequately(write) {
		m.Mon.Protected++
		return
	}
	mode := "read"
	if write {
		mode = "write"
	}
	if len(m.Mon.Unprotected) < 16 {
		m.Mon.Unprotected = append(m.Mon.Unprotected, mode+" of "+what)
	}
}

// MarkShared marks everything reachable from v as shared state.
func (m *Machine) MarkShared(v Value) {
	seen := map[*Object]bool{}
	var walk func(v Value)
	walk = func(v Value) {
		switch x := v.(type) {
		case Ptr:
			if x.Obj != nil && !seen[x.Obj] {
				seen[x.Obj] = true
				if !m.isLockObj(x.Obj) {
					x.Obj.Shared = true
				}
				walk(x.Obj.V)
			}
		case Slice:
			if x.Base.Obj != nil && !seen[x.Base.Obj] {
				seen[x.Base.Obj] = true
				x.Base.Obj.Shared = true
				walk(x.Base.Obj.V)
			}
		case *StructV:
			for _, f := range x.F {
				walk(f)
			}
		case *ArrayV:
			if len(x.E) > 0 {
				if _, scalar := x.E[0].(*Term); scalar {
					return
				}
			}
			for _, e := range x.E {
				walk(e)
			}
		case *MapV:
			if x != nil && !m.sharedMaps()[x] {
				m.sharedMaps()[x] = true
				for i := range x.Keys {
					walk(x.Keys[i])
					walk(x.Vals[i])
				}
			}
		case Iface:
			walk(x.V)
		case Tuple:
			for _, e := range x {
				walk(e)
			}
		}
	}
	walk(v)
}

func (m *Machine) isLockObj(o *Object) bool {
	if n, ok := o.T.(*types.Named); ok && n.Obj().Pkg() != nil && n.Obj().Pkg().Path() == "sync" {
		return true
	}
	return false
}

// ---------------------------------------------------------------------------
// sync intrinsics

func recvPtr(args []Value) Ptr { return args[0].(Ptr) }

func init() {
	reg := func(name string, f Intrinsic) { defaultIntrinsics[name] = f }
	reg("(*sync.Mutex).Lock", func(m *Machine, fn *ssa.Function, a []Value) Value { m.lockAcquire(recvPtr(a), true); return nil })
	reg("(*sync.Mutex).Unlock", func(m *Machine, fn *ssa.Function, a []Value) Value { m.lockRelease(recvPtr(a), true); return nil })
	reg("(*sync.RWMutex).Lock", func(m *Machine, fn *ssa.Function, a []Value) Value { m.lockAcquire(recvPtr(a), true); return nil })
	reg("(*sync.RWMutex).Unlock", func(m *Machine, fn *ssa.Function, a []Value) Value { m.lockRelease(recvPtr(a), true); return nil })
	reg("(*sync.RWMutex).RLock", func(m *Machine, fn *ssa.Function, a []Value) Value { m.lockAcquire(recvPtr(a), false); return nil })
	reg("(*sync.RWMutex).RUnlock", func(m *Machine, fn *ssa.Function, a []Value) Value { m.lockRelease(recvPtr(a), false); return nil })
	reg("(*sync.Mutex).TryLock", func(m *Machine, fn *ssa.Function, a []Value) Value {
		l := m.Mon.lock(recvPtr(a))
		if l.writer == 0 && l.readers == 0 {
			l.writer = m.Sched.cur.id + 1
			return m.S.True
		}
		return m.S.False
	})
	// sync.NewCond(l Locker) *Cond — the Cond object is real (struct with field L), we only model the methods.
	reg("sync.NewCond", func(m *Machine, fn *ssa.Function, a []Value) Value {
		ct := fn.Signature.Results().At(0).Type().(*types.Pointer).Elem()
		o := m.newObject(ct, m.zero(ct), "cond")
		st := ct.Underlying().(*types.Struct)
		for i := 0; i < st.NumFields(); i++ {
			if st.Field(i).Name() == "L" {
				o.V.(*StructV).F[i] = a[0]
			}
		}
		return Ptr{Obj: o}
	})
	condLocker := func(m *Machine, c Ptr) Iface {
		st := c.Obj.T.Underlying().(*types.Struct)
		for i := 0; i < st.NumFields(); i++ {
			if st.Field(i).Name() == "L" {
				return (*m.cell(sub(c, i))).(Iface)
			}
		}
		panic("sync.Cond without L")
	}
	lockerCall := func(m *Machine, l Iface, name string) {
		fn := m.P.Method(l.T, name)
		if fn == nil {
			m.unsupported("Locker method " + name + " on " + l.T.String())
		}
		m.CallFunction(fn, []Value{l.V}, nil)
	}
	reg("(*sync.Cond).Wait", func(m *Machine, fn *ssa.Function, a []Value) Value {
		c := recvPtr(a)
		cs := m.Mon.cond(c)
		w := &condWaiter{thread: m.Sched.cur.id}
		cs.waiters = append(cs.waiters, w)
		l := condLocker(m, c)
		lockerCall(m, l, "Unlock")
		m.Yield(func() bool { return w.signalled }, "Cond.Wait")
		lockerCall(m, l, "Lock")
		return nil
	})
	// primitive.WaitTimeout: a cond wait that may also return because the timeout fired
	// (at any moment; at most 3 timeouts per path). Its real body (goroutine + select on time.After)
	// is explored separately by C16's thorough tier.
	reg("github.com/goose-lang/primitive.WaitTimeout", func(m *Machine, fn *ssa.Function, a []Value) Value {
		c := recvPtr(a)
		cs := m.Mon.cond(c)
		w := &condWaiter{thread: m.Sched.cur.id}
		cs.waiters = append(cs.waiters, w)
		l := condLocker(m, c)
		lockerCall(m, l, "Unlock")
		n, _ := m.Extra["timeouts"].(int)
		if n < 3 {
			m.Extra["timeouts"] = n + 1
			m.Yield(nil, "WaitTimeout")
			if !w.signalled {
				for i, x := range cs.waiters {
					if x == w {
						cs.waiters = append(append([]*condWaiter{}, cs.waiters[:i]...), cs.waiters[i+1:]...)
					}
				}
			}
		} else {
			m.Yield(func() bool { return w.signalled }, "WaitTimeout")
		}
		lockerCall(m, l, "Lock")
		return nil
	})
	reg("(*sync.Cond).Signal", func(m *Machine, fn *ssa.Function, a []Value) Value {
		cs := m.Mon.cond(recvPtr(a))
		if len(cs.waiters) > 0 {
			cs.waiters[0].signalled = true
			cs.waiters = cs.waiters[1:]
		}
		return nil
	})
	reg("(*sync.Cond).Broadcast", func(m *Machine, fn *ssa.Function, a []Value) Value {
		cs := m.Mon.cond(recvPtr(a))
		for _, w := range cs.waiters {
			w.signalled = true
		}
		cs.waiters = nil
		return nil
	})
	reg("(*sync.WaitGroup).Add", func(m *Machine, fn *ssa.Function, a []Value) Value {
		wg := m.Mon.wg(recvPtr(a))
		d := a[1].(*Term)
		wg.n += int64(m.ConcreteInt(d, "WaitGroup.Add"))
		if wg.n < 0 {
			m.goPanicStr("sync: negative WaitGroup counter")
		}
		return nil
	})
	reg("(*sync.WaitGroup).Done", func(m *Machine, fn *ssa.Function, a []Value) Value {
		wg := m.Mon.wg(recvPtr(a))
		wg.n--
		if wg.n < 0 {
			m.goPanicStr("sync: negative WaitGroup counter")
		}
		ls := &lockState{vc: wg.vc}
		m.hbRelease(ls)
		wg.vc = ls.vc
		return nil
	})
	reg("(*sync.WaitGroup).Wait", func(m *Machine, fn *ssa.Function, a []Value) Value {
		wg := m.Mon.wg(recvPtr(a))
		m.Yield(func() bool { return wg.n == 0 }, "WaitGroup.Wait")
		m.hbAcquire(&lockState{vc: wg.vc})
		return nil
	})
}

func (mon *Monitor) cond(p Ptr) *condState {
	k := ptrKey(p)
	if mon.conds[k] == nil {
		mon.conds[k] = &condState{}
	}
	return mon.conds[k]
}

func (mon *Monitor) wg(p Ptr) *wgState {
	k := ptrKey(p)
	if mon.wgs[k] == nil {
		mon.wgs[k] = &wgState{}
	}
	return mon.wgs[k]
}

// ---------------------------------------------------------------------------
// channels

type ChanV struct {
	id     int
	cap    int
	buf    []Value
	closed bool
	sendq  []*sendItem
	elem   types.Type
	timer  bool // fires at a nondeterministic moment
	fired  bool
	exhausted bool // the per-path budget of timer firings is used up: this timer never fires
	// hb: happens-before clock of the channel. A send or close releases into it, a receive
	// acquires from it (one clock per channel: a superset of Go's per-message edges, so the race
	// check never reports a pair the memory model orders)
	hb lockState
}

type sendItem struct {
	v     Value
	taken bool
}

func (m *Machine) newChan(size int, elem types.Type) *ChanV {
	m.nextMap++
	return &ChanV{id: m.nextMap, cap: size, elem: elem}
}

// newTimer creates a timer channel; at most 3 timers per path are allowed to fire (bounded unfairness).
func (m *Machine) newTimer(elem types.Type) *ChanV {
	c := m.newChan(1, elem)
	c.timer = true
	n, _ := m.Extra["timers"].(int)
	m.Extra["timers"] = n + 1
	if n >= 3 {
		c.exhausted = true
	}
	return c
}

func (c *ChanV) recvReady() bool {
	return len(c.buf) > 0 || len(c.sendq) > 0 || c.closed || (c.timer && !c.exhausted)
}

func (c *ChanV) sendReady() bool {
	return c.closed || len(c.buf) < c.cap || c.recvWaiting() > 0
}

func (c *ChanV) recvWaiting() int { return 0 }

func (m *Machine) chanSend(c *ChanV, v Value) {
	if c == nil {
		m.Yield(func() bool { return false }, "send on nil chan")
	}
	m.Yield(nil, "chan send")
	if c.closed {
		m.goPanicStr("send on closed channel")
	}
	// (every operation on a channel both acquires and releases the channel's clock: a superset of
	// Go's edges — e.g. "the k-th receive is synchronized before the completion of the k+C-th
	// send", which is what makes a buffered channel usable as a mutex)
	m.hbAcquire(&c.hb)
	m.hbRelease(&c.hb)
	if len(c.buf) < c.cap {
		c.buf = append(c.buf, copyVal(v))
		return
	}
	it := &sendItem{v: copyVal(v)}
	c.sendq = append(c.sendq, it)
	m.Yield(func() bool { return it.taken || c.closed }, "chan send (blocked)")
	m.hbAcquire(&c.hb) // the send completes after the receive that made room for it
	if !it.taken {
		m.goPanicStr("send on closed channel")
	}
}

func (m *Machine) chanTake(c *ChanV) (Value, bool) {
	if len(c.buf) > 0 {
		v := c.buf[0]
		c.buf = c.buf[1:]
		if len(c.sendq) > 0 {
			it := c.sendq[0]
			c.sendq = c.sendq[1:]
			it.taken = true
			c.buf = append(c.buf, it.v)
		}
		return v, true
	}
	if len(c.sendq) > 0 {
		it := c.sendq[0]
		c.sendq = c.sendq[1:]
		it.taken = true
		return it.v, true
	}
	if c.timer {
		c.fired = true
		c.timer = false
		return m.zero(c.elem), true
	}
	return m.zero(c.elem), false
}

func (m *Machine) chanRecv(c *ChanV, commaOk bool, t types.Type) Value {
	if c == nil {
		m.Yield(func() bool { return false }, "recv on nil chan")
	}
	m.Yield(c.recvReady, "chan recv")
	v, ok := m.chanTake(c)
	m.hbAcquire(&c.hb)
	m.hbRelease(&c.hb)
	if commaOk {
		return Tuple{v, m.S.Bool(ok)}
	}
	return v
}

func (m *Machine) chanClose(c *ChanV) {
	if c == nil {
		m.goPanicStr("close of nil channel")
	}
	if c.closed {
		m.goPanicStr("close of closed channel")
	}
	m.hbRelease(&c.hb)
	c.closed = true
	m.Yield(nil, "close")
}

func (m *Machine) selectOp(fr *frame, i *ssa.Select) Value {
	type sc struct {
		ch   *ChanV
		send bool
		v    Value
	}
	var cases []sc
	for _, st := range i.States {
		c := sc{ch: m.get(fr, st.Chan).(*ChanV), send: st.Dir == types.SendOnly}
		if c.send {
			c.v = m.get(fr, st.Send)
		}
		cases = append(cases, c)
	}
	ready := func() []int {
		var r []int
		for k, c := range cases {
			if c.ch == nil {
				continue
			}
			if c.send && c.ch.sendReady() || !c.send && c.ch.recvReady() {
				r = append(r, k)
			}
		}
		return r
	}
	m.Yield(nil, "select")
	var rs []int
	for {
		rs = ready()
		// a pending timer may also simply not have fired yet: allow waiting for others
		onlyTimers := len(rs) > 0
		for _, k := range rs {
			if !(cases[k].ch.timer && !cases[k].send) {
				onlyTimers = false
			}
		}
		if len(rs) > 0 && !(onlyTimers && m.othersRunnable() && m.timerWaits() && m.Choose(2, "timer-wait") == 1) {
			break
		}
		if len(rs) == 0 && !i.Blocking {
			break
		}
		if len(rs) == 0 {
			m.Yield(func() bool { return len(ready()) > 0 }, "select (blocked)")
		} else {
			m.yieldToOther("select (timer pending)")
		}
	}
	// result tuple: (index, recvOk, recv values...)
	res := Tuple{nil, m.S.False}
	nrecv := 0
	for _, st := range i.States {
		if st.Dir == types.RecvOnly {
			nrecv++
		}
	}
	recvVals := make([]Value, 0, nrecv)
	for _, st := range i.States {
		if st.Dir == types.RecvOnly {
			recvVals = append(recvVals, m.zero(st.Chan.Type().Underlying().(*types.Chan).Elem()))
		}
	}
	if len(rs) == 0 {
		res[0] = m.S.Const(64, ^uint64(0)) // -1: default
		return append(res, recvVals...)
	}
	pick := rs[m.Choose(len(rs), "select")]
	res[0] = m.S.Const(64, uint64(pick))
	c := cases[pick]
	if c.send {
		if c.ch.closed {
			m.goPanicStr("send on closed channel")
		}
		m.hbRelease(&c.ch.hb)
		if len(c.ch.buf) < c.ch.cap {
			c.ch.buf = append(c.ch.buf, copyVal(c.v))
		} else {
			m.unsupported("select send on unbuffered channel")
		}
	} else {
		v, ok := m.chanTake(c.ch)
		m.hbAcquire(&c.ch.hb)
		res[1] = m.S.Bool(ok)
		ri := 0
		for k, st := range i.States {
			if st.Dir == types.RecvOnly {
				if k == pick {
					recvVals[ri] = v
				}
				ri++
			}
		}
	}
	return append(res, recvVals...)
}

func (m *Machine) othersRunnable() bool {
	for _, th := range m.Sched.threads {
		if th != m.Sched.cur && !th.done && (th.canRun == nil || th.canRun()) {
			return true
		}
	}
	return false
}

// yieldToOther forces a switch to some other runnable thread.
func (m *Machine) yieldToOther(what string) {
	t := m.Sched.cur
	t.skipOnce = true
	m.Yield(nil, what)
	t.skipOnce = false
}

// timerWaits bounds how often a pending timer may be left un-fired in favour of other threads.
func (m *Machine) timerWaits() bool {
	n, _ := m.Extra["timerwaits"].(int)
	if n >= 3 {
		return false
	}
	m.Extra["timerwaits"] = n + 1
	return true
}
