package engine

import (
	"fmt"
	"go/types"
	"os"

	"golang.org/x/tools/go/ssa"
)

// The harness API. Harness files declare these functions without bodies; under
// the engine they are intercepted by name, natively they are provided by
// harness/native (replay mode).
func init() {
	reg := func(name string, f Intrinsic) { defaultIntrinsics["verif:"+name] = f }
	nd := func(w int) Intrinsic {
		return func(m *Machine, fn *ssa.Function, a []Value) Value {
			return m.Nondet(concStrArg(m, a[0], "nondet name"), w)
		}
	}
	reg("verifNondetU64", nd(64))
	reg("verifNondetInt", nd(64))
	reg("verifNondetU32", nd(32))
	reg("verifNondetU8", nd(8))
	reg("verifNondetBool", nd(0))
	reg("verifNondetBytes", func(m *Machine, fn *ssa.Function, a []Value) Value {
		n := m.ConcreteInt(a[1].(*Term), "nondet bytes length")
		return m.BytesToSlice(m.NondetBytes(concStrArg(m, a[0], "nondet name"), n))
	})
	reg("verifNondetString", func(m *Machine, fn *ssa.Function, a []Value) Value {
		n := m.ConcreteInt(a[1].(*Term), "nondet string length")
		return Str{m.NondetBytes(concStrArg(m, a[0], "nondet name"), n)}
	})
	reg("verifAssume", func(m *Machine, fn *ssa.Function, a []Value) Value {
		c := a[0].(*Term)
		if !c.IsConst() && !m.Feasible(c) {
			m.end("assume", "assumption infeasible")
		}
		m.Assume(c)
		return nil
	})
	reg("verifAssert", func(m *Machine, fn *ssa.Function, a []Value) Value {
		m.Assert(concStrArg(m, a[0], "label"), a[1].(*Term))
		return nil
	})
	reg("verifAssertExcept", func(m *Machine, fn *ssa.Function, a []Value) Value {
		m.AssertExcept(concStrArg(m, a[0], "label"), a[1].(*Term), concStrArg(m, a[2], "finding"), a[3].(*Term))
		return nil
	})
	reg("verifCover", func(m *Machine, fn *ssa.Function, a []Value) Value {
		m.Cover(concStrArg(m, a[0], "label"))
		return nil
	})
	reg("verifNote", func(m *Machine, fn *ssa.Function, a []Value) Value {
		m.Note(a[0].(Str).String())
		return nil
	})
	reg("verifChoose", func(m *Machine, fn *ssa.Function, a []Value) Value {
		n := m.ConcreteInt(a[0].(*Term), "choose bound")
		return m.S.Const(64, uint64(m.Choose(n, "choose")))
	})
	reg("verifTry", func(m *Machine, fn *ssa.Function, a []Value) Value {
		gp := m.Try(func() { m.CallClosure(a[0].(*Closure), nil) })
		if gp != nil && os.Getenv("VERIF_DEBUG") != "" {
			fmt.Fprintln(os.Stderr, "verifTry caught:", gp.Msg)
		}
		return m.S.Bool(gp != nil)
	})
	reg("verifDeadlocks", func(m *Machine, fn *ssa.Function, a []Value) Value {
		dead := false
		func() {
			depth := m.depth
			defer func() {
				if r := recover(); r != nil {
					if pe, ok := r.(*pathEnd); ok && pe.Kind == "deadlock" {
						dead = true
						m.depth = depth
						m.Note("deadlock: " + pe.Msg)
						return
					}
					panic(r)
				}
			}()
			m.CallClosure(a[0].(*Closure), nil)
		}()
		return m.S.Bool(dead)
	})
	reg("verifBytesEq", func(m *Machine, fn *ssa.Function, a []Value) Value {
		x, y := a[0].(Slice), a[1].(Slice)
		if x.Len != y.Len {
			return m.S.False
		}
		return m.valEq(Str{m.SliceBytes(x)}, Str{m.SliceBytes(y)})
	})
	reg("verifAnd", func(m *Machine, fn *ssa.Function, a []Value) Value { return m.S.BAnd(a[0].(*Term), a[1].(*Term)) })
	reg("verifOr", func(m *Machine, fn *ssa.Function, a []Value) Value { return m.S.BOr(a[0].(*Term), a[1].(*Term)) })
	reg("verifImplies", func(m *Machine, fn *ssa.Function, a []Value) Value {
		return m.S.Implies(a[0].(*Term), a[1].(*Term))
	})
	ite := func(m *Machine, fn *ssa.Function, a []Value) Value {
		return m.S.Ite(a[0].(*Term), a[1].(*Term), a[2].(*Term))
	}
	reg("verifIteU64", ite)
	reg("verifIteU8", ite)
	reg("verifIteInt", ite)
	reg("verifIteBool", ite)
	reg("verifMapOrder", func(m *Machine, fn *ssa.Function, a []Value) Value {
		o := *m.Opt
		o.MapOrderNondet = a[0].(*Term).IsTrue()
		m.Opt = &o
		return nil
	})
	// lock monitor
	reg("verifMonitor", func(m *Machine, fn *ssa.Function, a []Value) Value {
		m.Mon.Enabled = a[0].(*Term).IsTrue()
		return nil
	})
	reg("verifGuardedBy", func(m *Machine, fn *ssa.Function, a []Value) Value {
		// accepts a pointer to a lock, or a struct (value or pointer) whose lock fields — directly, in
		// nested structs, behind pointers or in slice elements — are the guards; a lock held BY VALUE
		// inside a struct value that is itself not addressable has no stable identity and registers
		// nothing
		iv := a[0].(Iface)
		seen := map[*Object]bool{}
		var scan func(v Value, t types.Type, at *Ptr, depth int)
		scan = func(v Value, t types.Type, at *Ptr, depth int) {
			if depth > 6 {
				return
			}
			switch x := v.(type) {
			case Ptr:
				if x.Obj == nil {
					return
				}
				pt, ok := t.Underlying().(*types.Pointer)
				if !ok {
					return
				}
				if isSyncLockType(pt.Elem()) {
					m.Mon.guards[ptrKey(x)] = true
					return
				}
				if _, isStruct := pt.Elem().Underlying().(*types.Struct); isStruct && !seen[x.Obj] {
					seen[x.Obj] = true
					scan(*m.cell(x), pt.Elem(), &x, depth+1)
				}
			case *StructV:
				st, ok := t.Underlying().(*types.Struct)
				if !ok {
					return
				}
				for i, f := range x.F {
					ft := st.Field(i).Type()
					switch {
					case isSyncLockType(ft):
						if at != nil {
							m.Mon.guards[ptrKey(sub(*at, i))] = true
						}
					default:
						var fat *Ptr
						if at != nil {
							p := sub(*at, i)
							fat = &p
						}
						scan(f, ft, fat, depth+1)
					}
				}
			case Slice:
				st, ok := t.Underlying().(*types.Slice)
				if !ok || x.Base.Obj == nil {
					return
				}
				if _, isStruct := st.Elem().Underlying().(*types.Struct); !isStruct {
					if _, isPtr := st.Elem().Underlying().(*types.Pointer); !isPtr {
						return
					}
				}
				arr, ok := (*m.cell(x.Base)).(*ArrayV)
				if !ok {
					return
				}
				for i := 0; i < x.Len && x.Off+i < len(arr.E); i++ {
					ep := sub(x.Base, x.Off+i)
					scan(arr.E[x.Off+i], st.Elem(), &ep, depth+1)
				}
			}
		}
		scan(iv.V, iv.T, nil, 0)
		return nil
	})
	reg("verifGuards", func(m *Machine, fn *ssa.Function, a []Value) Value {
		return m.S.Const(64, uint64(len(m.Mon.guards)))
	})
	reg("verifSharedReach", func(m *Machine, fn *ssa.Function, a []Value) Value {
		m.MarkShared(a[0].(Iface).V)
		return nil
	})
	reg("verifUnprotected", func(m *Machine, fn *ssa.Function, a []Value) Value {
		for _, u := range m.Mon.Unprotected {
			m.Note("unprotected: " + u)
		}
		return m.S.Const(64, uint64(len(m.Mon.Unprotected)))
	})
	reg("verifProtected", func(m *Machine, fn *ssa.Function, a []Value) Value {
		return m.S.Const(64, uint64(m.Mon.Protected))
	})
	reg("verifSections", func(m *Machine, fn *ssa.Function, a []Value) Value {
		return m.S.Const(64, uint64(m.Mon.Sections))
	})
	reg("verifLocksFree", func(m *Machine, fn *ssa.Function, a []Value) Value {
		return m.S.Bool(!m.Mon.AnyHeld())
	})
	reg("verifIsConcrete", func(m *Machine, fn *ssa.Function, a []Value) Value {
		t, ok := a[0].(*Term)
		return m.S.Bool(ok && t.IsConst())
	})
	reg("verifTier", func(m *Machine, fn *ssa.Function, a []Value) Value { return m.S.Const(64, uint64(m.Opt.Tier)) })
	reg("verifNative", func(m *Machine, fn *ssa.Function, a []Value) Value { return m.S.False })
	reg("verifRaceDetect", func(m *Machine, fn *ssa.Function, a []Value) Value {
		m.Extra["raceon"] = a[0].(*Term).IsTrue()
		return nil
	})
	reg("verifRaces", func(m *Machine, fn *ssa.Function, a []Value) Value {
		rs, _ := m.Extra["races"].([]string)
		for _, r := range rs {
			m.Note("race: " + r)
		}
		return m.S.Const(64, uint64(len(rs)))
	})
	reg("verifYield", func(m *Machine, fn *ssa.Function, a []Value) Value { m.Yield(nil, "verifYield"); return nil })
	reg("verifSwitches", func(m *Machine, fn *ssa.Function, a []Value) Value {
		return m.S.Const(64, uint64(m.Sched.Switches))
	})
}

// Try runs f and returns the Go panic it raised, if any (path-ending signals pass through).
func (m *Machine) Try(f func()) (gp *GoPanic) {
	depth := m.depth
	nfr := len(m.panicFrs)
	defer func() {
		if r := recover(); r != nil {
			if p, ok := r.(*GoPanic); ok {
				gp = p
				m.depth = depth
				m.panicFrs = m.panicFrs[:nfr]
				return
			}
			panic(r)
		}
	}()
	f()
	return nil
}

func (m *Machine) String() string { return fmt.Sprintf("machine(steps=%d)", m.steps) }

func isSyncLockType(t types.Type) bool {
	n, ok := t.(*types.Named)
	return ok && n.Obj().Pkg() != nil && n.Obj().Pkg().Path() == "sync" && (n.Obj().Name() == "Mutex" || n.Obj().Name() == "RWMutex")
}
