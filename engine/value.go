package engine

import (
	"fmt"
	"go/types"
	"strings"

	"golang.org/x/tools/go/ssa"
)

// Value is one of:
//
//	*Term      integers (W = bit width) and booleans (W = 0)
//	Str        string: concrete length, symbolic bytes
//	Ptr        pointer (Obj == nil ⇒ nil)
//	Slice      slice header (Base.Obj == nil ⇒ nil slice)
//	*StructV   struct value
//	*ArrayV    array value
//	Tuple      multiple results
//	*MapV      map (nil ⇒ nil map)
//	Iface      interface value (T == nil ⇒ nil interface)
//	*Closure   function value (nil ⇒ nil func)
//	*ChanV     channel
//	Opaque     host-level object carried through the program (kernel handles etc.)
type Value interface{}

type Str struct{ B []*Term }

type Object struct {
	ID   int
	V    Value
	T    types.Type
	Name string
	// lock monitor
	Shared bool
}

type Ptr struct {
	Obj  *Object
	Path []int
	// Sym, when set, is a symbolic index into the scalar array Path points to (in range by construction)
	Sym *Term
}

type Slice struct {
	Base          Ptr // points to an *ArrayV
	Off, Len, Cap int
}

type StructV struct{ F []Value }
type ArrayV struct{ E []Value }
type Tuple []Value

type MapV struct {
	ID   int
	Keys []Value
	Vals []Value
	KT   types.Type
	VT   types.Type
}

type Iface struct {
	T types.Type
	V Value
}

type Closure struct {
	Fn   *ssa.Function
	Env  []Value
	Bltn *ssa.Builtin
	// Host is a host-implemented function value (used by intrinsics that return funcs).
	Host func(m *Machine, args []Value) Value
	Name string
}

type Opaque struct {
	Kind string
	V    interface{}
}

func IsNilPtr(p Ptr) bool { return p.Obj == nil }

func ConcStr(s string, st *Store) Str {
	b := make([]*Term, len(s))
	for i := 0; i < len(s); i++ {
		b[i] = st.Const(8, uint64(s[i]))
	}
	return Str{b}
}

// Concrete returns the Go string if all bytes are constants.
func (s Str) Concrete() (string, bool) {
	var sb strings.Builder
	for _, t := range s.B {
		if !t.IsConst() {
			return "", false
		}
		sb.WriteByte(byte(t.Val))
	}
	return sb.String(), true
}

func (s Str) String() string {
	if c, ok := s.Concrete(); ok {
		return fmt.Sprintf("%q", c)
	}
	parts := make([]string, len(s.B))
	for i, t := range s.B {
		if t.IsConst() {
			parts[i] = fmt.Sprintf("%q", rune(t.Val))
		} else {
			parts[i] = t.String()
		}
	}
	return "str[" + strings.Join(parts, ",") + "]"
}

// copyVal deep-copies aggregates (struct/array values have value semantics).
func copyVal(v Value) Value {
	switch x := v.(type) {
	case *StructV:
		n := &StructV{F: make([]Value, len(x.F))}
		for i, f := range x.F {
			n.F[i] = copyVal(f)
		}
		return n
	case *ArrayV:
		n := &ArrayV{E: make([]Value, len(x.E))}
		for i, e := range x.E {
			n.E[i] = copyVal(e)
		}
		return n
	case Tuple:
		n := make(Tuple, len(x))
		for i, e := range x {
			n[i] = copyVal(e)
		}
		return n
	}
	return v
}

func intWidth(b *types.Basic) (w int, signed bool, ok bool) {
	switch b.Kind() {
	case types.Int8:
		return 8, true, true
	case types.Int16:
		return 16, true, true
	case types.Int32:
		return 32, true, true
	case types.Int64, types.Int:
		return 64, true, true
	case types.Uint8:
		return 8, false, true
	case types.Uint16:
		return 16, false, true
	case types.Uint32:
		return 32, false, true
	case types.Uint64, types.Uint, types.Uintptr:
		return 64, false, true
	case types.UntypedInt, types.UntypedRune:
		return 64, true, true
	}
	return 0, false, false
}

func isSigned(t types.Type) bool {
	if b, ok := t.Underlying().(*types.Basic); ok {
		_, s, _ := intWidth(b)
		return s
	}
	return false
}

func widthOf(t types.Type) int {
	if b, ok := t.Underlying().(*types.Basic); ok {
		if w, _, ok := intWidth(b); ok {
			return w
		}
	}
	return -1
}

func isString(t types.Type) bool {
	b, ok := t.Underlying().(*types.Basic)
	return ok && b.Info()&types.IsString != 0
}

func isBool(t types.Type) bool {
	b, ok := t.Underlying().(*types.Basic)
	return ok && b.Info()&types.IsBoolean != 0
}

func isFloat(t types.Type) bool {
	b, ok := t.Underlying().(*types.Basic)
	return ok && b.Info()&(types.IsFloat|types.IsComplex) != 0
}

// zero returns the zero value of type t.
func (m *Machine) zero(t types.Type) Value {
	switch u := t.Underlying().(type) {
	case *types.Basic:
		if w, _, ok := intWidth(u); ok {
			return m.S.Const(w, 0)
		}
		switch {
		case u.Info()&types.IsBoolean != 0:
			return m.S.False
		case u.Info()&types.IsString != 0:
			return Str{}
		case u.Kind() == types.UnsafePointer:
			return Ptr{}
		case u.Kind() == types.UntypedNil, u.Kind() == types.Invalid:
			return nil
		case u.Info()&types.IsFloat != 0:
			return Opaque{"float", float64(0)}
		}
	case *types.Pointer:
		return Ptr{}
	case *types.Slice:
		return Slice{}
	case *types.Map:
		return (*MapV)(nil)
	case *types.Chan:
		return (*ChanV)(nil)
	case *types.Signature:
		return (*Closure)(nil)
	case *types.Interface:
		return Iface{}
	case *types.Struct:
		s := &StructV{F: make([]Value, u.NumFields())}
		for i := range s.F {
			s.F[i] = m.zero(u.Field(i).Type())
		}
		return s
	case *types.Array:
		n := int(u.Len())
		a := &ArrayV{E: make([]Value, n)}
		if n > 0 {
			z := m.zero(u.Elem())
			switch z.(type) {
			case *StructV, *ArrayV:
				for i := range a.E {
					a.E[i] = copyVal(z)
				}
			default:
				for i := range a.E {
					a.E[i] = z
				}
			}
		}
		return a
	case *types.Tuple:
		tu := make(Tuple, u.Len())
		for i := range tu {
			tu[i] = m.zero(u.At(i).Type())
		}
		return tu
	}
	m.unsupported("zero value of " + t.String())
	return nil
}

// ---------------------------------------------------------------------------
// heap navigation

func (m *Machine) newObject(t types.Type, v Value, name string) *Object {
	m.nextObj++
	return &Object{ID: m.nextObj, V: v, T: t, Name: name}
}

func (m *Machine) cell(p Ptr) *Value {
	if p.Obj == nil {
		m.goPanicStr("runtime error: invalid memory address or nil pointer dereference")
	}
	cur := &p.Obj.V
	for _, i := range p.Path {
		switch c := (*cur).(type) {
		case *StructV:
			cur = &c.F[i]
		case *ArrayV:
			if i < 0 || i >= len(c.E) {
				m.goPanicStr("runtime error: index out of range")
			}
			cur = &c.E[i]
		default:
			panic(fmt.Sprintf("engine: bad pointer path into %T", *cur))
		}
	}
	return cur
}

func (m *Machine) load(p Ptr) Value {
	m.access(p, false)
	if p.Sym != nil {
		return m.selectSym(p)
	}
	return copyVal(*m.cell(p))
}

func (m *Machine) store(p Ptr, v Value) {
	m.access(p, true)
	if p.Sym != nil {
		arr := (*m.cell(Ptr{Obj: p.Obj, Path: p.Path})).(*ArrayV)
		nv := v.(*Term)
		for i := range arr.E {
			arr.E[i] = m.S.Ite(m.S.Eq(p.Sym, m.S.Const(p.Sym.W, uint64(i))), nv, arr.E[i].(*Term))
		}
		return
	}
	*m.cell(p) = copyVal(v)
}

// selectSym reads a scalar array at a symbolic index: an ite chain over the distinct element values.
func (m *Machine) selectSym(p Ptr) Value {
	s := m.S
	arr := (*m.cell(Ptr{Obj: p.Obj, Path: p.Path})).(*ArrayV)
	// group the indices by element value; the most frequent value becomes the default (else) branch
	count := map[*Term]int{}
	var order []*Term
	for _, e := range arr.E {
		t := e.(*Term)
		if count[t] == 0 {
			order = append(order, t)
		}
		count[t]++
	}
	def := order[0]
	for _, t := range order {
		if count[t] > count[def] {
			def = t
		}
	}
	conds := map[*Term]*Term{}
	for i, e := range arr.E {
		t := e.(*Term)
		if t == def {
			continue
		}
		c := s.Eq(p.Sym, s.Const(p.Sym.W, uint64(i)))
		if old, ok := conds[t]; ok {
			conds[t] = s.BOr(old, c)
		} else {
			conds[t] = c
		}
	}
	res := def
	for i := len(order) - 1; i >= 0; i-- {
		if order[i] != def {
			res = s.Ite(conds[order[i]], order[i], res)
		}
	}
	return res
}

func sub(p Ptr, i int) Ptr {
	np := make([]int, len(p.Path)+1)
	copy(np, p.Path)
	np[len(p.Path)] = i
	return Ptr{Obj: p.Obj, Path: np}
}

// sliceElem returns a pointer to element i (concrete) of s.
func sliceElem(s Slice, i int) Ptr { return sub(s.Base, s.Off+i) }

func ptrEq(a, b Ptr) bool {
	if a.Obj != b.Obj || len(a.Path) != len(b.Path) {
		return false
	}
	for i := range a.Path {
		if a.Path[i] != b.Path[i] {
			return false
		}
	}
	return true
}

// newArrayObj allocates a fresh backing array of n elements of type elem.
func (m *Machine) newArrayObj(elem types.Type, n int) Ptr {
	arr := m.zero(types.NewArray(elem, int64(n)))
	o := m.newObject(types.NewArray(elem, int64(n)), arr, "array")
	return Ptr{Obj: o}
}

// BytesToSlice allocates a []byte from terms.
func (m *Machine) BytesToSlice(b []*Term) Slice {
	a := &ArrayV{E: make([]Value, len(b))}
	for i, t := range b {
		a.E[i] = t
	}
	o := m.newObject(types.NewArray(types.Typ[types.Uint8], int64(len(b))), a, "bytes")
	return Slice{Base: Ptr{Obj: o}, Off: 0, Len: len(b), Cap: len(b)}
}

// SliceBytes reads the bytes of a []byte.
func (m *Machine) SliceBytes(s Slice) []*Term {
	out := make([]*Term, s.Len)
	if s.Len == 0 {
		return out
	}
	arr := (*m.cell(s.Base)).(*ArrayV)
	m.accessRange(s, false)
	for i := 0; i < s.Len; i++ {
		out[i] = arr.E[s.Off+i].(*Term)
	}
	return out
}

// SliceVals reads the elements of any slice.
func (m *Machine) SliceVals(s Slice) []Value {
	out := make([]Value, s.Len)
	if s.Len == 0 {
		return out
	}
	arr := (*m.cell(s.Base)).(*ArrayV)
	m.accessRange(s, false)
	for i := 0; i < s.Len; i++ {
		out[i] = copyVal(arr.E[s.Off+i])
	}
	return out
}

func (m *Machine) MakeSlice(elem types.Type, vals []Value) Slice {
	a := &ArrayV{E: make([]Value, len(vals))}
	copy(a.E, vals)
	o := m.newObject(types.NewArray(elem, int64(len(vals))), a, "slice")
	return Slice{Base: Ptr{Obj: o}, Off: 0, Len: len(vals), Cap: len(vals)}
}

// valEq builds the Bool term "a == b" for comparable values of the same type.
func (m *Machine) valEq(a, b Value) *Term {
	s := m.S
	switch x := a.(type) {
	case nil:
		return s.Bool(b == nil)
	case *Term:
		y, ok := b.(*Term)
		if !ok {
			return s.False
		}
		return s.Eq(x, y)
	case Str:
		y := b.(Str)
		if len(x.B) != len(y.B) {
			return s.False
		}
		cs := make([]*Term, len(x.B))
		for i := range x.B {
			cs[i] = s.Eq(x.B[i], y.B[i])
			if cs[i].IsFalse() {
				return s.False
			}
		}
		return s.BAndAll(cs)
	case Ptr:
		return s.Bool(ptrEq(x, b.(Ptr)))
	case *StructV:
		y := b.(*StructV)
		cs := make([]*Term, len(x.F))
		for i := range x.F {
			cs[i] = m.valEq(x.F[i], y.F[i])
		}
		return s.BAndAll(cs)
	case *ArrayV:
		y := b.(*ArrayV)
		cs := make([]*Term, len(x.E))
		for i := range x.E {
			cs[i] = m.valEq(x.E[i], y.E[i])
		}
		return s.BAndAll(cs)
	case Iface:
		y := b.(Iface)
		if x.T == nil || y.T == nil {
			return s.Bool(x.T == nil && y.T == nil)
		}
		if !types.Identical(x.T, y.T) {
			return s.False
		}
		return m.valEq(x.V, y.V)
	case *MapV:
		return s.Bool(x == b.(*MapV))
	case *ChanV:
		return s.Bool(x == b.(*ChanV))
	case *Closure:
		return s.Bool(x == b.(*Closure))
	case Slice:
		m.goPanicStr("runtime error: comparing uncomparable type (slice)")
	case Opaque:
		y, ok := b.(Opaque)
		return s.Bool(ok && x.Kind == y.Kind && x.V == y.V)
	}
	panic(fmt.Sprintf("engine: valEq on %T", a))
}

// strLess builds the Bool term a < b (lexicographic, unsigned bytes).
func (m *Machine) strLess(a, b Str) *Term {
	s := m.S
	n := len(a.B)
	if len(b.B) < n {
		n = len(b.B)
	}
	// from the end: res = (len(a) < len(b)) as tie-break
	res := s.Bool(len(a.B) < len(b.B))
	for i := n - 1; i >= 0; i-- {
		res = s.Ite(s.Eq(a.B[i], b.B[i]), res, s.ULt(a.B[i], b.B[i]))
	}
	return res
}

func describe(v Value) string {
	switch x := v.(type) {
	case nil:
		return "nil"
	case *Term:
		return x.String()
	case Str:
		return x.String()
	case Ptr:
		if x.Obj == nil {
			return "nilptr"
		}
		return fmt.Sprintf("&obj%d%v", x.Obj.ID, x.Path)
	case Slice:
		if x.Base.Obj == nil {
			return "nilslice"
		}
		return fmt.Sprintf("slice(obj%d%v+%d,len=%d,cap=%d)", x.Base.Obj.ID, x.Base.Path, x.Off, x.Len, x.Cap)
	case *StructV:
		parts := make([]string, len(x.F))
		for i, f := range x.F {
			parts[i] = describe(f)
		}
		return "{" + strings.Join(parts, ", ") + "}"
	case *ArrayV:
		return fmt.Sprintf("array[%d]", len(x.E))
	case Tuple:
		parts := make([]string, len(x))
		for i, f := range x {
			parts[i] = describe(f)
		}
		return "(" + strings.Join(parts, ", ") + ")"
	case Iface:
		if x.T == nil {
			return "nil-iface"
		}
		return "iface<" + x.T.String() + ">(" + describe(x.V) + ")"
	case *MapV:
		if x == nil {
			return "nilmap"
		}
		return fmt.Sprintf("map#%d[%d]", x.ID, len(x.Keys))
	case *Closure:
		if x == nil {
			return "nilfunc"
		}
		if x.Fn != nil {
			return "func " + x.Fn.String()
		}
		return "func " + x.Name
	case Opaque:
		return fmt.Sprintf("opaque<%s>(%v)", x.Kind, x.V)
	}
	return fmt.Sprintf("%T", v)
}

// Exported helpers for companion packages (translation validation).
func (m *Machine) NewObject(t types.Type, v Value, name string) *Object { return m.newObject(t, v, name) }
func (m *Machine) ValEq(a, b Value) *Term                                { return m.valEq(a, b) }
func (m *Machine) Load(p Ptr) Value                                      { return m.load(p) }
func (m *Machine) NewMap(kt, vt types.Type) *MapV {
	m.nextMap++
	return &MapV{ID: m.nextMap, KT: kt, VT: vt}
}
