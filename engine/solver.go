package engine

import (
	"bufio"
	"fmt"
	"io"
	"os"
	"os/exec"
	"strconv"
	"strings"
	"sync/atomic"
	"syscall"
	"time"
)

// Result of a satisfiability query.
type SatResult int

const (
	Unsat SatResult = iota
	Sat
	Unknown
)

func (r SatResult) String() string { return [...]string{"unsat", "sat", "unknown"}[r] }

// Global solver statistics (all workers).
var (
	StatQueries   atomic.Int64
	StatSolverNs  atomic.Int64
	StatUnknown   atomic.Int64
	StatFallbacks atomic.Int64
	StatErrors    atomic.Int64
)

// Solver drives one `z3 -in` process. Not safe for concurrent use.
type Solver struct {
	cmd       *exec.Cmd
	in        io.WriteCloser
	out       *bufio.Reader
	defined   map[int]bool
	script    []string // base-level script since the last Reset (for fall-back solvers)
	marker    int
	TimeoutMs int
	dead      bool
	// NoFallback disables the one-shot retries on z3-new / cvc5 after an unknown answer
	NoFallback bool
}

func NewSolver(timeoutMs int) *Solver {
	s := &Solver{TimeoutMs: timeoutMs}
	s.start()
	return s
}

func (s *Solver) start() {
	s.cmd = exec.Command("z3", "-in", "-smt2")
	s.cmd.SysProcAttr = &syscall.SysProcAttr{Pdeathsig: syscall.SIGKILL}
	in, _ := s.cmd.StdinPipe()
	out, _ := s.cmd.StdoutPipe()
	s.cmd.Stderr = s.cmd.Stdout
	s.in = in
	s.out = bufio.NewReaderSize(out, 1<<20)
	if err := s.cmd.Start(); err != nil {
		panic("cannot start z3: " + err.Error())
	}
	s.dead = false
	s.defined = map[int]bool{}
	s.script = nil
	s.send(fmt.Sprintf("(set-option :timeout %d)", s.TimeoutMs))
}

func (s *Solver) Close() {
	if s.cmd != nil && s.cmd.Process != nil {
		s.in.Close()
		s.cmd.Process.Kill()
		s.cmd.Wait()
	}
}

func (s *Solver) send(line string) {
	io.WriteString(s.in, line)
	io.WriteString(s.in, "\n")
}

// roundTrip sends commands and returns the output lines they produced.
func (s *Solver) roundTrip(cmds string) []string {
	s.marker++
	mark := "DONE-" + strconv.Itoa(s.marker)
	s.send(cmds)
	s.send("(echo \"" + mark + "\")")
	var lines []string
	for {
		line, err := s.out.ReadString('\n')
		line = strings.TrimSpace(line)
		if line == mark || line == "\""+mark+"\"" {
			return lines
		}
		if line != "" {
			lines = append(lines, line)
		}
		if err != nil {
			s.dead = true
			return append(lines, "(error \"solver died: "+err.Error()+"\")")
		}
	}
}

// Reset clears all assertions and definitions.
func (s *Solver) Reset() {
	if s.dead {
		s.Close()
		s.start()
		return
	}
	s.send("(reset)")
	s.send(fmt.Sprintf("(set-option :timeout %d)", s.TimeoutMs))
	s.defined = map[int]bool{}
	s.script = s.script[:0]
}

func (s *Solver) base(line string) {
	s.script = append(s.script, line)
	s.send(line)
}

// define makes sure every node of t has a definition at the base level.
func (s *Solver) define(t *Term) {
	if t.Op == OpConst || s.defined[t.ID] {
		return
	}
	// iterative post-order to avoid deep recursion on long chains
	type fr struct {
		t *Term
		i int
	}
	stack := []fr{{t, 0}}
	for len(stack) > 0 {
		f := &stack[len(stack)-1]
		if f.t.Op == OpConst || s.defined[f.t.ID] {
			stack = stack[:len(stack)-1]
			continue
		}
		if f.i < len(f.t.Args) {
			a := f.t.Args[f.i]
			f.i++
			if a.Op != OpConst && !s.defined[a.ID] {
				stack = append(stack, fr{a, 0})
			}
			continue
		}
		n := f.t
		s.defined[n.ID] = true
		if n.Op == OpVar {
			s.base("(declare-const " + n.Name + " " + sortStr(n.W) + ")")
		} else {
			s.base("(define-fun " + n.ref() + " () " + sortStr(n.W) + " " + n.body() + ")")
		}
		stack = stack[:len(stack)-1]
	}
}

// Assert adds a path constraint at the base level.
func (s *Solver) Assert(t *Term) {
	if t.IsTrue() {
		return
	}
	s.define(t)
	s.base("(assert " + t.ref() + ")")
}

// Check decides satisfiability of (base assertions ∧ extra). extra may be nil.
// When wantModel is set and the result is Sat, values for vars are returned.
func (s *Solver) Check(extra *Term, vars []*Term, wantModel bool) (SatResult, map[string]uint64) {
	StatQueries.Add(1)
	t0 := time.Now()
	defer func() { StatSolverNs.Add(int64(time.Since(t0))) }()
	if extra != nil {
		if extra.IsFalse() {
			return Unsat, nil
		}
		s.define(extra)
	}
	if wantModel {
		for _, v := range vars {
			s.define(v)
		}
	}
	q := "(push)\n"
	if extra != nil && !extra.IsTrue() {
		q += "(assert " + extra.ref() + ")\n"
	}
	q += "(check-sat)"
	lines := s.roundTrip(q)
	res := Unknown
	bad := false
	for _, l := range lines {
		switch {
		case l == "sat":
			res = Sat
		case l == "unsat":
			res = Unsat
		case l == "unknown":
			res = Unknown
		case strings.HasPrefix(l, "(error"):
			bad = true
		}
	}
	if bad {
		StatErrors.Add(1)
		fmt.Fprintf(os.Stderr, "solver error: %v\n", lines)
		res = Unknown
	}
	var model map[string]uint64
	if res == Sat && wantModel {
		model = s.getValues(vars)
	}
	s.roundTrip("(pop)")
	if res == Unknown {
		StatUnknown.Add(1)
		if s.NoFallback {
			return res, model
		}
		if r2, m2 := s.fallback(extra, vars, wantModel); r2 != Unknown {
			return r2, m2
		}
	}
	return res, model
}

func (s *Solver) getValues(vars []*Term) map[string]uint64 {
	model := map[string]uint64{}
	for i := 0; i < len(vars); i += 512 {
		j := i + 512
		if j > len(vars) {
			j = len(vars)
		}
		var sb strings.Builder
		sb.WriteString("(get-value (")
		for _, v := range vars[i:j] {
			sb.WriteString(v.Name)
			sb.WriteByte(' ')
		}
		sb.WriteString("))")
		lines := s.roundTrip(sb.String())
		parseValues(strings.Join(lines, " "), model)
	}
	return model
}

// parseValues parses "((x #x0f) (b true) (y #b101) (z (_ bv5 8)))".
func parseValues(txt string, model map[string]uint64) {
	toks := strings.Fields(strings.NewReplacer("(", " ( ", ")", " ) ").Replace(txt))
	for i := 0; i+2 < len(toks); i++ {
		if toks[i] != "(" || toks[i+1] == "(" || toks[i+1] == ")" {
			continue
		}
		name := toks[i+1]
		val := toks[i+2]
		switch {
		case val == "true":
			model[name] = 1
		case val == "false":
			model[name] = 0
		case strings.HasPrefix(val, "#x"):
			v, _ := strconv.ParseUint(val[2:], 16, 64)
			model[name] = v
		case strings.HasPrefix(val, "#b"):
			v, _ := strconv.ParseUint(val[2:], 2, 64)
			model[name] = v
		case val == "(" && i+4 < len(toks) && toks[i+3] == "_" && strings.HasPrefix(toks[i+4], "bv"):
			v, _ := strconv.ParseUint(toks[i+4][2:], 10, 64)
			model[name] = v
		}
	}
}

// fallback re-runs the whole query on z3-new and cvc5 as one-shot processes.
func (s *Solver) fallback(extra *Term, vars []*Term, wantModel bool) (SatResult, map[string]uint64) {
	StatFallbacks.Add(1)
	f, err := os.CreateTemp("", "vq*.smt2")
	if err != nil {
		return Unknown, nil
	}
	defer os.Remove(f.Name())
	w := bufio.NewWriter(f)
	fmt.Fprintln(w, "(set-option :produce-models true)")
	fmt.Fprintln(w, "(set-logic ALL)")
	for _, l := range s.script {
		fmt.Fprintln(w, l)
	}
	if extra != nil && !extra.IsTrue() {
		fmt.Fprintln(w, "(assert "+extra.ref()+")")
	}
	fmt.Fprintln(w, "(check-sat)")
	if wantModel && len(vars) > 0 {
		fmt.Fprint(w, "(get-value (")
		for _, v := range vars {
			fmt.Fprint(w, v.Name, " ")
		}
		fmt.Fprintln(w, "))")
	}
	w.Flush()
	f.Close()
	secs := strconv.Itoa(s.TimeoutMs/1000 + 1)
	for _, argv := range [][]string{
		{"z3-new", "-T:" + secs, f.Name()},
		{"cvc5", "--tlimit=" + strconv.Itoa(s.TimeoutMs), f.Name()},
	} {
		out, _ := exec.Command(argv[0], argv[1:]...).CombinedOutput()
		txt := string(out)
		if strings.Contains(txt, "(error") && !strings.HasPrefix(strings.TrimSpace(txt), "unsat") {
			continue
		}
		first := strings.TrimSpace(strings.SplitN(txt, "\n", 2)[0])
		switch first {
		case "unsat":
			return Unsat, nil
		case "sat":
			m := map[string]uint64{}
			if wantModel {
				rest := ""
				if i := strings.Index(txt, "\n"); i >= 0 {
					rest = txt[i+1:]
				}
				parseValues(rest, m)
			}
			return Sat, m
		}
	}
	return Unknown, nil
}

// solver pool: z3 processes are reused across explorations (start-up dominates small explorations)
var solverPool = make(chan *Solver, 64)

func acquireSolver(timeoutMs int) *Solver {
	select {
	case s := <-solverPool:
		if s.dead {
			s.Close()
			return NewSolver(timeoutMs)
		}
		s.TimeoutMs = timeoutMs
		return s
	default:
		return NewSolver(timeoutMs)
	}
}

func releaseSolver(s *Solver) {
	if s.dead {
		s.Close()
		return
	}
	select {
	case solverPool <- s:
	default:
		s.Close()
	}
}

// CloseSolvers terminates all pooled solver processes.
func CloseSolvers() {
	for {
		select {
		case s := <-solverPool:
			s.Close()
		default:
			return
		}
	}
}
