package engine

import (
	"go/types"
	"unicode/utf8"

	"golang.org/x/tools/go/ssa"
)

// findKey returns the index of key in mp (forking on symbolic equality), or -1.
func (m *Machine) findKey(mp *MapV, key Value) int {
	if mp == nil {
		return -1
	}
	for i, k := range mp.Keys {
		c := m.valEq(k, key)
		if c.IsConst() {
			if c.IsTrue() {
				return i
			}
			continue
		}
		if m.Branch(c) {
			return i
		}
	}
	return -1
}

func (m *Machine) mapLookup(mp *MapV, key Value) (Value, bool) {
	m.accessMap(mp, false)
	i := m.findKey(mp, key)
	if i < 0 {
		return nil, false
	}
	return mp.Vals[i], true
}

func (m *Machine) mapUpdate(mp *MapV, key, val Value) {
	m.accessMap(mp, true)
	i := m.findKey(mp, key)
	if i >= 0 {
		mp.Vals[i] = copyVal(val)
		return
	}
	mp.Keys = append(mp.Keys, copyVal(key))
	mp.Vals = append(mp.Vals, copyVal(val))
}

func (m *Machine) mapDelete(mp *MapV, key Value) {
	m.accessMap(mp, true)
	i := m.findKey(mp, key)
	if i < 0 {
		return
	}
	mp.Keys = append(append([]Value{}, mp.Keys[:i]...), mp.Keys[i+1:]...)
	mp.Vals = append(append([]Value{}, mp.Vals[:i]...), mp.Vals[i+1:]...)
}

// rangeIter is the state of a range loop over a map or string.
type rangeIter struct {
	mp      *MapV
	pending []Value // keys not yet visited (map)
	str     Str
	pos     int
	isStr   bool
}

func (m *Machine) newRange(x Value, t types.Type) Value {
	switch v := x.(type) {
	case *MapV:
		it := &rangeIter{mp: v}
		if v != nil {
			m.accessMap(v, false)
			it.pending = append(it.pending, v.Keys...)
		}
		return it
	case Str:
		return &rangeIter{str: v, isStr: true}
	}
	m.unsupported("range over " + t.String())
	return nil
}

func (m *Machine) rangeNext(it *rangeIter, i *ssa.Next) Value {
	s := m.S
	tup := i.Type().(*types.Tuple)
	if it.isStr {
		if it.pos >= len(it.str.B) {
			return Tuple{s.False, s.Const(64, 0), s.Const(32, 0)}
		}
		b := it.str.B[it.pos]
		if !b.IsConst() || !allConst(it.str.B[it.pos:min(it.pos+4, len(it.str.B))]) {
			r, size := m.decodeRuneSym(it.str.B[it.pos:])
			idx := it.pos
			it.pos += size
			return Tuple{s.True, s.Const(64, uint64(idx)), r}
		}
		// concrete: decode UTF-8 over the concrete prefix
		j := it.pos
		var raw []byte
		for j < len(it.str.B) && it.str.B[j].IsConst() && len(raw) < 4 {
			raw = append(raw, byte(it.str.B[j].Val))
			j++
		}
		r, size := decodeRune(raw)
		idx := it.pos
		it.pos += size
		return Tuple{s.True, s.Const(64, uint64(idx)), s.Const(32, uint64(r))}
	}
	// map: visit a still-present pending key
	for {
		if len(it.pending) == 0 {
			return Tuple{s.False, m.zero(tup.At(1).Type()), m.zero(tup.At(2).Type())}
		}
		// drop keys deleted since the range started
		var live []Value
		for _, k := range it.pending {
			for _, mk := range it.mp.Keys {
				if sameKeyObj(mk, k) {
					live = append(live, k)
					break
				}
			}
		}
		it.pending = live
		if len(live) == 0 {
			continue
		}
		pick := 0
		if m.Opt.MapOrderNondet && len(live) > 1 {
			pick = m.Choose(len(live), "maporder")
		}
		k := live[pick]
		it.pending = append(append([]Value{}, live[:pick]...), live[pick+1:]...)
		var v Value
		for j, mk := range it.mp.Keys {
			if sameKeyObj(mk, k) {
				v = it.mp.Vals[j]
			}
		}
		m.accessMap(it.mp, false)
		return Tuple{s.True, copyVal(k), copyVal(v)}
	}
}

// sameKeyObj is identity of stored keys (keys are never mutated in place).
func sameKeyObj(a, b Value) bool {
	switch x := a.(type) {
	case *Term:
		y, ok := b.(*Term)
		return ok && x == y
	case Str:
		y, ok := b.(Str)
		if !ok || len(x.B) != len(y.B) {
			return false
		}
		for i := range x.B {
			if x.B[i] != y.B[i] {
				return false
			}
		}
		return true
	case *StructV:
		y, ok := b.(*StructV)
		if !ok {
			return false
		}
		if x == y {
			return true
		}
		if len(x.F) != len(y.F) {
			return false
		}
		for i := range x.F {
			if !sameKeyObj(x.F[i], y.F[i]) {
				return false
			}
		}
		return true
	case Ptr:
		y, ok := b.(Ptr)
		return ok && ptrEq(x, y)
	case Iface:
		y, ok := b.(Iface)
		if !ok {
			return false
		}
		if x.T == nil || y.T == nil {
			return x.T == nil && y.T == nil
		}
		return types.Identical(x.T, y.T) && sameKeyObj(x.V, y.V)
	case *ArrayV:
		y, ok := b.(*ArrayV)
		if !ok || len(x.E) != len(y.E) {
			return false
		}
		for i := range x.E {
			if !sameKeyObj(x.E[i], y.E[i]) {
				return false
			}
		}
		return true
	}
	return a == b
}

func decodeRune(p []byte) (rune, int) {
	if len(p) == 0 {
		return utf8.RuneError, 1
	}
	return utf8.DecodeRune(p)
}

func allConst(ts []*Term) bool {
	for _, t := range ts {
		if !t.IsConst() {
			return false
		}
	}
	return true
}

// decodeRuneSym decodes the first UTF-8 sequence of bs (symbolic bytes), forking on the byte classes.
func (m *Machine) decodeRuneSym(bs []*Term) (*Term, int) {
	s := m.S
	c8 := func(v uint64) *Term { return s.Const(8, v) }
	in := func(b *Term, lo, hi uint64) *Term { return s.BAnd(s.ULe(c8(lo), b), s.ULe(b, c8(hi))) }
	bad := func() (*Term, int) { return s.Const(32, 0xFFFD), 1 }
	low6 := func(b *Term) *Term { return s.ZExt(s.Extract(b, 5, 0), 32) }
	b0 := bs[0]
	if m.Branch(s.ULt(b0, c8(0x80))) {
		return s.ZExt(b0, 32), 1
	}
	if m.Branch(in(b0, 0xC2, 0xDF)) {
		if len(bs) < 2 || !m.Branch(in(bs[1], 0x80, 0xBF)) {
			return bad()
		}
		r := s.Or(s.Shl(s.ZExt(s.Extract(b0, 4, 0), 32), s.Const(32, 6)), low6(bs[1]))
		return r, 2
	}
	if m.Branch(in(b0, 0xE0, 0xEF)) {
		if len(bs) < 3 {
			return bad()
		}
		lo, hi := s.Ite(s.Eq(b0, c8(0xE0)), c8(0xA0), c8(0x80)), s.Ite(s.Eq(b0, c8(0xED)), c8(0x9F), c8(0xBF))
		ok := s.BAnd(s.BAnd(s.ULe(lo, bs[1]), s.ULe(bs[1], hi)), in(bs[2], 0x80, 0xBF))
		if !m.Branch(ok) {
			return bad()
		}
		r := s.Or(s.Or(s.Shl(s.ZExt(s.Extract(b0, 3, 0), 32), s.Const(32, 12)), s.Shl(low6(bs[1]), s.Const(32, 6))), low6(bs[2]))
		return r, 3
	}
	if m.Branch(in(b0, 0xF0, 0xF4)) {
		if len(bs) < 4 {
			return bad()
		}
		lo, hi := s.Ite(s.Eq(b0, c8(0xF0)), c8(0x90), c8(0x80)), s.Ite(s.Eq(b0, c8(0xF4)), c8(0x8F), c8(0xBF))
		ok := s.BAnd(s.BAnd(s.BAnd(s.ULe(lo, bs[1]), s.ULe(bs[1], hi)), in(bs[2], 0x80, 0xBF)), in(bs[3], 0x80, 0xBF))
		if !m.Branch(ok) {
			return bad()
		}
		r := s.Or(s.Or(s.Or(s.Shl(s.ZExt(s.Extract(b0, 2, 0), 32), s.Const(32, 18)), s.Shl(low6(bs[1]), s.Const(32, 12))),
			s.Shl(low6(bs[2]), s.Const(32, 6))), low6(bs[3]))
		return r, 4
	}
	return bad()
}
