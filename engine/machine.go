package engine

import (
	"fmt"
	"go/types"
	"sort"
	"strings"

	"golang.org/x/tools/go/ssa"
)

// Decision is one entry of the decision log that identifies a path.
type Decision struct {
	Alt    int    `json:"alt"`
	Val    uint64 `json:"val,omitempty"`
	HasVal bool   `json:"hasval,omitempty"`
	Kind   string `json:"kind,omitempty"`
}

// pathEnd is the host-level panic that terminates a path.
type pathEnd struct {
	Kind string // "assume", "infeasible", "unwind", "unsupported", "bound", "exit", "crash"
	Msg  string
}

// GoPanic is a Go-level panic travelling through interpreted frames.
type GoPanic struct {
	Val     Value // the interface value passed to panic()
	Runtime bool
	Msg     string
}

// Program is the immutable, shared part: SSA, intrinsics, overrides, options.
type Program struct {
	SSA        *ssa.Program
	Pkgs       map[string]*ssa.Package
	Intrinsics map[string]Intrinsic
	Overrides  map[string]string // callee full name → replacement function full name
	funcByName map[string]*ssa.Function
	InitPkgs   []string // package paths whose init() is run at path start
	RepoPrefix string
	InitAllow  map[string]bool // non-repo packages whose initialisers are executed
	RuntimeErr types.Type
}

type Intrinsic func(m *Machine, fn *ssa.Function, args []Value) Value

// Options of one exploration.
type Options struct {
	Budget         int  // max SSA instructions per path
	MapOrderNondet bool // explore map iteration orders
	MaxConcretize  int  // max distinct values enumerated per concretisation
	TimeoutMs      int
	Known          map[string]bool // known-finding ids (status "known")
	MaxPaths       int
	Tier           int // 0 quick, 1 thorough
	DeadlineS      int // wall-clock budget of one exploration (0 = default by tier)
	NoOverrides    bool // ignore Program.Overrides in this exploration
	Witnesses      int             // collect up to this many witnesses (models of complete ok-paths)
	WitnessLeft    *int32          // shared countdown of witness attempts (set by the explorer)
	RealBodies     map[string]bool // functions whose intrinsic is disabled (their real SSA body runs)
}

type ObKey struct{ Label string }

// Machine executes one path.
type Machine struct {
	P    *Program
	Opt  *Options
	S    *Store
	Sol  *Solver
	PC   []*Term
	pcOK bool

	prefix    []Decision
	decisions []Decision
	pending   [][]Decision

	globals  map[*ssa.Global]*Object
	nextObj  int
	nextMap  int
	steps    int
	depth    int
	nondetN  map[string]int
	NondetV  []*Term // nondet variables in creation order
	panicFrs []*frame
	looseFmt int
	callStack []*ssa.Function

	// results of this path
	Res *PathResult

	// subsystems
	K      *Kernel
	Mon    *Monitor
	Sched  *Sched
	Extra  map[string]interface{}
	inited map[*ssa.Package]bool
	uninit map[string]bool
}

type ObResult struct {
	Label  string
	Status string // "trivial", "discharged", "violated", "inconclusive", "known"
	Model  map[string]uint64
	Detail string
}

// PathOutcome is a (path condition, result) pair in SMT-LIB text (comparable across paths).
type PathOutcome struct {
	Kind  string // "ok", "deadlock", "stuck", "panic"
	PC    string
	Value string
	Decls map[string]string
	Note  string
}

// Witness is a concrete input vector of a completed path on which every obligation held
// (used to cross-validate the encoder against the natively compiled code).
type Witness struct {
	Model     map[string]uint64 `json:"model"`
	Decisions []Decision        `json:"decisions"`
}

type PathResult struct {
	Witness      *Witness
	Outcome      *PathOutcome
	Decisions    []Decision
	End          string // "ok", "panic", or pathEnd kind
	EndMsg       string
	Steps        int
	Obs          []ObResult
	Covers       []string
	Notes        []string
	Funcs        map[string]bool
	IntrinsUsed  map[string]bool
	BoundExceed  []string
	UninitGlobal []string
}

type frame struct {
	fn        *ssa.Function
	regs      map[ssa.Value]Value
	env       []Value
	defers    []deferred
	panicking *GoPanic
	block     *ssa.BasicBlock
	prev      *ssa.BasicBlock
	results   Value
}

type deferred struct {
	call func()
}

func (m *Machine) end(kind, msg string) {
	panic(&pathEnd{Kind: kind, Msg: msg})
}

func (m *Machine) unsupported(msg string) { m.end("unsupported", msg) }

// End terminates the current path with the given outcome (exported for companion interpreters).
func (m *Machine) End(kind, msg string) { m.end(kind, msg) }

func (m *Machine) goPanicStr(msg string) {
	if n := len(m.callStack); n > 0 {
		msg += " [in " + m.callStack[n-1].String() + "]"
	}
	panic(&GoPanic{Val: Iface{T: m.P.RuntimeErr, V: ConcStr(msg, m.S)}, Runtime: true, Msg: msg})
}

// ---------------------------------------------------------------------------
// path condition and forking

// Assume adds t to the path condition; an evidently false t ends the path.
func (m *Machine) Assume(t *Term) {
	if t.IsTrue() {
		return
	}
	if t.IsFalse() {
		m.end("assume", "assumption is false")
	}
	m.PC = append(m.PC, t)
	m.Sol.Assert(t)
}

// Feasible asks whether pc ∧ t is satisfiable (Unknown counts as feasible).
func (m *Machine) Feasible(t *Term) bool {
	if t.IsFalse() {
		return false
	}
	r, _ := m.Sol.Check(t, nil, false)
	return r != Unsat
}

func (m *Machine) nextDecision() (Decision, bool) {
	pos := len(m.decisions)
	if pos < len(m.prefix) {
		return m.prefix[pos], true
	}
	return Decision{}, false
}

func (m *Machine) record(d Decision) { m.decisions = append(m.decisions, d) }

func (m *Machine) enqueue(d Decision) {
	alt := make([]Decision, len(m.decisions)+1)
	copy(alt, m.decisions)
	alt[len(m.decisions)] = d
	m.pending = append(m.pending, alt)
}

// Branch forks on a boolean term and returns the side taken on this path.
func (m *Machine) Branch(c *Term) bool {
	if c.W != 0 {
		panic("Branch on non-bool")
	}
	if c.IsConst() {
		return c.IsTrue()
	}
	if d, ok := m.nextDecision(); ok {
		m.record(d)
		if d.Alt == 0 {
			m.Assume(c)
			return true
		}
		m.Assume(m.S.Not(c))
		return false
	}
	nc := m.S.Not(c)
	if !m.Feasible(c) {
		m.record(Decision{Alt: 1, Kind: "br"})
		m.Assume(nc)
		return false
	}
	if !m.Feasible(nc) {
		m.record(Decision{Alt: 0, Kind: "br"})
		m.Assume(c)
		return true
	}
	m.enqueue(Decision{Alt: 1, Kind: "br"})
	m.record(Decision{Alt: 0, Kind: "br"})
	m.Assume(c)
	return true
}

// Choose forks n ways without consulting the solver.
func (m *Machine) Choose(n int, kind string) int {
	if n <= 0 {
		m.end("assume", "choose from empty set")
	}
	if n == 1 {
		return 0
	}
	if d, ok := m.nextDecision(); ok {
		m.record(d)
		return d.Alt
	}
	for i := n - 1; i >= 1; i-- {
		m.enqueue(Decision{Alt: i, Kind: kind})
	}
	m.record(Decision{Alt: 0, Kind: kind})
	return 0
}

// Concretize forks over the feasible values of t (bounded) and returns the one of this path.
func (m *Machine) Concretize(t *Term, what string) uint64 {
	if t.IsConst() {
		return t.Val
	}
	if d, ok := m.nextDecision(); ok {
		m.record(d)
		m.Assume(m.S.Eq(t, m.constLike(t, d.Val)))
		return d.Val
	}
	max := m.Opt.MaxConcretize
	if max == 0 {
		max = 8
	}
	var vals []uint64
	probe := m.S.Var("concretize_probe_"+fmt.Sprint(len(m.decisions)), widthOrBool(t))
	_ = probe
	excl := m.S.True
	for len(vals) <= max {
		r, model := m.checkModelOf(excl, t)
		if r == Unsat {
			break
		}
		if r == Unknown {
			m.Res.BoundExceed = append(m.Res.BoundExceed, "concretize-unknown:"+what)
			break
		}
		v := model
		vals = append(vals, v)
		excl = m.S.BAnd(excl, m.S.Not(m.S.Eq(t, m.constLike(t, v))))
	}
	if len(vals) == 0 {
		m.end("infeasible", "concretize: no value for "+what)
	}
	if len(vals) > max {
		m.Res.BoundExceed = append(m.Res.BoundExceed, fmt.Sprintf("concretize>%d:%s", max, what))
		vals = vals[:max]
	}
	sort.Slice(vals, func(i, j int) bool { return vals[i] < vals[j] })
	for i := len(vals) - 1; i >= 1; i-- {
		m.enqueue(Decision{Alt: i, Val: vals[i], HasVal: true, Kind: "val"})
	}
	m.record(Decision{Alt: 0, Val: vals[0], HasVal: true, Kind: "val"})
	m.Assume(m.S.Eq(t, m.constLike(t, vals[0])))
	return vals[0]
}

func widthOrBool(t *Term) int { return t.W }

func (m *Machine) constLike(t *Term, v uint64) *Term {
	if t.W == 0 {
		return m.S.Bool(v != 0)
	}
	return m.S.Const(t.W, v)
}

// checkModelOf returns a value of t satisfying pc ∧ extra.
func (m *Machine) checkModelOf(extra *Term, t *Term) (SatResult, uint64) {
	// bind t to a fresh variable so that get-value has a name to ask for
	name := fmt.Sprintf("cz_%d_%d", len(m.decisions), t.ID)
	v := m.S.Var(name, t.W)
	q := m.S.BAnd(extra, m.S.Eq(v, t))
	r, model := m.Sol.Check(q, []*Term{v}, true)
	if r != Sat {
		return r, 0
	}
	return Sat, model[name]
}

// ConcreteInt returns the int value of an integer term, concretising if needed.
func (m *Machine) ConcreteInt(t *Term, what string) int {
	if t.IsConst() {
		return int(signExt(t.Val, t.W))
	}
	v := m.Concretize(t, what)
	return int(signExt(v, t.W))
}

// ---------------------------------------------------------------------------
// obligations

func (m *Machine) Model(extra *Term) (SatResult, map[string]uint64) {
	return m.Sol.Check(extra, m.S.Vars, true)
}

// Assert raises an obligation: pc ⇒ c.
func (m *Machine) Assert(label string, c *Term) {
	if c.IsTrue() {
		m.Res.Obs = append(m.Res.Obs, ObResult{Label: label, Status: "trivial"})
		return
	}
	r, model := m.Model(m.S.Not(c))
	switch r {
	case Unsat:
		m.Res.Obs = append(m.Res.Obs, ObResult{Label: label, Status: "discharged"})
	case Sat:
		m.Res.Obs = append(m.Res.Obs, ObResult{Label: label, Status: "violated", Model: model, Detail: c.String()})
		// continue on the side where the assertion holds, if any
		if c.IsFalse() || !m.Feasible(c) {
			m.end("assert", "assertion "+label+" fails on the whole path")
		}
		m.Assume(c)
	default:
		m.Res.Obs = append(m.Res.Obs, ObResult{Label: label, Status: "inconclusive", Detail: "solver unknown"})
		m.Assume(c)
	}
}

// AssertExcept is Assert outside a known-finding region; inside the region the
// finding is confirmed to still exist (status "known").
func (m *Machine) AssertExcept(label string, c *Term, finding string, region *Term) {
	if !m.Opt.Known[finding] {
		m.Assert(label, c)
		return
	}
	in := m.S.BAnd(region, m.S.Not(c))
	if !in.IsFalse() {
		r, model := m.Model(in)
		if r == Sat {
			m.Res.Obs = append(m.Res.Obs, ObResult{Label: label, Status: "known", Model: model, Detail: finding})
		}
	}
	m.Assert(label, m.S.BOr(region, c))
	// continue only outside the region or where c holds
	rest := m.S.BOr(m.S.Not(region), c)
	if rest.IsFalse() || !m.Feasible(rest) {
		m.end("assert", "known finding "+finding+" covers the whole path")
	}
	m.Assume(rest)
}

func (m *Machine) Cover(label string) {
	m.Res.Covers = append(m.Res.Covers, label)
}

func (m *Machine) Note(s string) {
	if len(m.Res.Notes) < 64 {
		m.Res.Notes = append(m.Res.Notes, s)
	}
}

// ---------------------------------------------------------------------------
// nondeterministic inputs

func smtName(s string) string {
	var sb strings.Builder
	for _, r := range s {
		switch {
		case r >= 'a' && r <= 'z', r >= 'A' && r <= 'Z', r >= '0' && r <= '9', r == '_':
			sb.WriteRune(r)
		default:
			sb.WriteByte('_')
		}
	}
	return sb.String()
}

// Nondet creates a fresh input variable "in_<name>_<k>".
func (m *Machine) Nondet(name string, w int) *Term {
	name = smtName(name)
	k := m.nondetN[name]
	m.nondetN[name] = k + 1
	v := m.S.Var(fmt.Sprintf("in_%s_%d", name, k), w)
	m.NondetV = append(m.NondetV, v)
	return v
}

func (m *Machine) NondetBytes(name string, n int) []*Term {
	name = smtName(name)
	k := m.nondetN[name]
	m.nondetN[name] = k + 1
	out := make([]*Term, n)
	for i := range out {
		out[i] = m.S.Var(fmt.Sprintf("in_%s_%d_b%d", name, k, i), 8)
	}
	return out
}

// SetOutcome records the outcome of the current path for cross-path queries.
func (m *Machine) SetOutcome(kind string, val *Term, note string) {
	memo := map[*Term]string{}
	pc := "true"
	ts := append([]*Term{}, m.PC...)
	if len(m.PC) > 0 {
		parts := make([]string, len(m.PC))
		for i, c := range m.PC {
			parts[i] = SMT(c, memo)
		}
		pc = "(and true " + strings.Join(parts, " ") + ")"
	}
	o := &PathOutcome{Kind: kind, PC: pc, Note: note}
	if val != nil {
		o.Value = SMT(val, memo)
		ts = append(ts, val)
	}
	o.Decls = VarDecls(ts...)
	m.Res.Outcome = o
}

// ResetSched discards all simulated threads except the caller (used between the Go and GooseLang phases).
func (m *Machine) ResetSched() {
	m.finishThreads()
	m.Sched = newSched()
	m.Mon = newMonitor()
}

// Spawn starts a simulated thread running f (exported for companion interpreters).
func (m *Machine) Spawn(f func()) { m.spawn(f) }
