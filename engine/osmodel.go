package engine

import (
	"fmt"
	"go/types"
	"regexp/syntax"
	"sort"
	"strings"

	"golang.org/x/tools/go/ssa"
)

// Process-level environment for the command-line programs (cmd/goose, cmd/test_gen):
// os files on top of the kernel model, flags, bufio.Scanner, regexp.

type exitPanic struct{ code int }

// osFile is the side-table entry of an *os.File object.
type osFile struct {
	name   string
	std    int // 1 stdout, 2 stderr
	path   string
	rdata  []*Term // content for reading
	rpos   int
	wdata  []*Term // bytes written
	closed bool
	kfd    int // ≥ 0: the file is a descriptor of the kernel model (os.OpenFile); -1 otherwise
	isK    bool
}

type procEnv struct {
	files    map[*Object]*osFile
	stdout   *Object
	stderr   *Object
	flagVals map[string]Value
	args     []Str
	parsed   bool
	// symbolic directory listing for os.ReadDir / os.Open (C18)
	dirNames    []Str
	dirContents []Str
	// per entry: non-zero = the entry is a symbolic link to a regular file with that content (what
	// os.Open / os.ReadFile follow, what the go tool accepts as a source file); chosen by the solver
	dirKinds []*Term
	dirPath     string
	scanners    map[*Object]*scanState
	regexps     map[*Object]*syntax.Prog
	regexpSrc   map[*Object]string
	writes      []string // os.WriteFile / MkdirAll log
}

type scanState struct {
	f       *osFile
	text    Str
	max     int  // maximum token size (bufio.MaxScanTokenSize unless Buffer was called)
	tooLong bool // a line did not fit: Scan returns false from then on and Err reports it
}

func (m *Machine) env() *procEnv {
	e, _ := m.Extra["procenv"].(*procEnv)
	if e == nil {
		e = &procEnv{files: map[*Object]*osFile{}, flagVals: map[string]Value{}, scanners: map[*Object]*scanState{},
			regexps: map[*Object]*syntax.Prog{}, regexpSrc: map[*Object]string{}}
		m.Extra["procenv"] = e
	}
	return e
}

func (m *Machine) osFileType() types.Type {
	sp := m.P.Pkgs["os"]
	if sp == nil {
		m.unsupported("package os not loaded")
	}
	return sp.Type("File").Type()
}

func (m *Machine) newOSFile(of *osFile) Ptr {
	t := m.osFileType()
	o := m.newObject(t, m.zero(t), "os.File:"+of.name)
	m.env().files[o] = of
	return Ptr{Obj: o}
}

// stdFile returns the object behind os.Stdout / os.Stderr.
func (m *Machine) stdFile(which int) Ptr {
	e := m.env()
	if which == 1 {
		if e.stdout == nil {
			e.stdout = m.newOSFile(&osFile{name: "stdout", std: 1}).Obj
		}
		return Ptr{Obj: e.stdout}
	}
	if e.stderr == nil {
		e.stderr = m.newOSFile(&osFile{name: "stderr", std: 2}).Obj
	}
	return Ptr{Obj: e.stderr}
}

func (m *Machine) fileOf(p Ptr) *osFile {
	if p.Obj == nil {
		m.goPanicStr("invalid argument: nil *os.File")
	}
	f := m.env().files[p.Obj]
	if f == nil {
		m.unsupported("operation on an *os.File the model did not create")
	}
	return f
}

// initOSGlobal pre-initialises the few os globals the programs read.
func (m *Machine) initOSGlobal(g *ssa.Global, o *Object) {
	if g.Pkg == nil || g.Pkg.Pkg.Path() != "os" {
		return
	}
	switch g.Name() {
	case "Stdout":
		o.V = m.stdFile(1)
	case "Stderr":
		o.V = m.stdFile(2)
	}
}

type dirInfoV struct {
	name Str
	kind *Term
	size int
}

type direntV struct {
	name Str
	kind *Term
}

func (m *Machine) direntry(name Str, kind *Term) Iface {
	t := m.P.Pkgs["os"].Type("DirEntry").Type()
	_ = t
	return Iface{T: types.NewNamed(types.NewTypeName(0, nil, "modelDirEntry", nil), types.Typ[types.String], nil),
		V: Opaque{"direntry", direntV{name, kind}}}
}

// ---------------------------------------------------------------------------
// symbolic regexp matcher (leftmost-first backtracking over syntax.Prog, byte level)

type reThread struct {
	pc  int
	pos int
	cap []int
}

// reMatch returns the capture positions of the leftmost-first match of prog in s, or nil.
func (m *Machine) reMatch(prog *syntax.Prog, s []*Term) []int {
	ncap := prog.NumCap
	for start := 0; start <= len(s); start++ {
		cap := make([]int, ncap)
		for i := range cap {
			cap[i] = -1
		}
		if res := m.reStep(prog, s, prog.Start, start, cap, 0); res != nil {
			return res
		}
	}
	return nil
}

func (m *Machine) reRuneMatches(inst *syntax.Inst, b *Term) *Term {
	st := m.S
	switch inst.Op {
	case syntax.InstRuneAny:
		return st.True
	case syntax.InstRuneAnyNotNL:
		return st.Not(st.Eq(b, st.Const(8, '\n')))
	}
	// InstRune / InstRune1: pairs of ranges
	runes := inst.Rune
	if len(runes) == 1 {
		r := runes[0]
		c := st.False
		if r < 0x80 {
			c = st.Eq(b, st.Const(8, uint64(r)))
			if syntax.Flags(inst.Arg)&syntax.FoldCase != 0 {
				if r >= 'a' && r <= 'z' {
					c = st.BOr(c, st.Eq(b, st.Const(8, uint64(r-32))))
				} else if r >= 'A' && r <= 'Z' {
					c = st.BOr(c, st.Eq(b, st.Const(8, uint64(r+32))))
				}
			}
		}
		return c
	}
	c := st.False
	for i := 0; i+1 < len(runes); i += 2 {
		lo, hi := runes[i], runes[i+1]
		if lo >= 0x80 {
			continue // non-ASCII ranges never match a single byte of the model
		}
		if hi >= 0x80 {
			hi = 0x7f
		}
		c = st.BOr(c, st.BAnd(st.ULe(st.Const(8, uint64(lo)), b), st.ULe(b, st.Const(8, uint64(hi)))))
	}
	return c
}

func (m *Machine) reStep(prog *syntax.Prog, s []*Term, pc, pos int, cap []int, depth int) []int {
	if depth > 4000 {
		m.end("unwind", "regexp backtracking depth")
	}
	for {
		inst := &prog.Inst[pc]
		switch inst.Op {
		case syntax.InstFail:
			return nil
		case syntax.InstMatch:
			return append([]int(nil), cap...)
		case syntax.InstNop:
			pc = int(inst.Out)
		case syntax.InstCapture:
			if int(inst.Arg) < len(cap) {
				old := cap[inst.Arg]
				cap[inst.Arg] = pos
				r := m.reStep(prog, s, int(inst.Out), pos, cap, depth+1)
				cap[inst.Arg] = old
				return r
			}
			pc = int(inst.Out)
		case syntax.InstAlt, syntax.InstAltMatch:
			if r := m.reStep(prog, s, int(inst.Out), pos, cap, depth+1); r != nil {
				return r
			}
			pc = int(inst.Arg)
		case syntax.InstEmptyWidth:
			op := syntax.EmptyOp(inst.Arg)
			ok := m.S.True
			if op&(syntax.EmptyBeginText) != 0 && pos != 0 {
				ok = m.S.False
			}
			if op&(syntax.EmptyEndText) != 0 && pos != len(s) {
				ok = m.S.False
			}
			if op&syntax.EmptyBeginLine != 0 && pos != 0 {
				ok = m.S.BAnd(ok, m.S.Eq(s[pos-1], m.S.Const(8, '\n')))
			}
			if op&syntax.EmptyEndLine != 0 && pos != len(s) {
				ok = m.S.BAnd(ok, m.S.Eq(s[pos], m.S.Const(8, '\n')))
			}
			if op&(syntax.EmptyWordBoundary|syntax.EmptyNoWordBoundary) != 0 {
				m.unsupported("regexp word boundary")
			}
			if !m.Branch(ok) {
				return nil
			}
			pc = int(inst.Out)
		case syntax.InstRune, syntax.InstRune1, syntax.InstRuneAny, syntax.InstRuneAnyNotNL:
			if pos >= len(s) {
				return nil
			}
			if !m.Branch(m.reRuneMatches(inst, s[pos])) {
				return nil
			}
			pos++
			pc = int(inst.Out)
		default:
			m.unsupported("regexp instruction")
		}
	}
}

// ---------------------------------------------------------------------------

func init() {
	reg := func(name string, f Intrinsic) { defaultIntrinsics[name] = f }
	hreg := func(name string, f Intrinsic) { defaultIntrinsics["verif:"+name] = f }

	reg("os.Exit", func(m *Machine, fn *ssa.Function, a []Value) Value {
		panic(&exitPanic{code: m.ConcreteInt(a[0].(*Term), "exit code")})
	})
	hreg("verifCatchExit", func(m *Machine, fn *ssa.Function, a []Value) Value {
		code := -1
		func() {
			depth := m.depth
			defer func() {
				if r := recover(); r != nil {
					if e, ok := r.(*exitPanic); ok {
						code = e.code
						m.depth = depth
						return
					}
					panic(r)
				}
			}()
			m.CallClosure(a[0].(*Closure), nil)
		}()
		return m.S.Const(64, uint64(int64(code)))
	})
	hreg("verifStdout", func(m *Machine, fn *ssa.Function, a []Value) Value {
		return Str{append([]*Term(nil), m.fileOf(m.stdFile(1)).wdata...)}
	})
	hreg("verifStderr", func(m *Machine, fn *ssa.Function, a []Value) Value {
		return Str{append([]*Term(nil), m.fileOf(m.stdFile(2)).wdata...)}
	})
	hreg("verifResetOutput", func(m *Machine, fn *ssa.Function, a []Value) Value {
		m.fileOf(m.stdFile(1)).wdata = nil
		m.fileOf(m.stdFile(2)).wdata = nil
		m.env().writes = nil
		return nil
	})
	hreg("verifSetFlagBool", func(m *Machine, fn *ssa.Function, a []Value) Value {
		m.env().flagVals[concStrArg(m, a[0], "flag")] = a[1]
		return nil
	})
	hreg("verifSetFlagString", func(m *Machine, fn *ssa.Function, a []Value) Value {
		m.env().flagVals[concStrArg(m, a[0], "flag")] = a[1]
		return nil
	})
	hreg("verifSetArgs", func(m *Machine, fn *ssa.Function, a []Value) Value {
		e := m.env()
		e.args = nil
		for _, v := range m.variadic(a[0]) {
			e.args = append(e.args, v.(Str))
		}
		return nil
	})
	hreg("verifSetDir", func(m *Machine, fn *ssa.Function, a []Value) Value {
		e := m.env()
		e.dirPath = concStrArg(m, a[0], "dir")
		e.dirNames, e.dirContents, e.dirKinds = nil, nil, nil
		for _, v := range m.SliceVals(a[1].(Slice)) {
			e.dirNames = append(e.dirNames, v.(Str))
		}
		for _, v := range m.SliceVals(a[2].(Slice)) {
			e.dirContents = append(e.dirContents, v.(Str))
			e.dirKinds = append(e.dirKinds, m.Nondet("symlink", 8))
		}
		return nil
	})
	hreg("verifWriteLog", func(m *Machine, fn *ssa.Function, a []Value) Value {
		return ConcStr(strings.Join(m.env().writes, ";"), m.S)
	})

	// flag
	reg("flag.Parse", func(m *Machine, fn *ssa.Function, a []Value) Value {
		e := m.env()
		flags, _ := m.Extra["flags"].(map[string]Ptr)
		for name, v := range e.flagVals {
			p, ok := flags[name]
			if !ok {
				m.unsupported("flag -" + name + " is not defined by the program")
			}
			m.store(p, v)
		}
		e.parsed = true
		m.Extra["flagsParsed"] = true
		return nil
	})
	reg("flag.NArg", func(m *Machine, fn *ssa.Function, a []Value) Value {
		return m.S.Const(64, uint64(len(m.env().args)))
	})
	reg("flag.Arg", func(m *Machine, fn *ssa.Function, a []Value) Value {
		i := m.ConcreteInt(a[0].(*Term), "flag.Arg index")
		if i < 0 || i >= len(m.env().args) {
			return Str{}
		}
		return m.env().args[i]
	})
	reg("flag.Args", func(m *Machine, fn *ssa.Function, a []Value) Value {
		var vals []Value
		for _, s := range m.env().args {
			vals = append(vals, s)
		}
		return m.MakeSlice(types.Typ[types.String], vals)
	})
	reg("flag.PrintDefaults", func(m *Machine, fn *ssa.Function, a []Value) Value { return nil })
	reg("(*flag.FlagSet).Output", func(m *Machine, fn *ssa.Function, a []Value) Value {
		return Iface{T: types.NewPointer(m.osFileType()), V: m.stdFile(2)}
	})

	// os.File on top of a kernel-model descriptor (os.OpenFile): the methods are the system calls
	// of the kernel model, with os's conventions for short reads (io.EOF-like error) and errors
	reg("os.OpenFile", func(m *Machine, fn *ssa.Function, a []Value) Value {
		path := concStrArg(m, a[0], "path")
		fd, e := m.K.sysOpenat(-100, path, intArg(m, a[1], "open flags"), "openat")
		t := fn.Signature.Results().At(0).Type()
		if !isNilIface(e) {
			return Tuple{Ptr{}, e}
		}
		o := m.newObject(t.(*types.Pointer).Elem(), m.zero(t.(*types.Pointer).Elem()), "file:"+path)
		m.env().files[o] = &osFile{name: path, path: path, kfd: fd, isK: true}
		return Tuple{Ptr{Obj: o}, Iface{}}
	})
	kfile := func(m *Machine, v Value) *osFile {
		f := m.fileOf(v.(Ptr))
		if !f.isK {
			m.unsupported("positional I/O on an *os.File that is not backed by the kernel model")
		}
		return f
	}
	reg("(*os.File).Fd", func(m *Machine, fn *ssa.Function, a []Value) Value {
		return m.S.Const(64, uint64(kfile(m, a[0]).kfd))
	})
	reg("(*os.File).Sync", func(m *Machine, fn *ssa.Function, a []Value) Value { return m.K.sysFsync(kfile(m, a[0]).kfd) })
	reg("(*os.File).Truncate", func(m *Machine, fn *ssa.Function, a []Value) Value {
		return m.K.sysFtruncate(kfile(m, a[0]).kfd, a[1].(*Term))
	})
	reg("(*os.File).WriteAt", func(m *Machine, fn *ssa.Function, a []Value) Value {
		n, e := m.K.sysPwrite(kfile(m, a[0]).kfd, m.SliceBytes(a[1].(Slice)), a[2].(*Term), "pwrite")
		if !isNilIface(e) {
			return Tuple{m.S.Const(64, 0), e}
		}
		return Tuple{n, e}
	})
	reg("(*os.File).ReadAt", func(m *Machine, fn *ssa.Function, a []Value) Value {
		buf := a[1].(Slice)
		n, e := m.K.sysPread(kfile(m, a[0]).kfd, buf, a[2].(*Term))
		if !isNilIface(e) {
			return Tuple{m.S.Const(64, 0), e}
		}
		// os.File.ReadAt reports a short read (end of file) as an error
		if m.Branch(m.S.ULt(n, m.S.Const(64, uint64(buf.Len)))) {
			return Tuple{n, m.ioEOF()}
		}
		return Tuple{n, Iface{}}
	})
	reg("(*os.File).Stat", func(m *Machine, fn *ssa.Function, a []Value) Value {
		f := kfile(m, a[0])
		k := m.K
		if e := k.enter("fstat", fmt.Sprint(f.kfd)); e != 0 {
			return Tuple{Iface{}, k.errno(e)}
		}
		d := k.fds[f.kfd]
		if d == nil {
			return Tuple{Iface{}, k.errno(eBADF)}
		}
		op := m.P.Pkgs["os"]
		if op == nil || op.Type("fileStat") == nil {
			m.unsupported("os.fileStat is not loaded")
		}
		st := op.Type("fileStat").Type()
		sv := m.zero(st).(*StructV)
		us := st.Underlying().(*types.Struct)
		for i := 0; i < us.NumFields(); i++ {
			if us.Field(i).Name() == "size" {
				if d.ino.dir {
					sv.F[i] = m.S.Const(64, 4096)
				} else {
					sv.F[i] = d.ino.vol.Size
				}
			}
		}
		o := m.newObject(st, sv, "fileinfo")
		return Tuple{Iface{T: types.NewPointer(st), V: Ptr{Obj: o}}, Iface{}}
	})

	// os files
	reg("(*os.File).Write", func(m *Machine, fn *ssa.Function, a []Value) Value {
		f := m.fileOf(a[0].(Ptr))
		b := m.SliceBytes(a[1].(Slice))
		if f.isK {
			n, e := m.K.sysPwrite(f.kfd, b, nil, "write")
			return Tuple{n, e}
		}
		f.wdata = append(f.wdata, b...)
		return Tuple{m.S.Const(64, uint64(len(b))), Iface{}}
	})
	reg("(*os.File).WriteString", func(m *Machine, fn *ssa.Function, a []Value) Value {
		f := m.fileOf(a[0].(Ptr))
		b := a[1].(Str).B
		f.wdata = append(f.wdata, b...)
		return Tuple{m.S.Const(64, uint64(len(b))), Iface{}}
	})
	reg("(*os.File).Close", func(m *Machine, fn *ssa.Function, a []Value) Value {
		f := m.fileOf(a[0].(Ptr))
		if f.isK {
			if f.closed {
				return m.mkError(ConcStr("file already closed", m.S), nil)
			}
			f.closed = true
			return m.K.sysClose(f.kfd)
		}
		f.closed = true
		return Iface{}
	})
	reg("os.ReadDir", func(m *Machine, fn *ssa.Function, a []Value) Value {
		e := m.env()
		dir := concStrArg(m, a[0], "ReadDir path")
		det := fn.Signature.Results().At(0).Type().(*types.Slice).Elem()
		if dir != e.dirPath {
			return Tuple{Slice{}, m.mkError(ConcStr("open "+dir+": no such file or directory", m.S), nil)}
		}
		// sorted by name: insertion sort with symbolic comparisons
		idx := make([]int, len(e.dirNames))
		for i := range idx {
			idx[i] = i
		}
		for i := 1; i < len(idx); i++ {
			for j := i; j > 0; j-- {
				if !m.Branch(m.strLess(e.dirNames[idx[j]], e.dirNames[idx[j-1]])) {
					break
				}
				idx[j], idx[j-1] = idx[j-1], idx[j]
			}
		}
		var vals []Value
		for _, k := range idx {
			vals = append(vals, m.direntry(e.dirNames[k], e.dirKinds[k]))
		}
		return Tuple{m.MakeSlice(det, vals), Iface{}}
	})
	reg("os.Open", func(m *Machine, fn *ssa.Function, a []Value) Value {
		e := m.env()
		p := a[0].(Str)
		pre := ConcStr(e.dirPath+"/", m.S)
		for k, nm := range e.dirNames {
			full := Str{append(append([]*Term(nil), pre.B...), nm.B...)}
			if len(full.B) != len(p.B) {
				continue
			}
			if m.Branch(m.valEq(full, p)) {
				return Tuple{m.newOSFile(&osFile{name: "dirfile", rdata: e.dirContents[k].B}), Iface{}}
			}
		}
		// a file of the kernel model (concrete path)
		if name, ok := p.Concrete(); ok {
			if b, found := m.K.FileBytes(name); found {
				return Tuple{m.newOSFile(&osFile{name: name, path: name, rdata: b}), Iface{}}
			}
		}
		return Tuple{Ptr{}, m.mkError(ConcStr("open: no such file or directory", m.S), nil)}
	})
	// sequential reads of a model file: up to len(buf) bytes, then (0, io.EOF)
	reg("(*os.File).Read", func(m *Machine, fn *ssa.Function, a []Value) Value {
		f := m.fileOf(a[0].(Ptr))
		buf := a[1].(Slice)
		if f.isK {
			n, e := m.K.sysRead(f.kfd, buf)
			if isNilIface(e) && buf.Len > 0 && n.IsConst() && n.Val == 0 {
				return Tuple{n, m.ioEOF()}
			}
			return Tuple{n, e}
		}
		if f.rpos >= len(f.rdata) {
			if buf.Len == 0 {
				return Tuple{m.S.Const(64, 0), Iface{}}
			}
			return Tuple{m.S.Const(64, 0), m.ioEOF()}
		}
		n := len(f.rdata) - f.rpos
		if n > buf.Len {
			n = buf.Len
		}
		arr := (*m.cell(buf.Base)).(*ArrayV)
		for i := 0; i < n; i++ {
			arr.E[buf.Off+i] = f.rdata[f.rpos+i]
		}
		f.rpos += n
		return Tuple{m.S.Const(64, uint64(n)), Iface{}}
	})
	reg("os.Create", func(m *Machine, fn *ssa.Function, a []Value) Value {
		name := concStrArg(m, a[0], "Create path")
		f := m.newOSFile(&osFile{name: name, path: name})
		m.env().writes = append(m.env().writes, "create:"+name)
		return Tuple{f, Iface{}}
	})
	// whole-file helpers on the kernel model
	reg("os.ReadFile", func(m *Machine, fn *ssa.Function, a []Value) Value {
		name := concStrArg(m, a[0], "ReadFile path")
		b, ok := m.K.FileBytes(name)
		if !ok {
			return Tuple{Slice{}, m.mkError(ConcStr("open "+name+": no such file or directory", m.S), nil)}
		}
		return Tuple{m.BytesToSlice(b), Iface{}}
	})
	// an entry of the symbolic directory (C18): Stat follows a link to its regular target, Lstat
	// reports the entry itself
	dirStat := func(m *Machine, p Str, follow bool) (Value, bool) {
		e := m.env()
		if e.dirPath == "" {
			return nil, false
		}
		t := types.NewNamed(types.NewTypeName(0, nil, "modelFileInfo", nil), types.Typ[types.String], nil)
		pre := ConcStr(e.dirPath+"/", m.S)
		for k, nm := range e.dirNames {
			full := Str{append(append([]*Term(nil), pre.B...), nm.B...)}
			if len(full.B) != len(p.B) {
				continue
			}
			if m.Branch(m.valEq(full, p)) {
				kind := e.dirKinds[k]
				if follow {
					kind = m.S.Const(8, 0)
				}
				return Tuple{Iface{T: t, V: Opaque{"dirfileinfo", dirInfoV{nm, kind, len(e.dirContents[k].B)}}}, Iface{}}, true
			}
		}
		if _, ok := p.Concrete(); !ok {
			return Tuple{Iface{}, m.mkError(ConcStr("stat: no such file or directory", m.S), nil)}, true
		}
		return nil, false
	}
	reg("os.Lstat", func(m *Machine, fn *ssa.Function, a []Value) Value {
		if v, ok := dirStat(m, a[0].(Str), false); ok {
			return v
		}
		name := concStrArg(m, a[0], "Lstat path")
		_, _, ent, en := m.K.resolve(m.K.root, name)
		if en != 0 || ent == nil {
			return Tuple{Iface{}, m.mkError(ConcStr("lstat "+name+": no such file or directory", m.S), nil)}
		}
		t := types.NewNamed(types.NewTypeName(0, nil, "modelFileInfo", nil), types.Typ[types.String], nil)
		return Tuple{Iface{T: t, V: Opaque{"fileinfo", ent.ino}}, Iface{}}
	})
	reg("os.Stat", func(m *Machine, fn *ssa.Function, a []Value) Value {
		if v, ok := dirStat(m, a[0].(Str), true); ok {
			return v
		}
		name := concStrArg(m, a[0], "Stat path")
		_, _, ent, en := m.K.resolve(m.K.root, name)
		if en != 0 || ent == nil {
			return Tuple{Iface{}, m.mkError(ConcStr("stat "+name+": no such file or directory", m.S), nil)}
		}
		t := types.NewNamed(types.NewTypeName(0, nil, "modelFileInfo", nil), types.Typ[types.String], nil)
		return Tuple{Iface{T: t, V: Opaque{"fileinfo", ent.ino}}, Iface{}}
	})
	reg("os.WriteFile", func(m *Machine, fn *ssa.Function, a []Value) Value {
		name := concStrArg(m, a[0], "WriteFile path")
		data := m.SliceBytes(a[1].(Slice))
		parent, nm, ent, en := m.K.resolve(m.K.root, name)
		e := m.env()
		if en != 0 || parent == nil {
			e.writes = append(e.writes, "writefile-failed:"+name)
			return m.mkError(ConcStr("open "+name+": no such file or directory", m.S), nil)
		}
		if ent != nil && ent.ino.dir {
			e.writes = append(e.writes, "writefile-failed:"+name)
			return m.mkError(ConcStr("open "+name+": is a directory", m.S), nil)
		}
		if ent == nil {
			ino := m.K.newInode(false)
			ino.nlink = 1
			parent.entries = append(parent.entries, &dirent{name: nm, ino: ino})
			ent = m.K.lookup(parent, nm)
		}
		ent.ino.vol = fileData{Cells: append([]*Term(nil), data...), Size: m.S.Const(64, uint64(len(data)))}
		e.writes = append(e.writes, "writefile:"+name)
		return Iface{}
	})
	reg("os.MkdirAll", func(m *Machine, fn *ssa.Function, a []Value) Value {
		name := concStrArg(m, a[0], "MkdirAll path")
		cur := m.K.root
		for _, part := range strings.Split(name, "/") {
			if part == "" || part == "." {
				continue
			}
			e := m.K.lookup(cur, part)
			if e == nil {
				ino := m.K.newInode(true)
				cur.entries = append(cur.entries, &dirent{name: part, ino: ino})
				cur = ino
				continue
			}
			if !e.ino.dir {
				return m.mkError(ConcStr("mkdir "+name+": not a directory", m.S), nil)
			}
			cur = e.ino
		}
		m.env().writes = append(m.env().writes, "mkdirall:"+name)
		return Iface{}
	})

	// bufio.Scanner (line mode)
	reg("bufio.NewScanner", func(m *Machine, fn *ssa.Function, a []Value) Value {
		t := fn.Signature.Results().At(0).Type().(*types.Pointer).Elem()
		o := m.newObject(t, m.zero(t), "scanner")
		r := a[0].(Iface)
		fp, ok := r.V.(Ptr)
		if !ok {
			m.unsupported("bufio.NewScanner on a reader the model does not know")
		}
		m.env().scanners[o] = &scanState{f: m.fileOf(fp), max: 64 * 1024}
		return Ptr{Obj: o}
	})
	reg("(*bufio.Scanner).Scan", func(m *Machine, fn *ssa.Function, a []Value) Value {
		sc := m.env().scanners[a[0].(Ptr).Obj]
		f := sc.f
		if f.rpos >= len(f.rdata) {
			return m.S.False
		}
		nl := m.S.Const(8, '\n')
		end := f.rpos
		for end < len(f.rdata) && !m.Branch(m.S.Eq(f.rdata[end], nl)) {
			end++
		}
		if sc.tooLong {
			return m.S.False
		}
		if end-f.rpos >= sc.max {
			// bufio.Scanner: the line (and its terminator) must fit into a buffer of at most max bytes
			sc.tooLong = true
			return m.S.False
		}
		line := f.rdata[f.rpos:end]
		if len(line) > 0 && m.Branch(m.S.Eq(line[len(line)-1], m.S.Const(8, '\r'))) {
			line = line[:len(line)-1]
		}
		sc.text = Str{append([]*Term(nil), line...)}
		f.rpos = end + 1
		return m.S.True
	})
	reg("(*bufio.Scanner).Text", func(m *Machine, fn *ssa.Function, a []Value) Value {
		return m.env().scanners[a[0].(Ptr).Obj].text
	})
	reg("(*bufio.Scanner).Err", func(m *Machine, fn *ssa.Function, a []Value) Value {
		if m.env().scanners[a[0].(Ptr).Obj].tooLong {
			return m.mkError(ConcStr("bufio.Scanner: token too long", m.S), nil)
		}
		return Iface{}
	})
	reg("(*bufio.Scanner).Buffer", func(m *Machine, fn *ssa.Function, a []Value) Value {
		max, ok := a[2].(*Term)
		if !ok || !max.IsConst() {
			m.unsupported("bufio.Scanner.Buffer with a symbolic maximum")
		}
		sc := m.env().scanners[a[0].(Ptr).Obj]
		sc.max = int(max.Val)
		if bl, ok := a[1].(Slice); ok && bl.Cap > sc.max {
			sc.max = bl.Cap // the initial buffer may already be larger than max
		}
		return nil
	})

	// bufio.Reader over a model file: ReadLine hands out at most the buffer size (4096 unless
	// NewReaderSize says otherwise) per call and sets isPrefix when the line continues; ReadString
	// reads through the delimiter. The end of the file is reported with an error value (io.EOF).
	newReader := func(size int) func(m *Machine, fn *ssa.Function, a []Value) Value {
		return func(m *Machine, fn *ssa.Function, a []Value) Value {
			t := fn.Signature.Results().At(0).Type().(*types.Pointer).Elem()
			o := m.newObject(t, m.zero(t), "reader")
			fp, ok := a[0].(Iface).V.(Ptr)
			if !ok {
				m.unsupported("bufio.NewReader on a reader the model does not know")
			}
			n := size
			if n == 0 {
				c, isT := a[1].(*Term)
				if !isT || !c.IsConst() {
					m.unsupported("bufio.NewReaderSize with a symbolic size")
				}
				n = int(c.Val)
				if n < 16 {
					n = 16
				}
			}
			m.env().scanners[o] = &scanState{f: m.fileOf(fp), max: n}
			return Ptr{Obj: o}
		}
	}
	reg("bufio.NewReader", newReader(4096))
	reg("bufio.NewReaderSize", newReader(0))
	byteSlice := func(m *Machine, bs []*Term) Slice {
		vals := make([]Value, len(bs))
		for i, b := range bs {
			vals[i] = b
		}
		return m.MakeSlice(types.Typ[types.Uint8], vals)
	}
	reg("(*bufio.Reader).ReadLine", func(m *Machine, fn *ssa.Function, a []Value) Value {
		sc := m.env().scanners[a[0].(Ptr).Obj]
		f := sc.f
		if f.rpos >= len(f.rdata) {
			return Tuple{Slice{}, m.S.False, m.ioEOF()}
		}
		nl := m.S.Const(8, '\n')
		end := f.rpos
		for end < len(f.rdata) && end-f.rpos < sc.max && !m.Branch(m.S.Eq(f.rdata[end], nl)) {
			end++
		}
		if end-f.rpos >= sc.max && end < len(f.rdata) {
			// the buffer is full and the line goes on
			line := f.rdata[f.rpos:end]
			f.rpos = end
			return Tuple{byteSlice(m, line), m.S.True, Iface{}}
		}
		line := f.rdata[f.rpos:end]
		if len(line) > 0 && m.Branch(m.S.Eq(line[len(line)-1], m.S.Const(8, '\r'))) {
			line = line[:len(line)-1]
		}
		f.rpos = end + 1
		return Tuple{byteSlice(m, line), m.S.False, Iface{}}
	})
	reg("(*bufio.Reader).ReadString", func(m *Machine, fn *ssa.Function, a []Value) Value {
		sc := m.env().scanners[a[0].(Ptr).Obj]
		f := sc.f
		delim := a[1].(*Term)
		end := f.rpos
		for end < len(f.rdata) && !m.Branch(m.S.Eq(f.rdata[end], delim)) {
			end++
		}
		if end >= len(f.rdata) {
			rest := Str{append([]*Term(nil), f.rdata[f.rpos:]...)}
			f.rpos = len(f.rdata)
			return Tuple{rest, m.ioEOF()}
		}
		line := Str{append([]*Term(nil), f.rdata[f.rpos:end+1]...)}
		f.rpos = end + 1
		return Tuple{line, Iface{}}
	})

	// regexp
	reg("regexp.MustCompile", func(m *Machine, fn *ssa.Function, a []Value) Value {
		src := concStrArg(m, a[0], "regexp source")
		re, err := syntax.Parse(src, syntax.Perl)
		if err != nil {
			m.goPanicStr("regexp: Compile(" + src + "): " + err.Error())
		}
		prog, err := syntax.Compile(re.Simplify())
		if err != nil {
			m.goPanicStr("regexp: " + err.Error())
		}
		t := fn.Signature.Results().At(0).Type().(*types.Pointer).Elem()
		o := m.newObject(t, m.zero(t), "regexp")
		m.env().regexps[o] = prog
		m.env().regexpSrc[o] = src
		return Ptr{Obj: o}
	})
	reg("(*regexp.Regexp).FindStringSubmatch", func(m *Machine, fn *ssa.Function, a []Value) Value {
		prog := m.env().regexps[a[0].(Ptr).Obj]
		if prog == nil {
			m.unsupported("regexp not compiled by the model")
		}
		s := a[1].(Str)
		caps := m.reMatch(prog, s.B)
		if caps == nil {
			return Slice{}
		}
		var vals []Value
		for i := 0; i+1 < len(caps); i += 2 {
			if caps[i] < 0 || caps[i+1] < 0 {
				vals = append(vals, Str{})
			} else {
				vals = append(vals, Str{s.B[caps[i]:caps[i+1]:caps[i+1]]})
			}
		}
		return m.MakeSlice(types.Typ[types.String], vals)
	})
	reg("(*regexp.Regexp).MatchString", func(m *Machine, fn *ssa.Function, a []Value) Value {
		prog := m.env().regexps[a[0].(Ptr).Obj]
		return m.S.Bool(m.reMatch(prog, a[1].(Str).B) != nil)
	})

	// github.com/fatih/color: colouring is the identity on text
	reg("github.com/fatih/color.New", func(m *Machine, fn *ssa.Function, a []Value) Value {
		t := fn.Signature.Results().At(0).Type().(*types.Pointer).Elem()
		return Ptr{Obj: m.newObject(t, m.zero(t), "color")}
	})
	reg("(*github.com/fatih/color.Color).SprintFunc", func(m *Machine, fn *ssa.Function, a []Value) Value {
		return &Closure{Name: "color.Sprint", Host: func(m *Machine, args []Value) Value {
			return m.Sprint(m.variadic(args[0]), false)
		}}
	})
	_ = sort.Strings
	_ = fmt.Sprint
}

func init() {
	opaqueHandlers["fileinfo"] = func(m *Machine, o Opaque, name string, args []Value) Value {
		ino := o.V.(*Inode)
		switch name {
		case "Size":
			if ino.dir {
				return m.S.Const(64, 4096)
			}
			return ino.vol.Size
		case "IsDir":
			return m.S.Bool(ino.dir)
		case "Mode":
			if ino.dir {
				return m.S.Const(32, 1<<31|0o755)
			}
			return m.S.Const(32, 0o644)
		}
		m.unsupported("FileInfo." + name)
		return nil
	}
	opaqueHandlers["dirfileinfo"] = func(m *Machine, o Opaque, name string, args []Value) Value {
		d := o.V.(dirInfoV)
		switch name {
		case "Name":
			return d.name
		case "Size":
			return m.S.Const(64, uint64(d.size))
		case "IsDir":
			return m.S.False
		case "Mode":
			isLink := m.S.Not(m.S.Eq(d.kind, m.S.Const(8, 0)))
			return m.S.Ite(isLink, m.S.Const(32, 1<<27|0o777), m.S.Const(32, 0o644))
		}
		m.unsupported("FileInfo." + name)
		return nil
	}
	opaqueHandlers["direntry"] = func(m *Machine, o Opaque, name string, args []Value) Value {
		switch name {
		case "Name":
			return o.V.(direntV).name
		case "IsDir":
			return m.S.False
		case "Type":
			// fs.ModeSymlink for a link, 0 for a regular file (Type reports the entry itself, lstat-like)
			isLink := m.S.Not(m.S.Eq(o.V.(direntV).kind, m.S.Const(8, 0)))
			return m.S.Ite(isLink, m.S.Const(32, 1<<27), m.S.Const(32, 0))
		}
		m.unsupported("DirEntry." + name)
		return nil
	}
}

// isNilIface: the interface value is nil (no dynamic type).
func isNilIface(i Iface) bool { return i.T == nil && i.V == nil }

// ioEOF returns the value of io.EOF (the io package initialiser is run on first use).
func (m *Machine) ioEOF() Iface {
	ip := m.P.Pkgs["io"]
	if ip == nil {
		return m.mkError(ConcStr("EOF", m.S), nil)
	}
	m.RunInit(ip)
	g, ok := ip.Members["EOF"].(*ssa.Global)
	if !ok {
		return m.mkError(ConcStr("EOF", m.S), nil)
	}
	v, ok := m.load(Ptr{Obj: m.global(g)}).(Iface)
	if !ok || isNilIface(v) {
		return m.mkError(ConcStr("EOF", m.S), nil)
	}
	return v
}
