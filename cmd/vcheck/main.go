// vcheck runs the solver-based checks.
//
//	vcheck run <Cxx> [--tier quick|thorough]
package main

import (
	"flag"
	"fmt"
	"os"
	"regexp"
	"strconv"

	"strings"

	"verif/checks"
	"verif/gen"
	"verif/tv"
)

func main() {
	if len(os.Args) < 3 && !(len(os.Args) == 2 && os.Args[1] == "tvcal") {
		fmt.Fprintln(os.Stderr, "usage: vcheck run <id> [--tier quick|thorough]")
		os.Exit(2)
	}
	switch os.Args[1] {
	case "run":
		id := os.Args[2]
		fs := flag.NewFlagSet("run", flag.ExitOnError)
		tier := fs.String("tier", envOr("VERIF_TIER", "quick"), "quick or thorough")
		fs.Parse(os.Args[3:])
		seed, _ := strconv.Atoi(os.Getenv("VERIF_SEED"))
		os.Exit(checks.Run(id, *tier, seed))
	case "tvshow": // vcheck tvshow <subset|lookalike> <case id substring>: print source and goose output of matching cases
		d, err := tv.NewDriver(checks.RepoRoot)
		if err != nil {
			fmt.Println(err)
			os.Exit(2)
		}
		defer d.Close()
		pkgs := gen.Subset(1)
		if os.Args[2] == "lookalike" {
			pkgs = gen.Lookalikes(1)
		}
		if strings.HasPrefix(os.Args[2], "rand") { // rand:<seed>:<n>:<depth> or randlook:<seed>:<n>:<depth>
			f := strings.Split(os.Args[2], ":")
			seed, _ := strconv.Atoi(f[1])
			n, _ := strconv.Atoi(f[2])
			depth, _ := strconv.Atoi(f[3])
			if f[0] == "randlib" {
				pkgs = gen.RandomLiberal(int64(seed), n, depth)
			} else if f[0] == "randlook" {
				pkgs = gen.RandomLookalikes(int64(seed), n, depth)
			} else {
				pkgs = gen.Random(int64(seed), n, depth)
			}
			if len(os.Args) > 4 && os.Args[4] == "whole" {
				// whole packages: report what goose says about each
				for _, q := range pkgs {
					d.WritePackage(q)
					tr := d.Translate(q)
					fmt.Printf("=== package %s: exit %d, %d errors\n", q.Name, tr.Exit, len(tr.Errors))
					for _, e := range tr.Errors {
						fmt.Printf("  [%s] %s (line %d)\n", e.Category, e.Message, e.Line)
					}
					if tr.Exit > 1 || (tr.Exit != 0 && len(tr.Errors) == 0) {
						fmt.Println(tr.Stderr)
						lines := strings.Split(q.Files["gen.go"], "\n")
						for _, m := range regexp.MustCompile(`gen\.go:(\d+):\d+: `).FindAllStringSubmatch(tr.Stderr, 3) {
							ln, _ := strconv.Atoi(m[1])
							lo := ln - 25
							if lo < 0 {
								lo = 0
							}
							hi := ln + 15
							if hi > len(lines) {
								hi = len(lines)
							}
							fmt.Printf("--- around line %d\n%s\n", ln, strings.Join(lines[lo:hi], "\n"))
						}
					}
				}
				return
			}
		}
		for _, p := range pkgs {
			for _, q := range p.Singletons() {
				if !strings.Contains(q.Cases[0].ID, os.Args[3]) {
					continue
				}
				d.WritePackage(q)
				tr := d.Translate(q)
				fmt.Printf("=== %s (exit %d)\n%s\n--- stderr\n%s\n--- output\n%s\n", q.Cases[0].ID, tr.Exit, q.Cases[0].Src, tr.Stderr, tr.V)
			}
		}
	case "tvcal":
		d, err := tv.NewDriver(checks.RepoRoot)
		if err != nil {
			fmt.Println(err)
			os.Exit(2)
		}
		defer d.Close()
		only := ""
		if len(os.Args) > 3 {
			only = os.Args[3]
		}
		res, err := tv.Calibrate(d, 8, only)
		if err != nil {
			fmt.Println("ERROR", err)
			d.Close()
			os.Exit(2)
		}
		for _, l := range res.Lines {
			fmt.Println(l)
		}
		fmt.Printf("calibration: %d tests, %d agree, %d disagree, %d unsupported\n", res.Total, res.Agree, res.Disagree, res.Unsupported)
	default:
		fmt.Fprintln(os.Stderr, "unknown command", os.Args[1])
		os.Exit(2)
	}
}

func envOr(k, d string) string {
	if v := os.Getenv(k); v != "" {
		return v
	}
	return d
}
