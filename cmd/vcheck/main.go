// vcheck runs the solver-based checks.
//
//	vcheck run <Cxx> [--tier quick|thorough]
package main

import (
	"flag"
	"fmt"
	"os"
	"strconv"

	"verif/checks"
)

func main() {
	if len(os.Args) < 3 {
		fmt.Fprintln(os.Stderr, "usage: vcheck run <id> [--tier quick|thorough]")
		os.Exit(2)
	}
	switch os.Args[1] {
	case "run":
		id := os.Args[2]
		fs := flag.NewFlagSet("run", flag.ExitOnError)
		tier := fs.String("tier", envOr("VERIF_TIER", "quick"), "quick or thorough")
		fs.Parse(os.Args[3:])
		seed, _ := strconv.Atoi(os.Getenv("VERIF_SEED"))
		os.Exit(checks.Run(id, *tier, seed))
	default:
		fmt.Fprintln(os.Stderr, "unknown command", os.Args[1])
		os.Exit(2)
	}
}

func envOr(k, d string) string {
	if v := os.Getenv(k); v != "" {
		return v
	}
	return d
}
