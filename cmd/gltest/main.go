package main

import (
	"fmt"
	"os"

	"verif/gl"
)

func main() {
	for _, f := range os.Args[1:] {
		b, _ := os.ReadFile(f)
		file, err := gl.Parse(string(b))
		if err != nil {
			fmt.Println(f, "ERROR", err)
			continue
		}
		n := map[string]int{}
		for _, d := range file.Decls {
			n[d.Kind]++
		}
		fmt.Println(f, "ok", n)
	}
}
