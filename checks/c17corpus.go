package checks

import (
	"fmt"
	"os"
	"os/exec"
	"path/filepath"
	"sort"
	"strings"
	"time"

	"verif/tv"
)

// commandEndToEnd runs the real goose binary (built from the working tree) on a small module mixing
// translatable and untranslatable packages, under several pattern sets, flag combinations, working
// directories and prior states of the output directory, and compares exit status, the set of files
// written, their placement and their modification times with the property's rules. It complements the
// symbolic harness (which stubs TranslatePackages) on the integration with go/packages and the OS.
func commandEndToEnd(ctx *RunCtx) error {
	d, err := tv.NewDriver(RepoRoot)
	if err != nil {
		return err
	}
	defer d.Close()
	mod := d.ModDir()
	write := func(rel, src string) {
		p := filepath.Join(mod, rel)
		os.MkdirAll(filepath.Dir(p), 0o755)
		os.WriteFile(p, []byte(src), 0o644)
	}
	write("ok1/ok1.go", "package ok1\n\nfunc One() uint64 {\n\treturn 1\n}\n")
	write("ok2/ok2.go", "package ok2\n\nfunc Two() uint64 {\n\treturn 2\n}\n")
	write("ok2/sub/sub.go", "package sub\n\nfunc Three() uint64 {\n\treturn 3\n}\n")
	write("bad/bad.go", "package bad\n\nfunc Good() uint64 {\n\treturn 7\n}\n\nfunc Bad(x uint64) uint64 {\n\tx <<= 1\n\treturn x\n}\n\nfunc AlsoGood() uint64 {\n\treturn 8\n}\n")
	write("tags/always.go", "package tags\n\nfunc Always() uint64 {\n\treturn 1\n}\n")
	write("tags/with.go", "//go:build goose\n\npackage tags\n\nfunc OnlyWithGooseTag() uint64 {\n\treturn 2\n}\n")
	write("tags/without.go", "//go:build !goose\n\npackage tags\n\nfunc OnlyWithoutGooseTag() uint64 {\n\treturn 3\n}\n")
	vio := func(label, detail string) {
		ctx.addTVViolation(&tv.Package{Name: "cmd"}, nil, label, detail, nil, nil)
	}
	type result struct {
		exit  int
		files map[string]string
		err   string
	}
	run := func(cwd, out string, args ...string) result {
		cmd := exec.Command(d.GooseBin, args...)
		cmd.Dir = cwd
		cmd.Env = append(os.Environ(), "GOFLAGS=-mod=mod", "GOPROXY=off", "GOSUMDB=off", "GOTOOLCHAIN=local")
		b, err := runWithTimeout(cmd, 2*time.Minute)
		r := result{files: map[string]string{}, err: string(b)}
		if ee, ok := err.(*exec.ExitError); ok {
			r.exit = ee.ExitCode()
		} else if err != nil {
			r.exit = -1
		}
		filepath.Walk(out, func(p string, fi os.FileInfo, err error) error {
			if err == nil && !fi.IsDir() {
				rel, _ := filepath.Rel(out, p)
				c, _ := os.ReadFile(p)
				r.files[rel] = string(c)
			}
			return nil
		})
		ctx.Programs++
		return r
	}
	names := func(r result) string {
		var ns []string
		for n := range r.files {
			ns = append(ns, n)
		}
		sort.Strings(ns)
		return strings.Join(ns, ",")
	}
	pre := "example_com/tvmod/"
	fresh := func(n string) string {
		p := filepath.Join(d.Work, "e2e-"+n)
		os.RemoveAll(p)
		return p
	}
	// 1. one good package
	o := fresh("1")
	r := run(mod, o, "-out", o, "./ok1")
	if r.exit != 0 || names(r) != pre+"ok1.v" {
		vio("e2e/one-package", fmt.Sprintf("exit %d, files [%s]: %s", r.exit, names(r), firstLines(r.err, 3)))
	}
	ref1 := r.files[pre+"ok1.v"]
	// 2. good, bad, good: exit 1, the good ones are written, the bad one is not
	o = fresh("2")
	r = run(mod, o, "-out", o, "./ok1", "./bad", "./ok2")
	if r.exit != 1 || names(r) != pre+"ok1.v,"+pre+"ok2.v" {
		vio("e2e/error-in-the-middle", fmt.Sprintf("exit %d, files [%s]", r.exit, names(r)))
	}
	if r.files[pre+"ok1.v"] != ref1 {
		vio("e2e/output-independent-of-neighbours", "ok1.v differs when translated next to a failing package")
	}
	// 3. -ignore-errors: partial file with exactly the declarations that translated, still exit 1
	o = fresh("3")
	r = run(mod, o, "-ignore-errors", "-out", o, "./bad", "./ok1")
	bad := r.files[pre+"bad.v"]
	if r.exit != 1 || names(r) != pre+"bad.v,"+pre+"ok1.v" || !strings.Contains(bad, "Definition Good") || !strings.Contains(bad, "Definition AlsoGood") || strings.Contains(bad, "Definition Bad") {
		vio("e2e/ignore-errors-partial-output", fmt.Sprintf("exit %d, files [%s], Good:%v AlsoGood:%v Bad:%v", r.exit, names(r), strings.Contains(bad, "Definition Good"), strings.Contains(bad, "Definition AlsoGood"), strings.Contains(bad, "Definition Bad")))
	}
	// 4. recursive pattern, -dir from another working directory, -out with ".." and a trailing slash
	o = fresh("4")
	os.MkdirAll(filepath.Join(o, "x"), 0o755)
	// (-out is relative to the working directory of the command, not to -dir)
	r = run(d.Work, o, "-dir", mod, "-out", filepath.Join("e2e-4", "x", "..", "y")+"/", "./ok2/...")
	if r.exit != 0 || names(r) != "y/"+pre+"ok2.v,y/"+pre+"ok2/sub.v" {
		vio("e2e/dir-and-recursive-pattern", fmt.Sprintf("exit %d, files [%s]: %s", r.exit, names(r), firstLines(r.err, 3)))
	}
	// 5. an unchanged file is not rewritten, a stale one is, a read-only up-to-date one is no error
	o = fresh("5")
	run(mod, o, "-out", o, "./ok1", "./ok2")
	f1, f2 := filepath.Join(o, pre+"ok1.v"), filepath.Join(o, pre+"ok2.v")
	old := time.Unix(978307200, 0)
	os.Chtimes(f1, old, old)
	os.WriteFile(f2, []byte("stale\n"), 0o644)
	os.Chtimes(f2, old, old)
	os.Chmod(f1, 0o444)
	r = run(mod, o, "-out", o, "./ok1", "./ok2")
	os.Chmod(f1, 0o644)
	st1, _ := os.Stat(f1)
	st2, _ := os.Stat(f2)
	if r.exit != 0 || st1 == nil || !st1.ModTime().Equal(old) {
		vio("e2e/unchanged-file-not-rewritten", fmt.Sprintf("exit %d, up-to-date read-only file touched: %v: %s", r.exit, st1 != nil && !st1.ModTime().Equal(old), firstLines(r.err, 2)))
	}
	if st2 == nil || st2.ModTime().Equal(old) || strings.HasPrefix(r.files[pre+"ok2.v"], "stale") {
		vio("e2e/stale-file-rewritten", "a file with different content was left in place")
	}
	// 6. the goose build tag selects the sources
	o = fresh("6")
	r = run(mod, o, "-out", o, "./tags")
	tg := r.files[pre+"tags.v"]
	if r.exit != 0 || !strings.Contains(tg, "Definition Always") || !strings.Contains(tg, "Definition OnlyWithGooseTag") || strings.Contains(tg, "OnlyWithoutGooseTag") {
		vio("e2e/goose-build-tag", fmt.Sprintf("exit %d, Always:%v with:%v without:%v", r.exit, strings.Contains(tg, "Definition Always"), strings.Contains(tg, "Definition OnlyWithGooseTag"), strings.Contains(tg, "OnlyWithoutGooseTag")))
	}
	// 7. a pattern that matches nothing / a missing package: non-zero, nothing written
	o = fresh("7")
	r = run(mod, o, "-out", o, "./nosuchpkg")
	if r.exit == 0 || len(r.files) != 0 {
		vio("e2e/missing-package-refused", fmt.Sprintf("exit %d, files [%s]", r.exit, names(r)))
	}
	// 8. three flags at once, all packages
	o = fresh("8")
	r = run(mod, o, "-typecheck", "-source-comments", "-ignore-errors", "-out", o, "./...")
	want := []string{pre + "bad.v", pre + "ok1.v", pre + "ok2.v", pre + "ok2/sub.v", pre + "tags.v"}
	if r.exit != 1 || names(r) != strings.Join(want, ",") {
		vio("e2e/all-packages-three-flags", fmt.Sprintf("exit %d, files [%s]", r.exit, names(r)))
	}
	for i := 1; i <= 8; i++ {
		os.RemoveAll(filepath.Join(d.Work, fmt.Sprintf("e2e-%d", i)))
	}
	ctx.Extra["end_to_end_goose_runs"] = ctx.Programs
	return nil
}

// errorsEndToEnd (C07): several failing packages in one invocation, two of them with the same package
// name in different directories, errors in the first and the last declaration and inside a function
// literal, a method of a generic type with two type parameters: the real goose must not crash, must
// exit 1, and must report a structured error located in every offending file.
func errorsEndToEnd(ctx *RunCtx) error {
	d, err := tv.NewDriver(RepoRoot)
	if err != nil {
		return err
	}
	defer d.Close()
	mod := d.ModDir()
	write := func(rel, src string) {
		p := filepath.Join(mod, rel)
		os.MkdirAll(filepath.Dir(p), 0o755)
		os.WriteFile(p, []byte(src), 0o644)
	}
	write("neta/util/util.go", "package util\n\nfunc First(x uint64) uint64 {\n\tx <<= 1\n\treturn x\n}\n\nfunc Fine() uint64 {\n\treturn 1\n}\n")
	write("storeb/util/util.go", "package util\n\nfunc Fine() uint64 {\n\treturn 2\n}\n\nfunc Last(x uint64) uint64 {\n\tdefer Fine()\n\treturn x\n}\n")
	write("lit/lit.go", "package lit\n\nfunc Outer(x uint64) uint64 {\n\tf := func(y uint64) uint64 {\n\t\ty *= 2\n\t\treturn y\n\t}\n\treturn f(x)\n}\n")
	write("gen2/gen2.go", "package gen2\n\ntype Pair[K any, V any] struct {\n\tk K\n\tv V\n}\n\nfunc (p *Pair[K, V]) Key() K {\n\treturn p.k\n}\n\nfunc Use(x uint64) uint64 {\n\tp := &Pair[uint64, bool]{k: x, v: true}\n\treturn p.Key()\n}\n")
	write("fine/fine.go", "package fine\n\nfunc Ok() uint64 {\n\treturn 3\n}\n")
	out := filepath.Join(d.Work, "e2e-errors")
	cmd := exec.Command(d.GooseBin, "-out", out, "./...")
	cmd.Dir = mod
	cmd.Env = append(os.Environ(), "GOFLAGS=-mod=mod", "GOPROXY=off", "GOSUMDB=off", "GOTOOLCHAIN=local")
	b, rerr := runWithTimeout(cmd, 2*time.Minute)
	exit := 0
	if ee, ok := rerr.(*exec.ExitError); ok {
		exit = ee.ExitCode()
	}
	txt := stripANSIText(string(b))
	vio := func(label, detail string) {
		ctx.addTVViolation(&tv.Package{Name: "cmd"}, nil, label, detail, nil, nil)
	}
	if exit != 1 {
		vio("e2e/errors-exit-status", fmt.Sprintf("exit %d with failing packages (a crash or a success): %s", exit, firstLines(txt, 4)))
	}
	if strings.Contains(txt, "goroutine ") && strings.Contains(txt, "panic") && !strings.Contains(txt, "conversion failed") {
		vio("e2e/errors-no-crash", firstLines(txt, 4))
	}
	for _, f := range []string{"neta/util/util.go", "storeb/util/util.go", "lit/lit.go"} {
		if !strings.Contains(txt, f+":") {
			vio("e2e/errors-of-every-failing-package-reported", "no error located in "+f+" although it contains an unsupported statement")
		}
	}
	if _, err := os.Stat(filepath.Join(out, "example_com/tvmod/fine.v")); err != nil {
		vio("e2e/errors-do-not-stop-other-packages", "fine.v was not written")
	}
	os.RemoveAll(out)
	ctx.Extra["end_to_end_goose_runs"] = intExtra(ctx, "end_to_end_goose_runs") + 1
	return nil
}

func stripANSIText(s string) string {
	var sb strings.Builder
	for i := 0; i < len(s); i++ {
		if s[i] == 0x1b && i+1 < len(s) && s[i+1] == '[' {
			j := i + 2
			for j < len(s) && (s[j] == ';' || (s[j] >= '0' && s[j] <= '9')) {
				j++
			}
			i = j
			continue
		}
		sb.WriteByte(s[i])
	}
	return sb.String()
}
