package checks

import (
	"fmt"
	"os"
	"os/exec"
	"path/filepath"
	"regexp"
	"sort"
	"strings"
	"time"

	"verif/engine"
)

func modelBytes(model map[string]uint64, base string, n int) []byte {
	b := make([]byte, n)
	for i := range b {
		b[i] = byte(model[fmt.Sprintf("%s_b%d", base, i)])
	}
	return b
}

func hostIsAlnum(c byte) bool {
	return c >= '0' && c <= '9' || c >= 'A' && c <= 'Z' || c >= 'a' && c <= 'z'
}

// hostHeader is the property's rule for a test-function header (same as the harness oracle).
func hostHeader(line string) (bool, bool, string) {
	if !strings.HasPrefix(line, "func") || len(line) < 6 || !strings.ContainsRune(" \t\n\f\r", rune(line[4])) {
		return false, false, ""
	}
	rest := line[5:]
	failing := false
	if strings.HasPrefix(rest, "failing_") {
		failing = true
		rest = rest[8:]
	}
	if !strings.HasPrefix(rest, "test") {
		return false, false, ""
	}
	rest = rest[4:]
	k := 0
	for k < len(rest) && hostIsAlnum(rest[k]) {
		k++
	}
	if k == 0 || k >= len(rest) || rest[k] != '(' {
		return false, false, ""
	}
	return true, failing, rest[:k]
}

func replayTestGen(ctx *RunCtx, e Entry, v engine.Violation, dir string) (bool, string) {
	tier := ctx.TierN()
	nfiles, nlines, nameLen, lineLen := 1, 1+tier, 9, 20
	switch e.Func {
	case "verifC18TwoFiles":
		nfiles, nlines, nameLen, lineLen = 2, 1, 9, 12+7*tier
	case "verifC18Usage":
		return replayTestGenUsage(dir)
	case "verifC18LongLine":
		return replayTestGenLongLine(dir)
	case "verifC18Scenarios":
		return replayTestGenScenarios(dir)
	}
	src := filepath.Join(dir, "pkg")
	os.MkdirAll(src, 0o755)
	type file struct {
		name  string
		lines []string
	}
	var files []file
	lineNo := 0
	for f := 0; f < nfiles; f++ {
		fl := file{name: string(modelBytes(v.Model, fmt.Sprintf("in_name_%d", f), nameLen))}
		content := ""
		for l := 0; l < nlines; l++ {
			line := string(modelBytes(v.Model, fmt.Sprintf("in_line_%d", lineNo), lineLen))
			lineNo++
			fl.lines = append(fl.lines, line)
			content += line + "\n"
		}
		target := filepath.Join(src, fl.name)
		if v.Model[fmt.Sprintf("in_symlink_%d", f)] != 0 {
			// the solver chose "this entry is a symbolic link to a regular file"
			store := filepath.Join(dir, "linked")
			os.MkdirAll(store, 0o755)
			real := filepath.Join(store, fmt.Sprintf("f%d", f))
			if err := os.WriteFile(real, []byte(content), 0o644); err != nil {
				return false, "cannot materialise link target: " + err.Error()
			}
			if err := os.Symlink(real, target); err != nil {
				return false, "cannot materialise file name from the model: " + err.Error()
			}
		} else if err := os.WriteFile(target, []byte(content), 0o644); err != nil {
			return false, "cannot materialise file name from the model: " + err.Error()
		}
		files = append(files, fl)
	}
	bin := filepath.Join(dir, "test_gen.bin")
	build := exec.Command("go", "build", "-o", bin, "./cmd/test_gen")
	build.Dir = RepoRoot
	build.Env = append(os.Environ(), "GOFLAGS=-mod=mod", "GOPROXY=off", "GOSUMDB=off", "GOTOOLCHAIN=local")
	if out, err := runWithTimeout(build, 3*time.Minute); err != nil {
		return false, "build failed: " + string(out)
	}
	defer os.Remove(bin)
	goOut, _ := runWithTimeout(exec.Command(bin, "-go", src), time.Minute)
	coqOut, _ := runWithTimeout(exec.Command(bin, "-coq", src), time.Minute)
	os.WriteFile(filepath.Join(dir, "go_mode_output.txt"), goOut, 0o644)
	os.WriteFile(filepath.Join(dir, "coq_mode_output.txt"), coqOut, 0o644)
	os.WriteFile(filepath.Join(dir, "cmd.sh"), []byte(fmt.Sprintf("#!/bin/sh\ncd %s && go run ./cmd/test_gen -go %s; go run ./cmd/test_gen -coq %s\n", RepoRoot, src, src)), 0o755)
	// oracle
	sort.Slice(files, func(i, j int) bool { return files[i].name < files[j].name })
	var want []string
	for _, f := range files {
		if strings.HasSuffix(f.name, "~") || strings.HasSuffix(f.name, ".gold.v") || strings.HasSuffix(f.name, "_test.go") {
			continue
		}
		for _, l := range f.lines {
			if ok, failing, nm := hostHeader(l); ok {
				pre := ""
				if failing {
					pre = "failing_"
				}
				want = append(want, pre+"test"+nm)
			}
		}
	}
	var gotGo, gotCoq []string
	for _, m := range regexp.MustCompile(`suite\.Equal\(true, ((?:failing_)?test[0-9A-Za-z]+)\(\)\)`).FindAllStringSubmatch(string(goOut), -1) {
		gotGo = append(gotGo, m[1])
	}
	for _, m := range regexp.MustCompile(`(?m)^(?:Fail )?Example test[0-9A-Za-z]+_ok : ((?:failing_)?test[0-9A-Za-z]+) #\(\)`).FindAllStringSubmatch(string(coqOut), -1) {
		gotCoq = append(gotCoq, m[1])
	}
	if strings.Contains(v.Label, "does-not-crash") {
		for mode, out := range map[string][]byte{"-go": goOut, "-coq": coqOut} {
			if strings.Contains(string(out), "panic:") || strings.Contains(string(out), "goroutine 1 [running]") {
				return true, "real test_gen " + mode + " crashes: " + firstLineWith(string(out), "panic:")
			}
		}
		return false, "real test_gen does not crash on this directory"
	}
	w, g, c := strings.Join(want, ","), strings.Join(gotGo, ","), strings.Join(gotCoq, ",")
	detail := fmt.Sprintf("expected tests [%s]; -go emitted [%s]; -coq emitted [%s]", w, g, c)
	if strings.HasPrefix(v.Label, "go/") && g != w {
		return true, "real test_gen: " + detail
	}
	if strings.HasPrefix(v.Label, "coq/") && c != w {
		return true, "real test_gen: " + detail
	}
	if g != c {
		return true, "real test_gen generators disagree: " + detail
	}
	return false, "real test_gen agrees with the oracle: " + detail
}

func replayTestGenUsage(dir string) (bool, string) {
	return false, "usage counterexamples are not replayed"
}

// replayTestGenLongLine runs the real test_gen on the three long-line directories of the harness.
func replayTestGenLongLine(dir string) (bool, string) {
	bin := filepath.Join(dir, "test_gen.bin")
	os.MkdirAll(dir, 0o755)
	build := exec.Command("go", "build", "-o", bin, "./cmd/test_gen")
	build.Dir = RepoRoot
	build.Env = append(os.Environ(), "GOFLAGS=-mod=mod", "GOPROXY=off", "GOSUMDB=off", "GOTOOLCHAIN=local")
	if out, err := runWithTimeout(build, 3*time.Minute); err != nil {
		return false, "build failed: " + string(out)
	}
	defer os.Remove(bin)
	for _, n := range []int{65535, 65536, 70000, 4096, 8192} {
		src := filepath.Join(dir, fmt.Sprintf("pkg%d", n))
		os.MkdirAll(src, 0o755)
		long := "//" + strings.Repeat("x", n-2)
		if n < 10000 {
			long += "func testPhantom() bool {"
		}
		os.WriteFile(filepath.Join(src, "a.go"), []byte("func testA() bool {\n"+long+"\nfunc failing_testB() bool {\n"), 0o644)
		goCmd, coqCmd := exec.Command(bin, "-go", src), exec.Command(bin, "-coq", src)
		goOut, goErr := runWithTimeout(goCmd, time.Minute)
		coqOut, coqErr := runWithTimeout(coqCmd, time.Minute)
		if goErr != nil && coqErr != nil {
			continue // both refuse the input loudly
		}
		okGo := strings.Contains(string(goOut), "testA())") && strings.Contains(string(goOut), "failing_testB())")
		okCoq := strings.Contains(string(coqOut), "testA #()") && strings.Contains(string(coqOut), "failing_testB #()")
		if strings.Contains(string(goOut), "Phantom") || strings.Contains(string(coqOut), "Phantom") {
			os.WriteFile(filepath.Join(dir, "cmd.sh"), []byte(fmt.Sprintf("#!/bin/sh\ncd %s && go run ./cmd/test_gen -go %s; go run ./cmd/test_gen -coq %s\n", RepoRoot, src, src)), 0o755)
			return true, fmt.Sprintf("real test_gen: text at offset %d of a long line is taken for a test-function header (a test for a function that does not exist)", n)
		}
		if !okGo || !okCoq {
			os.WriteFile(filepath.Join(dir, "cmd.sh"), []byte(fmt.Sprintf("#!/bin/sh\ncd %s && go run ./cmd/test_gen -go %s; go run ./cmd/test_gen -coq %s\n", RepoRoot, src, src)), 0o755)
			return true, fmt.Sprintf("real test_gen: a source line of %d bytes makes the generators drop the test function that follows it (-go complete: %v, -coq complete: %v, exit status 0)", n, okGo, okCoq)
		}
		os.RemoveAll(src)
	}
	return false, "real test_gen handles the long lines"
}

// replayTestGenScenarios rebuilds the three concrete directories of verifC18Scenarios and runs the
// real test_gen on them; the expected tests come from hostHeader.
func replayTestGenScenarios(dir string) (bool, string) {
	bin := filepath.Join(dir, "test_gen.bin")
	os.MkdirAll(dir, 0o755)
	build := exec.Command("go", "build", "-o", bin, "./cmd/test_gen")
	build.Dir = RepoRoot
	build.Env = append(os.Environ(), "GOFLAGS=-mod=mod", "GOPROXY=off", "GOSUMDB=off", "GOTOOLCHAIN=local")
	if out, err := runWithTimeout(build, 3*time.Minute); err != nil {
		return false, "build failed: " + string(out)
	}
	defer os.Remove(bin)
	type file struct {
		name  string
		lines []string
	}
	long := "testAVeryLongTestFunctionNameThatGoesOnAndOn0123456789Z"
	var many []string
	for i := 0; i < 130; i++ {
		many = append(many, fmt.Sprintf("func testN%d() bool {", i), "\treturn true", "}", "")
	}
	scenarios := [][]file{
		{{"b.go", []string{"func testLowerB() bool {"}}, {"B.go", []string{"func testUpperB() bool {"}}, {"a10.go", []string{"func testTen() bool {"}},
			{"a9.go", []string{"func testNine() bool {"}}, {"_x.go", []string{"func testUnderscore() bool {"}}, {"Z.go", []string{"func failing_testZ() bool {"}}},
		{{"m.go", []string{"package semantics", "", "func " + long + "() bool {", "func test9lives() bool {", "func failing_test0() bool {", "func\ttestTab() bool {",
			"func testCr() bool {\r", "\treturn true\r", "}\r", "func (b *box) testMethod() bool {", "// func testCommented() bool {", "\tfunc testIndented() bool {",
			"func testUnder_score() bool {", "func test() bool {", "func testSpace () bool {", "func Testupper() bool {", "func failing_testLast() bool { return false }"}}},
		{{"many.go", many}},
	}
	for k, files := range scenarios {
		src := filepath.Join(dir, fmt.Sprintf("pkg%d", k))
		os.MkdirAll(src, 0o755)
		for _, f := range files {
			os.WriteFile(filepath.Join(src, f.name), []byte(strings.Join(f.lines, "\n")+"\n"), 0o644)
		}
		goOut, _ := runWithTimeout(exec.Command(bin, "-go", src), time.Minute)
		coqOut, _ := runWithTimeout(exec.Command(bin, "-coq", src), time.Minute)
		sort.Slice(files, func(i, j int) bool { return files[i].name < files[j].name })
		var want []string
		for _, f := range files {
			for _, l := range f.lines {
				if ok, failing, nm := hostHeader(l); ok {
					pre := ""
					if failing {
						pre = "failing_"
					}
					want = append(want, pre+"test"+nm)
				}
			}
		}
		var gotGo, gotCoq []string
		for _, m := range regexp.MustCompile(`suite\.Equal\(true, ((?:failing_)?test[0-9A-Za-z]+)\(\)\)`).FindAllStringSubmatch(string(goOut), -1) {
			gotGo = append(gotGo, m[1])
		}
		for _, m := range regexp.MustCompile(`(?m)^(?:Fail )?Example test[0-9A-Za-z]+_ok : ((?:failing_)?test[0-9A-Za-z]+) #\(\)`).FindAllStringSubmatch(string(coqOut), -1) {
			gotCoq = append(gotCoq, m[1])
		}
		w, g, c := strings.Join(want, ","), strings.Join(gotGo, ","), strings.Join(gotCoq, ",")
		if g != w || c != w {
			os.WriteFile(filepath.Join(dir, "cmd.sh"), []byte(fmt.Sprintf("#!/bin/sh\ncd %s && go run ./cmd/test_gen -go %s; go run ./cmd/test_gen -coq %s\n", RepoRoot, src, src)), 0o755)
			short := func(x string) string {
				if len(x) > 300 {
					return x[:300] + "…"
				}
				return x
			}
			return true, fmt.Sprintf("real test_gen on scenario %d: expected tests [%s]; -go emitted [%s]; -coq emitted [%s]", k, short(w), short(g), short(c))
		}
		os.RemoveAll(src)
	}
	return false, "real test_gen agrees with the oracle on the scenario directories"
}
