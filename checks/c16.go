package checks

import "verif/engine"

func init() {
	hf := []HarnessFile{{RepoDir: "machine", Pkg: "machine", Src: "machine/zz_verif_c16.go"}}
	Register(&Check{
		ID:       "C16",
		Level:    "model_checking",
		Patterns: []string{"./machine"},
		Harness:  hf,
		Overrides: map[string]string{
			"github.com/goose-lang/primitive.WaitTimeout": machinePkg + ".verifStubWaitTimeout",
		},
		Entries: []Entry{
			{PkgPath: machinePkg, Func: "verifC16ToString"},
			{PkgPath: machinePkg, Func: "verifC16ToStringInjective", Opt: engine.Options{MaxPaths: 2000}, Tiers: "thorough"},
			{PkgPath: machinePkg, Func: "verifC16MapClearU64"},
			{PkgPath: machinePkg, Func: "verifC16MapClearStr"},
			{PkgPath: machinePkg, Func: "verifC16AssumeAssert"},
			{PkgPath: machinePkg, Func: "verifC16WaitTimeoutDelegates", Replay: "race"},
			{PkgPath: machinePkg, Func: "verifC16WaitTimeoutReal", Opt: engine.Options{NoOverrides: true, MaxPaths: 50000, RealBodies: map[string]bool{"github.com/goose-lang/primitive.WaitTimeout": true}}, Replay: "race"},
		},
		Covers: []string{"c16/tostring", "c16/mapclear/u64", "c16/mapclear/str", "c16/assume-assert", "c16/waittimeout/delegate", "c16/waittimeout/real"},
		Bounds: "UInt64ToString: all 2^64 values (fork on the 20 digit counts); MapClear: ≤4 (quick) / ≤6 and ≤5 (thorough) entries, symbolic keys/values, all iteration orders, instantiated at map[uint64]uint64 and a named map[string][]byte; Assume/Assert: both booleans; WaitTimeout: all timeouts, delegation contract only. Outside: real-time behaviour of WaitTimeout, maps with more entries, other instantiations of MapClear.",
		Assumptions: []string{
			"fmt.Sprintf is an intrinsic: %d of a symbolic integer is its canonical decimal rendering (fresh digit variables constrained by x = Σ d_i·10^i); the check therefore decides that the real code formats x itself with a decimal verb, not fmt's own correctness",
			"map iteration visits the live entries in an arbitrary order; entries deleted during the range are not visited (Go spec)",
			"primitive.WaitTimeout is replaced by a recording stub (contract check of the one-line delegate); real-time bounds are not claimed",
		},
		Trusted: []string{"gosym executor and term simplifier", "z3 4.8.12", "fmt intrinsic"},
	})
}
