package checks

import "verif/engine"

func init() {
	hf := []HarnessFile{
		{RepoDir: "internal/coq", Pkg: "coq", Src: "coq/zz_verif_c05.go"},
		{RepoDir: ".", Pkg: "goose", Src: "goose/zz_verif_c05.go"},
		{RepoDir: ".", Pkg: "goose", Src: "goose/zz_verif_stubs.go"},
	}
	big := engine.Options{Budget: 5_000_000, MaxPaths: 2_000_000}
	Register(&Check{
		ID:       "C05",
		Custom:   c05Custom,
		Level:    "model_checking",
		Patterns: []string{".", "./internal/coq"},
		Overrides: map[string]string{
			"(" + goosePkg + ".errorReporter).printGo": goosePkg + ".verifStubPrintGo",
		},
		Harness:   hf,
		InitPkgs:  []string{"go/types"},
		InitAllow: []string{"go/types"},
		Entries: []Entry{
			{PkgPath: coqPkg, Func: "verifC05Comment", Opt: big},
			{PkgPath: coqPkg, Func: "verifC05Logging", Opt: big},
			{PkgPath: coqPkg, Func: "verifC05IndentedComment", Opt: big},
			{PkgPath: goosePkg, Func: "verifC05StringLiteralE2E", Opt: big},
			{PkgPath: goosePkg, Func: "verifC05PanicMessageE2E", Opt: big},
			{PkgPath: coqPkg, Func: "verifC05DeclComment", Opt: big},
			{PkgPath: coqPkg, Func: "verifC05TypecheckFlag", Opt: big},
			{PkgPath: coqPkg, Func: "verifC05Binders", Opt: big},
		},
		Covers: []string{"c05/comment", "c05/logging", "c05/indented-comment", "c05/strlit/accepted", "c05/strlit/rejected", "c05/panicmsg/accepted", "c05/panicmsg/rejected", "c05/declcomment", "c05/typecheck-flag", "c05/binders"},
		Bounds: "comment / log-call / doc-comment / string-literal text: every byte string of length ≤ 4 (quick) / ≤ 6 (thorough), all bytes symbolic (so (*, *), quotes, newlines, non-ASCII all occur); indentation levels 0, 2, 4; three declaration kinds; AddTypes on/off; real goose on the rule corpora and 150 (500) random look-alikes: flag invariance of every definition, an invariance check of the output structure under replacing the contents of all Go string literals by letters, and an empty-expression lint (a binder, separator or keyword followed by a token that cannot start an expression, after removing comments and masking strings)",
		Assumptions: []string{
			"Coq lexing rules used by the oracle: (* *) nest; inside a comment a double quote opens a string in which comment delimiters are ignored; strings end at the next double quote",
			"string literals and panic messages go through the real basicLiteral / callExpr guards (driven with a hand-built types.Info holding a symbolic constant)",
			"internal/bytealg kernels are intrinsics; strings.* and fmt.Sprintf(%s) semantics as modelled",
		},
		Trusted: []string{"gosym executor", "z3 4.8.12", "reference Coq lexer in harness/coq/zz_verif_c05.go"},
	})
}
