package checks

import "verif/engine"

func init() {
	hf := []HarnessFile{
		{RepoDir: "machine/disk", Pkg: "disk", Src: "disk/zz_verif_c11.go"},
	}
	big := engine.Options{Budget: 20_000_000}
	Register(&Check{
		ID:       "C11",
		Level:    "model_checking",
		Patterns: []string{"./machine/disk"},
		Harness:  hf,
		Entries: []Entry{
			{PkgPath: diskPkg, Func: "verifC11Reopen", Opt: big},
			{PkgPath: diskPkg, Func: "verifC11PriorImage", Opt: big},
			{PkgPath: diskPkg, Func: "verifC11Generations", Opt: big},
			{PkgPath: diskPkg, Func: "verifC11Faults", Opt: big, Replay: "model"},
			{PkgPath: diskPkg, Func: "verifC11BarrierDurable", Opt: big, Replay: "model"},
			{PkgPath: diskPkg, Func: "verifC11PersistentFailure", Opt: big, Replay: "model"},
		},
		Covers: []string{"c11/reopen", "c11/prior-image", "c11/generations", "c11/fault/open", "c11/fault/write", "c11/fault/read",
			"c11/fault/barrier", "c11/fault/close", "c11/fault/none", "c11/barrier-durable", "c11/persistent-failure"},
		Bounds: "n ≤ 3 blocks; all block contents; prior image: every length L < 2^62 (symbolic) with symbolic content in its first 8193 bytes, n ≤ 2 requested blocks; faults: every single failing syscall (EIO) among open/fstat/ftruncate/pwrite/pread/fsync/close in the sequence open·write·read·barrier·close; crash after Write·Barrier with an arbitrary durable prefix of later writes",
		Assumptions: []string{
			"kernel model: pread past EOF returns a short count without error; ftruncate zero-fills; data becomes durable only through fsync of that file; after a crash each file is its durable content plus a prefix of its pending writes",
			"a failing syscall has no effect (EIO), except close which still releases the descriptor",
			"short transfers without errno are outside the claim",
		},
		Trusted: []string{"gosym executor and term simplifier", "z3 4.8.12", "kernel (POSIX) model incl. durability rules"},
	})
}
