package checks

import "verif/engine"

const goosePkg = "github.com/goose-lang/goose"
const coqPkg = "github.com/goose-lang/goose/internal/coq"

func init() {
	hf := []HarnessFile{
		{RepoDir: "internal/coq", Pkg: "coq", Src: "coq/zz_verif_c08.go"},
		{RepoDir: ".", Pkg: "goose", Src: "goose/zz_verif_c08.go"},
		{RepoDir: ".", Pkg: "goose", Src: "goose/zz_verif_stubs.go"},
	}
	big := engine.Options{Budget: 5_000_000, MaxPaths: 2_000_000}
	Register(&Check{
		ID:       "C08",
		Level:    "model_checking",
		Patterns: []string{".", "./internal/coq"},
		Harness:  hf,
		Overrides: map[string]string{
			"(" + goosePkg + ".errorReporter).printGo": goosePkg + ".verifStubPrintGo",
		},
		Entries: []Entry{
			{PkgPath: coqPkg, Func: "verifC08PathToCoq", Opt: big},
			{PkgPath: coqPkg, Func: "verifC08ImportToPath", Opt: big},
			{PkgPath: coqPkg, Func: "verifC08RequireLine", Opt: big},
			{PkgPath: coqPkg, Func: "verifC08PrintImports", Opt: big},
			{PkgPath: coqPkg, Func: "verifC08FileLayout", Opt: big},
			{PkgPath: goosePkg, Func: "verifC08GetFfi", Opt: big},
			{PkgPath: goosePkg, Func: "verifC08HeaderFooter", Opt: big},
			{PkgPath: goosePkg, Func: "verifC08ImportSpecs", Opt: big},
		},
		Custom: headerEndToEnd,
		Covers: []string{"c08/pathmap", "c08/outpath", "c08/require", "c08/printimports", "c08/layout", "c08/getffi", "c08/headerfooter", "c08/importspecs"},
		Bounds: "end to end: seven small multi-package programs (no import, one and two user packages, disk FFI direct and through an imported package, sync+machine only, two files importing the same package) translated by the real goose, header lines compared with the expected set; import paths: every byte string of length 1..4 (quick) / 1..6 (thorough) that is a valid import path (non-empty segments), all bytes symbolic; import lists ≤ 4 drawn from a pool with repetition in any order; import graphs: root + 3 (quick) / 4 (thorough) packages with paths from a pool of 7 (all five FFI keys, a non-FFI builtin, a plain package), every acyclic edge set; every FFI value for header/footer; ≤ 3 import specs from a pool of 10 paths, optionally renamed",
		Assumptions: []string{
			"internal/bytealg assembly kernels are intrinsics with reference semantics; strings/path/filepath/sort/bytes run from their real SSA",
			"errorReporter.printGo (go/printer) is stubbed in the import-spec harness",
		},
		Trusted: []string{"gosym executor", "z3 4.8.12", "bytealg intrinsics"},
	})
}
