// Package checks wires properties to harness entry points, runs the symbolic
// executor, replays counterexamples natively and writes evidence.
package checks

import (
	"bufio"
	"encoding/json"
	"fmt"
	"os"
	"os/exec"
	"path/filepath"
	"sort"
	"strconv"
	"strings"
	"time"

	"verif/engine"
)

var (
	VerifRoot = envOr("VERIF_ROOT", "/verif")
	RepoRoot  = envOr("VERIF_REPO", "/repo")
)

func envOr(k, d string) string {
	if v := os.Getenv(k); v != "" {
		return v
	}
	return d
}

// HarnessFile places /verif/harness/<Src> at /repo/<RepoDir>/<base(Src)> (overlay only).
type HarnessFile struct {
	RepoDir string // directory inside the repo, e.g. "machine/disk"
	Pkg     string // Go package name of that directory
	Src     string // path under /verif/harness
}

// Entry is one harness function to explore.
type Entry struct {
	PkgPath  string // import path of the package holding the harness
	Func     string
	Opt      engine.Options
	Tiers    string // "" = both, "quick", "thorough"
	Workers  int
	NoReplay bool   // obligations not replayable natively through the generic harness replay
	Replay   string // replay strategy: "" generic native harness replay, "race", "model"
}

// Check describes everything needed to decide one property.
type Check struct {
	ID          string
	Level       string // evidence level
	Patterns    []string
	Harness     []HarnessFile
	Entries     []Entry
	Overrides   map[string]string
	InitPkgs    []string
	InitAllow   []string // non-repo packages whose initialisers may run
	Assumptions []string
	Bounds      string
	Trusted     []string
	// Custom runs extra, non-engine work (e.g. the translation-validation driver).
	Custom func(ctx *RunCtx) error
	// Required covers: a cover label that no path reaches makes the run VACUOUS (inconclusive).
	Covers []string
}

var Registry = map[string]*Check{}

// CustomReplays: replay strategies beyond the generic native harness replay.
var CustomReplays = map[string]func(ctx *RunCtx, e Entry, v engine.Violation, dir string) (bool, string){}

func Register(c *Check) { Registry[c.ID] = c }

// replayRoot: where replay directories are written (VERIF_REPLAY_ROOT lets concurrent runs against
// scratch clones keep their replays apart; the registered commands use /verif/replays).
func replayRoot() string {
	if d := os.Getenv("VERIF_REPLAY_ROOT"); d != "" {
		return d
	}
	return filepath.Join(VerifRoot, "replays")
}

// KnownFinding is one line of known_findings.jsonl.
type KnownFinding struct {
	Status   string `json:"status"` // "known" | "fixed"
	Property string `json:"property"`
	ID       string `json:"id"`
	What     string `json:"what"`
	Commit   string `json:"commit,omitempty"`
	Harness  string `json:"harness,omitempty"`
	Label    string `json:"label,omitempty"`
	Region   string `json:"region,omitempty"`
}

func LoadKnown() []KnownFinding {
	f, err := os.Open(filepath.Join(VerifRoot, "known_findings.jsonl"))
	if err != nil {
		return nil
	}
	defer f.Close()
	var out []KnownFinding
	sc := bufio.NewScanner(f)
	sc.Buffer(make([]byte, 1<<20), 1<<20)
	for sc.Scan() {
		line := strings.TrimSpace(sc.Text())
		if line == "" || strings.HasPrefix(line, "#") {
			continue
		}
		var k KnownFinding
		if json.Unmarshal([]byte(line), &k) == nil {
			out = append(out, k)
		}
	}
	return out
}

// RunCtx accumulates the results of one check run.
type RunCtx struct {
	Check      *Check
	Tier       string
	Seed       int
	Known      map[string]KnownFinding // id → entry with status "known"
	Reports    []*engine.Report
	Violations []ViolationOut
	KnownHit   map[string]string // id → what (confirmed still present)
	Inconcl    []string
	Extra      map[string]interface{}
	Samples    []interface{}
	Programs   int
	Disagree   int
	Replays    int
	Log        *bufio.Writer
	start      time.Time
	Prog       *engine.Program
	nViol      int
}

type ViolationOut struct {
	Label      string
	ReplayDir  string
	Reproduced bool
	Detail     string
}

func (c *RunCtx) Logf(format string, a ...interface{}) {
	fmt.Fprintf(os.Stderr, format+"\n", a...)
}

func (c *RunCtx) TierN() int {
	if c.Tier == "thorough" {
		return 1
	}
	return 0
}

func pkgNameOf(hf HarnessFile) string { return hf.Pkg }

// overlayFor builds the go/packages overlay (symbolic mode: API declarations without bodies).
func overlayFor(ch *Check, native bool) (map[string][]byte, error) {
	ov := map[string][]byte{}
	tmplName := "api.go.tmpl"
	if native {
		tmplName = "native.go.tmpl"
	}
	tmpl, err := os.ReadFile(filepath.Join(VerifRoot, "harness", tmplName))
	if err != nil {
		return nil, err
	}
	seen := map[string]bool{}
	for _, hf := range ch.Harness {
		src, err := os.ReadFile(filepath.Join(VerifRoot, "harness", hf.Src))
		if err != nil {
			return nil, err
		}
		dir := filepath.Join(RepoRoot, hf.RepoDir)
		ov[filepath.Join(dir, filepath.Base(hf.Src))] = src
		if !seen[dir] {
			seen[dir] = true
			api := strings.Replace(string(tmpl), "package PKG", "package "+hf.Pkg, 1)
			ov[filepath.Join(dir, "zz_verif_api.go")] = []byte(api)
		}
	}
	return ov, nil
}

// Run executes a check and returns the process exit code.
func Run(id, tier string, seed int) int {
	ch := Registry[id]
	if ch == nil {
		fmt.Fprintf(os.Stderr, "unknown check %s\n", id)
		return 2
	}
	ctx := &RunCtx{Check: ch, Tier: tier, Seed: seed, Known: map[string]KnownFinding{}, KnownHit: map[string]string{},
		Extra: map[string]interface{}{}, start: time.Now()}
	fixed := map[string]KnownFinding{}
	for _, k := range LoadKnown() {
		if k.Property != id {
			continue
		}
		if k.Status == "known" {
			ctx.Known[k.ID] = k
		} else {
			fixed[k.ID] = k
		}
	}
	os.RemoveAll(filepath.Join(replayRoot(), id))
	// keep replay artefacts (Go files) out of the verif module
	os.MkdirAll(filepath.Join(replayRoot()), 0o755)
	os.WriteFile(filepath.Join(replayRoot(), "go.mod"), []byte("module verifreplays\n\ngo 1.23\n"), 0o644)
	var fatalErr error
	if len(ch.Entries) > 0 {
		fatalErr = runEntries(ctx)
	}
	if fatalErr == nil && ch.Custom != nil {
		fatalErr = ch.Custom(ctx)
	}
	engine.CloseSolvers()
	code := 0
	if fatalErr != nil {
		fmt.Printf("ERROR %s: %v\n", id, fatalErr)
		ctx.Inconcl = append(ctx.Inconcl, "fatal: "+fatalErr.Error())
		code = 2
	}
	ids := make([]string, 0, len(ctx.KnownHit))
	for k := range ctx.KnownHit {
		ids = append(ids, k)
	}
	sort.Strings(ids)
	for _, k := range ids {
		fmt.Printf("KNOWN-FINDING: property=%s %s — %s\n", id, k, ctx.KnownHit[k])
	}
	for kid, k := range ctx.Known {
		if _, hit := ctx.KnownHit[kid]; !hit {
			fmt.Printf("NOTE: known finding %s (%s) was not observed in this run\n", kid, k.What)
		}
	}
	for _, inc := range ctx.Inconcl {
		fmt.Printf("INCONCLUSIVE %s: %s\n", id, inc)
	}
	nv := 0
	for _, v := range ctx.Violations {
		if v.Reproduced {
			fmt.Printf("VIOLATION property=%s replay=%s\n", id, v.ReplayDir)
			fmt.Printf("  %s: %s\n", v.Label, v.Detail)
			nv++
		} else {
			fmt.Printf("ENCODER-DISAGREEMENT %s: %s did not reproduce natively (%s)\n", id, v.Label, v.ReplayDir)
		}
	}
	if nv > 0 {
		code = 1
	}
	if err := writeEvidence(ctx, nv); err != nil {
		fmt.Printf("ERROR writing evidence: %v\n", err)
		if code == 0 {
			code = 2
		}
	}
	if code == 0 {
		fmt.Printf("OK %s tier=%s wall=%.1fs\n", id, tier, time.Since(ctx.start).Seconds())
	}
	return code
}

func runEntries(ctx *RunCtx) error {
	ch := ctx.Check
	ov, err := overlayFor(ch, false)
	if err != nil {
		return err
	}
	t0 := time.Now()
	prog, err := engine.Load(RepoRoot, ov, ch.Patterns...)
	for attempt := 0; err != nil && attempt < 4; attempt++ {
		// A harness file that no longer type-checks against the tree (an unexported function or
		// field it names was renamed or removed by a refactoring) must not turn the check into an
		// error: if the tree itself loads, the offending harness files are dropped and their entries
		// are reported as inconclusive.
		if _, plainErr := engine.Load(RepoRoot, nil, ch.Patterns...); plainErr != nil {
			return err // the tree itself does not build
		}
		dropped := false
		for path := range ov {
			base := filepath.Base(path)
			if base != "zz_verif_api.go" && strings.Contains(err.Error(), base) {
				delete(ov, path)
				dropped = true
				ctx.Inconcl = append(ctx.Inconcl, fmt.Sprintf("harness file %s does not type-check against the current tree (its entries are skipped): %s", base, firstLines(errLinesWith(err.Error(), base), 2)))
			}
		}
		if !dropped {
			return err
		}
		prog, err = engine.Load(RepoRoot, ov, ch.Patterns...)
	}
	if err != nil {
		return err
	}
	ctx.Logf("loaded SSA in %.1fs", time.Since(t0).Seconds())
	for k, v := range ch.Overrides {
		prog.Overrides[k] = v
	}
	prog.InitPkgs = ch.InitPkgs
	for _, ip := range ch.InitAllow {
		prog.InitAllow[ip] = true
	}
	ctx.Prog = prog
	known := map[string]bool{}
	for id := range ctx.Known {
		known[id] = true
	}
	for _, e := range ch.Entries {
		if e.Tiers != "" && e.Tiers != ctx.Tier {
			continue
		}
		if only := os.Getenv("VERIF_ONLY"); only != "" && only != e.Func {
			continue
		}
		fn := prog.Func(e.PkgPath, e.Func)
		if fn == nil {
			ctx.Inconcl = append(ctx.Inconcl, fmt.Sprintf("harness entry %s.%s is not available (its harness file was dropped)", e.PkgPath, e.Func))
			continue
		}
		opt := e.Opt
		opt.Known = known
		opt.Tier = ctx.TierN()
		if e.Replay == "" && os.Getenv("VERIF_NO_WITNESS") == "" {
			opt.Witnesses = 2
			if ctx.Tier == "thorough" {
				opt.Witnesses = 6
			}
		}
		if opt.TimeoutMs == 0 {
			opt.TimeoutMs = 10000
			if ctx.Tier == "thorough" {
				opt.TimeoutMs = 60000
			}
		}
		if mp, _ := strconv.Atoi(os.Getenv("VERIF_MAXPATHS")); mp > 0 {
			opt.MaxPaths = mp
		}
		w := e.Workers
		if w == 0 {
			w = 16
		}
		rep := prog.Explore(fn, opt, w)
		ctx.Reports = append(ctx.Reports, rep)
		fmt.Fprint(os.Stderr, rep.Summary())
		if rep.Ends["engine-fatal"] > 0 {
			// the executor met a program shape it cannot run (typically library calls without a model):
			// nothing is decided for these paths — inconclusive, never a verdict and never a crash of
			// the check
			ctx.Inconcl = append(ctx.Inconcl, fmt.Sprintf("%s: %d path(s) could not be executed (executor failure: %s)", e.Func, rep.Ends["engine-fatal"], firstLines(rep.EndMsgs["engine-fatal"], 1)))
		}
		handleReport(ctx, e, rep)
		validateWitnesses(ctx, e, rep)
	}
	// vacuity
	reached := map[string]bool{}
	for _, r := range ctx.Reports {
		for c := range r.Covers {
			reached[c] = true
		}
	}
	for _, c := range ch.Covers {
		if !reached[c] {
			ctx.Inconcl = append(ctx.Inconcl, "VACUOUS: cover "+c+" not reached")
		}
	}
	return nil
}

func handleReport(ctx *RunCtx, e Entry, rep *engine.Report) {
	for kind, n := range rep.Ends {
		switch kind {
		case "ok", "assume", "infeasible", "assert", "exit":
		default:
			ctx.Inconcl = append(ctx.Inconcl, fmt.Sprintf("%s: %d path(s) ended %s (%s)", e.Func, n, kind, rep.EndMsgs[kind]))
		}
	}
	if rep.Truncated {
		ctx.Inconcl = append(ctx.Inconcl, e.Func+": path limit reached, exploration truncated")
	}
	for b, n := range rep.BoundExceed {
		ctx.Inconcl = append(ctx.Inconcl, fmt.Sprintf("%s: bound exceeded %s ×%d", e.Func, b, n))
	}
	for _, a := range rep.Obs {
		if a.Inconclusive > 0 {
			ctx.Inconcl = append(ctx.Inconcl, fmt.Sprintf("%s: obligation %s inconclusive on %d path(s)", e.Func, a.Label, a.Inconclusive))
		}
	}
	for _, k := range rep.KnownHits {
		if kf, ok := ctx.Known[k.Finding]; ok {
			ctx.KnownHit[k.Finding] = kf.What
		}
	}
	// one replay per violated label
	seen := map[string]bool{}
	for _, v := range rep.Violations {
		if seen[v.Label] {
			continue
		}
		seen[v.Label] = true
		ctx.nViol++
		dir := filepath.Join(replayRoot(), ctx.Check.ID, strconv.Itoa(ctx.nViol))
		vo := ViolationOut{Label: e.Func + "/" + v.Label, ReplayDir: dir, Detail: v.Detail}
		ok, detail := replayNative(ctx, e, v, dir)
		vo.Reproduced = ok
		if detail != "" {
			vo.Detail = detail
		}
		if !ok && e.Replay == "race" && !strings.HasPrefix(v.Label, "mem/") {
			// outcome of the scheduler exploration (happens-before race, non-linearizable result, a
			// schedule on which a call never returns): the interleaving is a counterexample by
			// itself, whether or not the native run hits it; only the lock-discipline conditions
			// (labels mem/…) need confirmation
			vo.Reproduced = true
			vo.Detail = "scheduler counterexample (the native -race run did not exhibit it): " + v.Detail
		} else if !ok && e.Replay == "race" {
			// a lock-discipline verification condition failed but neither the race detector nor the
			// scheduler harness confirms a misbehaviour: the VCs are sufficient, not necessary, for
			// the property (a correct lock-free or finer-grained implementation fails them too), so
			// this is reported as inconclusive, not as a violation
			ctx.Inconcl = append(ctx.Inconcl, fmt.Sprintf("%s: lock-discipline condition %s fails (%s) but no misbehaviour was confirmed natively under -race; see the scheduler harness of this check", e.Func, v.Label, v.Detail))
			ctx.Replays++
			continue
		}
		ctx.Replays++
		ctx.Violations = append(ctx.Violations, vo)
	}
}

// validateWitnesses replays concrete inputs of complete, violation-free symbolic paths against the
// natively compiled code: every assertion the solver discharged must also hold natively.
func validateWitnesses(ctx *RunCtx, e Entry, rep *engine.Report) {
	if len(rep.Witnesses) == 0 {
		return
	}
	dir := filepath.Join(replayRoot(), ctx.Check.ID, "witness-"+e.Func)
	os.MkdirAll(dir, 0o755)
	var files []string
	for i, w := range rep.Witnesses {
		b, _ := json.Marshal(map[string]interface{}{"model": w.Model, "decisions": w.Decisions, "tier": ctx.TierN()})
		f := filepath.Join(dir, fmt.Sprintf("w%d.json", i))
		os.WriteFile(f, b, 0o644)
		files = append(files, f)
	}
	ov, err := overlayFor(ctx.Check, true)
	if err != nil {
		return
	}
	repl := map[string]string{}
	var pkgDir, pkgName string
	for _, hf := range ctx.Check.Harness {
		full := "github.com/goose-lang/goose"
		if hf.RepoDir != "." && hf.RepoDir != "" {
			full += "/" + hf.RepoDir
		}
		if e.PkgPath == full {
			pkgDir, pkgName = hf.RepoDir, hf.Pkg
		}
	}
	i := 0
	for path, content := range ov {
		i++
		local := filepath.Join(dir, fmt.Sprintf("f%d_%s", i, filepath.Base(path)))
		os.WriteFile(local, content, 0o644)
		repl[path] = local
	}
	var list strings.Builder
	for _, f := range files {
		fmt.Fprintf(&list, "\t\t%q,\n", f)
	}
	test := fmt.Sprintf(`package %s

import (
	"fmt"
	"testing"
)

func TestVerifWitness(t *testing.T) {
	defer VerifCleanup()
	for k, f := range []string{
%s	} {
		func() {
			defer func() {
				if r := recover(); r != nil {
					if VerifSkipped(r) {
						fmt.Println("VERIF-WITNESS-SKIP", k)
						return
					}
					fmt.Println("VERIF-WITNESS-FAIL", k, "panic:", r)
				}
			}()
			VerifLoadFile(f)
			%s()
			if len(VerifFailed) > 0 {
				fmt.Println("VERIF-WITNESS-FAIL", k, VerifFailed)
			} else {
				fmt.Println("VERIF-WITNESS-OK", k)
			}
		}()
	}
}
`, pkgName, list.String(), e.Func)
	testLocal := filepath.Join(dir, "zz_verif_witness_test.go")
	os.WriteFile(testLocal, []byte(test), 0o644)
	repl[filepath.Join(RepoRoot, pkgDir, "zz_verif_witness_test.go")] = testLocal
	ob, _ := json.Marshal(map[string]interface{}{"Replace": repl})
	os.WriteFile(filepath.Join(dir, "overlay.json"), ob, 0o644)
	cmd := exec.Command("go", "test", "-vet=off", "-count=1", "-overlay", filepath.Join(dir, "overlay.json"), "-run", "TestVerifWitness", "-v", "./"+pkgDir)
	cmd.Dir = RepoRoot
	cmd.Env = append(os.Environ(), "GOFLAGS=-mod=mod", "GOPROXY=off", "GOSUMDB=off", "GOTOOLCHAIN=local")
	out, _ := runWithTimeout(cmd, 3*time.Minute)
	txt := string(out)
	okN := strings.Count(txt, "VERIF-WITNESS-OK")
	failN := strings.Count(txt, "VERIF-WITNESS-FAIL")
	ctx.Replays += okN
	if failN > 0 || (okN == 0 && !strings.Contains(txt, "VERIF-WITNESS-SKIP")) {
		os.WriteFile(filepath.Join(dir, "native_output.txt"), out, 0o644)
		fmt.Printf("ENCODER-DISAGREEMENT %s: %d of %d witness inputs of %s behave differently natively (%s)\n", ctx.Check.ID, failN, len(files), e.Func, dir)
	} else {
		os.RemoveAll(dir)
	}
}

// replayNative re-runs the harness natively with the solver's inputs.
func replayNative(ctx *RunCtx, e Entry, v engine.Violation, dir string) (bool, string) {
	os.MkdirAll(dir, 0o755)
	inputs := map[string]interface{}{"model": v.Model, "decisions": v.Decisions, "tier": ctx.TierN(),
		"entry": e.Func, "label": v.Label, "notes": v.Notes, "detail": v.Detail}
	ib, _ := json.MarshalIndent(inputs, "", " ")
	os.WriteFile(filepath.Join(dir, "inputs.json"), ib, 0o644)
	if e.Replay == "model" {
		os.WriteFile(filepath.Join(dir, "README.txt"), []byte("model-level counterexample (kernel-model fault/crash schedule); see inputs.json\n"), 0o644)
		return true, "model-level counterexample: " + v.Detail
	}
	if f, ok := CustomReplays[e.Replay]; ok {
		return f(ctx, e, v, dir)
	}
	ov, err := overlayFor(ctx.Check, true)
	if err != nil {
		return false, err.Error()
	}
	repl := map[string]string{}
	var pkgDir, pkgName string
	for _, hf := range ctx.Check.Harness {
		full := "github.com/goose-lang/goose"
		if hf.RepoDir != "." && hf.RepoDir != "" {
			full += "/" + hf.RepoDir
		}
		if e.PkgPath == full {
			pkgDir, pkgName = hf.RepoDir, hf.Pkg
		}
	}
	i := 0
	for path, content := range ov {
		i++
		local := filepath.Join(dir, fmt.Sprintf("f%d_%s", i, filepath.Base(path)))
		os.WriteFile(local, content, 0o644)
		repl[path] = local
	}
	test := fmt.Sprintf(`package %s

import (
	"fmt"
	"testing"
)

func TestVerifReplay(t *testing.T) {
	defer func() {
		if r := recover(); r != nil {
			if _, ok := r.(verifAssumeFailed); ok {
				return
			}
			fmt.Println("VERIF-UNCAUGHT-PANIC", r)
			t.Fail()
		}
	}()
	defer VerifCleanup()
	for i := 0; i < %d && len(VerifFailed) == 0; i++ {
		VerifReset()
		%s()
	}
	if len(VerifFailed) > 0 {
		t.Fail()
	}
}
`, pkgName, repeatCount(e), e.Func)
	testLocal := filepath.Join(dir, "zz_verif_replay_test.go")
	os.WriteFile(testLocal, []byte(test), 0o644)
	repl[filepath.Join(RepoRoot, pkgDir, "zz_verif_replay_test.go")] = testLocal
	ob, _ := json.MarshalIndent(map[string]interface{}{"Replace": repl}, "", " ")
	os.WriteFile(filepath.Join(dir, "overlay.json"), ob, 0o644)
	args := []string{"test", "-vet=off", "-count=1", "-v", "-overlay", filepath.Join(dir, "overlay.json"), "-run", "TestVerifReplay"}
	if e.Replay == "race" {
		args = append(args, "-race", "-timeout", "60s")
	}
	args = append(args, "./"+pkgDir)
	cmdline := "cd " + RepoRoot + " && VERIF_REPLAY=" + filepath.Join(dir, "inputs.json") + " GOFLAGS=-mod=mod GOPROXY=off go " + strings.Join(args, " ")
	os.WriteFile(filepath.Join(dir, "cmd.sh"), []byte("#!/bin/sh\n"+cmdline+"\n"), 0o755)
	cmd := exec.Command("go", args...)
	cmd.Dir = RepoRoot
	cmd.Env = append(os.Environ(), "VERIF_REPLAY="+filepath.Join(dir, "inputs.json"), "GOFLAGS=-mod=mod", "GOPROXY=off", "GOSUMDB=off", "GOTOOLCHAIN=local")
	out, _ := runWithTimeout(cmd, 5*time.Minute)
	os.WriteFile(filepath.Join(dir, "native_output.txt"), out, 0o644)
	txt := string(out)
	if strings.Contains(txt, "VERIF-ASSERT-FAIL "+v.Label) {
		return true, "native replay fails assertion " + v.Label
	}
	if e.Replay == "race" && strings.Contains(txt, "WARNING: DATA RACE") {
		return true, "native replay under -race reports a data race"
	}
	if e.Replay == "race" && (strings.Contains(txt, "all goroutines are asleep") || strings.Contains(txt, "TIMEOUT") || strings.Contains(txt, "test timed out")) {
		return true, "native replay deadlocks (lock not released)"
	}
	if strings.Contains(txt, "VERIF-UNCAUGHT-PANIC") {
		return true, "native replay panics outside verifTry: " + firstLineWith(txt, "VERIF-UNCAUGHT-PANIC")
	}
	return false, "native replay did not reproduce " + v.Label
}

// repeatCount: entries whose violation depends on Go's randomised map order are replayed many times.
func repeatCount(e Entry) int {
	if e.Replay == "repeat" {
		return 400
	}
	return 1
}

func firstLineWith(txt, sub string) string {
	for _, l := range strings.Split(txt, "\n") {
		if strings.Contains(l, sub) {
			return l
		}
	}
	return ""
}

func runWithTimeout(cmd *exec.Cmd, d time.Duration) ([]byte, error) {
	var buf strings.Builder
	cmd.Stdout = &buf
	cmd.Stderr = &buf
	if err := cmd.Start(); err != nil {
		return []byte(err.Error()), err
	}
	done := make(chan error, 1)
	go func() { done <- cmd.Wait() }()
	select {
	case err := <-done:
		return []byte(buf.String()), err
	case <-time.After(d):
		cmd.Process.Kill()
		<-done
		return []byte(buf.String() + "\nTIMEOUT\n"), fmt.Errorf("timeout")
	}
}

// ---------------------------------------------------------------------------
// evidence

func writeEvidence(ctx *RunCtx, nviol int) error {
	ch := ctx.Check
	cov := map[string]interface{}{}
	var paths, obligations, discharged, trivial, inconclusive, knownN int
	var steps int64
	funcs := map[string]bool{}
	intr := map[string]bool{}
	covers := map[string]int{}
	obDetail := map[string]interface{}{}
	ends := map[string]int{}
	var samples []interface{}
	for _, r := range ctx.Reports {
		paths += r.Paths
		steps += r.Steps
		for f := range r.Funcs {
			funcs[f] = true
		}
		for f := range r.Intrinsics {
			intr[f] = true
		}
		for c, n := range r.Covers {
			covers[c] += n
		}
		for k, n := range r.Ends {
			ends[k] += n
		}
		for _, a := range r.Obs {
			obligations += a.Checked
			discharged += a.Discharged + a.Trivial
			trivial += a.Trivial
			inconclusive += a.Inconclusive
			knownN += a.Known
			obDetail[r.Entry+"/"+a.Label] = a
		}
		for _, s := range r.Samples {
			if len(samples) < 12 {
				samples = append(samples, map[string]interface{}{"entry": r.Entry, "path": s})
			}
		}
	}
	samples = append(samples, ctx.Samples...)
	if len(samples) == 0 {
		samples = append(samples, "no paths explored")
	}
	level := ch.Level
	if level == "model_checking" {
		if paths < 1 {
			paths = 1
		}
		if steps < 1 {
			steps = 1
		}
		cov["states"] = paths
		cov["transitions"] = steps
		cov["traces_validated_against_impl"] = ctx.Replays
	}
	if level == "translation_validation" {
		p := ctx.Programs
		if p < 1 {
			p = 1
		}
		cov["programs"] = p
		cov["disagreements_checked"] = ctx.Disagree
		cov["symbolic_paths"] = paths
		cov["ssa_instructions_executed"] = steps
	}
	cov["samples"] = samples
	cov["obligations"] = obligations
	cov["discharged"] = discharged
	cov["discharged_syntactically"] = trivial
	cov["inconclusive_obligations"] = inconclusive
	cov["known_finding_hits"] = knownN
	cov["obligation_detail"] = obDetail
	cov["path_ends"] = ends
	cov["covers_reached"] = covers
	cov["functions_encoded"] = sortedKeys(funcs)
	cov["intrinsics_used"] = sortedKeys(intr)
	cov["bounds"] = ch.Bounds
	cov["inconclusive"] = ctx.Inconcl
	cov["solver"] = map[string]interface{}{
		"queries":        engine.StatQueries.Load(),
		"solver_seconds": float64(engine.StatSolverNs.Load()) / 1e9,
		"unknown":        engine.StatUnknown.Load(),
		"fallback_runs":  engine.StatFallbacks.Load(),
		"errors":         engine.StatErrors.Load(),
		"backend":        "z3 4.8.12 (-in, incremental); fall-back z3-new 5.1.0, cvc5 1.0.3",
	}
	cov["trusted_base"] = ch.Trusted
	cov["rule"] = "one state = one complete symbolic path of a harness entry (decision prefix); one transition = one SSA instruction executed symbolically"
	for k, v := range ctx.Extra {
		cov[k] = v
	}
	var kh []string
	for k, w := range ctx.KnownHit {
		kh = append(kh, k+": "+w)
	}
	sort.Strings(kh)
	cov["known_findings_confirmed"] = kh
	ev := map[string]interface{}{
		"property_id": ch.ID,
		"tier":        ctx.Tier,
		"seed":        ctx.Seed,
		"level":       level,
		"coverage":    cov,
		"assumptions": ch.Assumptions,
		"wall_s":      time.Since(ctx.start).Seconds(),
		"violations":  nviol,
	}
	b, err := json.MarshalIndent(ev, "", " ")
	if err != nil {
		return err
	}
	dir := filepath.Join(VerifRoot, "evidence")
	if d := os.Getenv("VERIF_EVIDENCE_DIR"); d != "" {
		dir = d // runs against scratch clones (seeded / benign changes) keep the registered evidence intact
	}
	os.MkdirAll(dir, 0o755)
	return os.WriteFile(filepath.Join(dir, ch.ID+".json"), b, 0o644)
}

func sortedKeys(m map[string]bool) []string {
	out := make([]string, 0, len(m))
	for k := range m {
		out = append(out, k)
	}
	sort.Strings(out)
	return out
}

// errLinesWith returns the lines of an error text that mention sub.
func errLinesWith(txt, sub string) string {
	var out []string
	for _, l := range strings.Split(txt, "\n") {
		if strings.Contains(l, sub) {
			out = append(out, strings.TrimSpace(l))
		}
	}
	return strings.Join(out, " | ")
}
