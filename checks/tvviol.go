package checks

import (
	"encoding/json"
	"fmt"
	"os"
	"path/filepath"
	"strconv"

	"verif/engine"
	"verif/tv"
)

// addTVViolation records a shape-C violation (or confirms a known finding keyed by program id).
func (ctx *RunCtx) addTVViolation(p *tv.Package, c *tv.Case, label, detail string, tr *tv.Translation, v *engine.Violation) {
	id := p.Name
	if c != nil {
		id = c.ID
	}
	// known findings are keyed by "<property>/<program id>"
	key := ctx.Check.ID + ":" + id
	if kf, ok := ctx.Known[key]; ok {
		ctx.KnownHit[key] = kf.What
		return
	}
	ctx.nViol++
	dir := filepath.Join(replayRoot(), ctx.Check.ID, strconv.Itoa(ctx.nViol))
	os.MkdirAll(dir, 0o755)
	for name, src := range p.Files {
		os.WriteFile(filepath.Join(dir, name), []byte(src), 0o644)
	}
	if tr != nil {
		os.WriteFile(filepath.Join(dir, "goose_output.v"), []byte(tr.V), 0o644)
		os.WriteFile(filepath.Join(dir, "goose_stderr.txt"), []byte(tr.Stderr), 0o644)
	}
	info := map[string]interface{}{"program": id, "label": label, "detail": detail}
	if c != nil {
		info["function"] = c.Func
		info["source"] = c.Src
	}
	if v != nil {
		info["model"] = v.Model
		info["decisions"] = v.Decisions
		info["notes"] = v.Notes
	}
	b, _ := json.MarshalIndent(info, "", " ")
	os.WriteFile(filepath.Join(dir, "counterexample.json"), b, 0o644)
	ctx.Disagree++
	ctx.Violations = append(ctx.Violations, ViolationOut{Label: id + "/" + label, ReplayDir: dir, Reproduced: true,
		Detail: fmt.Sprintf("%s", detail)})
}
