package checks

import "verif/engine"

const testgenPkg = "github.com/goose-lang/goose/cmd/test_gen"

func init() {
	hf := []HarnessFile{{RepoDir: "cmd/test_gen", Pkg: "main", Src: "test_gen/zz_verif_c18.go"}}
	big := engine.Options{Budget: 5_000_000, MaxPaths: 3_000_000}
	Register(&Check{
		ID:       "C18",
		Level:    "model_checking",
		Patterns: []string{"./cmd/test_gen"},
		Harness:  hf,
		Entries: []Entry{
			{PkgPath: testgenPkg, Func: "verifC18OneFile", Opt: big, Replay: "testgen"},
			{PkgPath: testgenPkg, Func: "verifC18TwoFiles", Opt: big, Replay: "testgen"},
			{PkgPath: testgenPkg, Func: "verifC18Usage", Opt: big, Replay: "testgen"},
			{PkgPath: testgenPkg, Func: "verifC18LongLine", Opt: big, Replay: "testgen"},
			{PkgPath: testgenPkg, Func: "verifC18Scenarios", Opt: big, Replay: "testgen"},
		},
		Covers: []string{"c18/run", "c18/some-test", "c18/usage", "c18/longline", "c18/scenarios"},
		Bounds: "directory of 1 file × 1 line (quick) / 2 lines (thorough) of exactly 20 bytes, or 2 files × 1 line of 12 (quick) / 19 (thorough) bytes; file names of exactly 9 bytes; every byte symbolic (no '/' or NUL in names, no newline in lines); three larger concrete directories (six file names that sort differently under case-insensitive or numeric collation; a file of near-miss and unusual headers incl. a 55-character name, CRLF lines, tabs, methods, comments; a file with 130 test functions); a file with a comment line of 65535, 65536 or 70000 bytes between two test functions (bufio.Scanner's token limit is modelled); both generators run on the same directory and are compared byte-for-byte with the oracle's expected output",
		Assumptions: []string{
			"flag, os.ReadDir/Open/Create, bufio.Scanner (line mode) and fmt.Fprint* are intrinsics; os.ReadDir returns entries sorted by name",
			"the two real regexp constants are compiled by the host's regexp/syntax and matched by a symbolic leftmost-first backtracker at byte level (sound for these ASCII-only patterns)",
			"compilation of the generated Go file is not checked",
		},
		Trusted: []string{"gosym executor", "z3 4.8.12", "symbolic regexp matcher", "oracle verifHeader/verifSkipped in harness/test_gen"},
	})
}

// native replay for C18: materialise the solver's directory, run the real test_gen twice, compare with the oracle.
func init() {
	CustomReplays["testgen"] = replayTestGen
}
