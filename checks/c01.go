package checks

import (
	"fmt"
	"go/ast"
	"go/parser"
	"go/token"
	"sort"
	"strconv"
	"strings"
	"sync"
	"time"

	"verif/engine"
	"verif/gen"
	"verif/gl"
	"verif/tv"
)

// tvRun validates a corpus of generated packages (shape C). mode "subset": every case must be
// accepted and equivalent; mode "lookalike": every case must be rejected or equivalent.
// tvOpts selects what tvRun checks.
type tvOpts struct {
	Mode     string // "subset" or "lookalike"
	Validate bool   // compare Go and GooseLang behaviour of every case
	Census   string // "", "order" (C04: names, uniqueness, definition order), "errors" (C07: totality on the corpus), "all"
	// Random corpora: wall-clock budget per function and solver time-out per query (0 = defaults)
	CaseDeadlineS  int
	QueryTimeoutMs int
	// Only: validate only the cases whose id it accepts (nil = all)
	Only func(id string) bool
}

// tvRandom validates a grammar-derived corpus: rejected, or accepted and equivalent; every
// function gets a wall-clock budget so that one solver-hard program cannot stall the check (it
// is then reported as inconclusive, not as held).
func tvRandom(ctx *RunCtx, pkgs []*tv.Package) error {
	o := tvOpts{Mode: "lookalike", Validate: true, CaseDeadlineS: 20, QueryTimeoutMs: 5000}
	if ctx.Tier == "thorough" {
		o.CaseDeadlineS, o.QueryTimeoutMs = 120, 20000
	}
	return tvRunOpts(ctx, pkgs, o)
}

// methodRejected: goose reported a conversion error located inside the declaration of method m of
// type T (the method was refused, so a reference to T__m from another declaration is expected to dangle;
// goose exits non-zero and writes nothing unless -ignore-errors is given).
func methodRejected(p *tv.Package, tr *tv.Translation, T, m string) bool {
	for fname, src := range p.Files {
		fset := token.NewFileSet()
		f, err := parser.ParseFile(fset, fname, src, 0)
		if err != nil {
			continue
		}
		for _, d := range f.Decls {
			fd, ok := d.(*ast.FuncDecl)
			if !ok || fd.Recv == nil || len(fd.Recv.List) == 0 || fd.Name.Name != m {
				continue
			}
			rt := fd.Recv.List[0].Type
			if st, ok := rt.(*ast.StarExpr); ok {
				rt = st.X
			}
			if id, ok := rt.(*ast.Ident); !ok || id.Name != T {
				continue
			}
			from, to := fset.Position(fd.Pos()).Line, fset.Position(fd.End()).Line
			for _, e := range tr.Errors {
				if e.File == fname && e.Line >= from && e.Line <= to {
					return true
				}
			}
		}
	}
	return false
}

// firstCaseLine: the first line of the first case of the file (everything before it is the prelude).
func firstCaseLine(p *tv.Package, file string) int {
	first := 1 << 30
	for _, c := range p.Cases {
		if c.File == file && c.FromLine < first {
			first = c.FromLine
		}
	}
	return first
}

func tvRun(ctx *RunCtx, pkgs []*tv.Package, mode string) error {
	return tvRunOpts(ctx, pkgs, tvOpts{Mode: mode, Validate: true})
}

func tvRunOpts(ctx *RunCtx, pkgs []*tv.Package, o tvOpts) error {
	mode := o.Mode
	d, err := tv.NewDriver(RepoRoot)
	if err != nil {
		return err
	}
	defer d.Close()
	bounds := tv.DefaultBounds
	if ctx.Tier == "thorough" {
		bounds.MaxSlice, bounds.MaxStr, bounds.TimeoutMs = 3, 3, 60000
	}
	if o.CaseDeadlineS > 0 {
		bounds.DeadlineS, bounds.TimeoutMs = o.CaseDeadlineS, o.QueryTimeoutMs
		bounds.MaxSlice, bounds.MaxStr = 2, 2
	}
	nfunc, ncompared, nrejected, nskipped := 0, 0, 0, 0
	// functions of all packages are validated by one pool of 16 workers while the following
	// packages are being translated
	var mu sync.Mutex
	var wg sync.WaitGroup
	sem := make(chan struct{}, 16)
	var firstErr error
	defer wg.Wait()
	for qi := 0; qi < len(pkgs); qi++ {
		p := pkgs[qi]
		if err := d.WritePackage(p); err != nil {
			return err
		}
		tr := d.Translate(p)
		mu.Lock()
		ctx.Programs += len(p.Cases)
		mu.Unlock()
		if tr.Crashed && len(p.Cases) > 1 {
			// isolate the declaration that crashes goose: one package per case
			pkgs = append(pkgs, p.Singletons()...)
			mu.Lock()
			ctx.Programs -= len(p.Cases)
			mu.Unlock()
			continue
		}
		if tr.Crashed {
			mu.Lock()
			ctx.addTVViolation(p, &p.Cases[0], "goose/crash", fmt.Sprintf("goose exited with status %d (not a structured error): %s", tr.Exit, firstLines(tr.Stderr, 6)), tr, nil)
			mu.Unlock()
			continue
		}
		if tr.V == "" && (o.CaseDeadlineS > 0 || strings.HasPrefix(p.Name, "rlk") || strings.HasPrefix(p.Name, "rnd") || strings.HasPrefix(p.Name, "rlb")) {
			// a grammar-derived package that does not load (a generator defect, not goose's): isolate the
			// function and report it as inconclusive instead of failing the whole check
			if len(p.Cases) > 1 {
				pkgs = append(pkgs, p.Singletons()...)
				mu.Lock()
				ctx.Programs -= len(p.Cases)
				mu.Unlock()
			} else {
				mu.Lock()
				ctx.Inconcl = append(ctx.Inconcl, fmt.Sprintf("%s: generated program does not load: %s", p.Cases[0].ID, firstLines(tr.Stderr, 3)))
				mu.Unlock()
			}
			continue
		}
		if tr.V == "" && p.Isolated && strings.Contains(tr.Stderr, "could not load package") {
			// cutting the case out of its package left something that does not compile (a defect of the
			// isolation step, not of goose): this case is undecided, the others go on
			mu.Lock()
			ctx.Inconcl = append(ctx.Inconcl, fmt.Sprintf("%s: isolated program does not load: %s", p.Cases[0].ID, firstLines(tr.Stderr, 3)))
			mu.Unlock()
			continue
		}
		if tr.V == "" {
			return fmt.Errorf("goose produced no output for package %s (exit %d): %s", p.Name, tr.Exit, firstLines(tr.Stderr, 10))
		}
		file, perr := gl.Parse(tr.V)
		if perr != nil && len(p.Cases) > 1 {
			// isolate the declaration whose output does not parse: one package per case
			pkgs = append(pkgs, p.Singletons()...)
			mu.Lock()
			ctx.Programs -= len(p.Cases)
			mu.Unlock()
			continue
		}
		if perr != nil {
			if _, isLex := perr.(*gl.LexError); isLex {
				mu.Lock()
				ctx.addTVViolation(p, nil, "output/lexically-well-formed", perr.Error(), tr, nil)
				mu.Unlock()
			} else {
				mu.Lock()
				ctx.Inconcl = append(ctx.Inconcl, fmt.Sprintf("package %s: output uses a form the GooseLang parser does not know: %v", p.Name, perr))
				mu.Unlock()
			}
			continue
		}
		// imported packages of the corpus program: their definitions come first, under dep.X
		depOK := true
		for _, dep := range sortedKeysOf(p.Deps) {
			df, derr := gl.Parse(tr.DepV[dep])
			if derr != nil || tr.DepV[dep] == "" {
				mu.Lock()
				ctx.Inconcl = append(ctx.Inconcl, fmt.Sprintf("package %s: imported package %s has no parsable translation (%v)", p.Name, dep, derr))
				mu.Unlock()
				depOK = false
				break
			}
			gl.Qualify(df, dep)
			var decls []*gl.Decl
			for _, dd := range df.Decls {
				if dd.Kind != "other" {
					decls = append(decls, dd)
				}
			}
			file.Decls = append(decls, file.Decls...)
		}
		if !depOK {
			continue
		}
		glp, issues := gl.LoadFile(file)
		for _, is := range issues {
			switch is.Kind {
			case "unknown-ident":
				// goose names the definition of method m of type T "T__m": a reference to such a name
				// for a type declared in this very file, with no definition of that name anywhere, can
				// not be provided by any library — the output refers to something that does not exist
				if i := strings.Index(is.Name, "__"); i > 0 {
					if _, local := glp.Defs[is.Name[:i]]; local && !methodRejected(p, tr, is.Name[:i], is.Name[i+2:]) {
						mu.Lock()
						ctx.addTVViolation(p, nil, "emitted/reference-to-an-undefined-definition", fmt.Sprintf("%s mentions %s, which is defined nowhere", is.In, is.Name), tr, nil)
						mu.Unlock()
						continue
					}
				}
				if o.Validate {
					mu.Lock()
					ctx.Inconcl = append(ctx.Inconcl, fmt.Sprintf("package %s: %s", p.Name, is))
					mu.Unlock()
				}
			}
		}
		if o.Census != "" {
			cis, err := tv.Census(p, tr, glp, issues)
			if err != nil {
				return err
			}
			for _, ci := range cis {
				isOrder := strings.HasPrefix(ci.Label, "order/") || ci.Label == "census/distinct-names"
				isErr := strings.HasPrefix(ci.Label, "errors/")
				if (o.Census == "order" && isErr) || (o.Census == "errors" && isOrder) {
					continue
				}
				// attribute to the case whose source contains the declaration, if any
				var cc *tv.Case
				for i := range p.Cases {
					if ci.Decl != "" && declaredIn(p.Cases[i].Src, ci.Decl) {
						cc = &p.Cases[i]
						break
					}
				}
				mu.Lock()
				ctx.addTVViolation(p, cc, ci.Label, ci.Detail, tr, nil)
				mu.Unlock()
			}
			mu.Lock()
			ctx.Extra["declarations_counted"] = intExtra(ctx, "declarations_counted") + len(glp.Defs)
			mu.Unlock()
		}
		if !o.Validate {
			continue
		}
		prog, err := d.LoadSSA(p)
		if err != nil {
			return fmt.Errorf("generated package %s does not load (generator bug): %v", p.Name, err)
		}
		for _, c := range p.Cases {
			c := c
			wg.Add(1)
			sem <- struct{}{}
			go func() {
				defer wg.Done()
				defer func() { <-sem }()
				if err := func() error {
					mu.Lock()
					nfunc++
					mu.Unlock()
					if only := envOr("VERIF_CASE", ""); only != "" && !strings.Contains(c.ID, only) {
						return nil
					}
					if o.Only != nil && !o.Only(c.ID) {
						return nil
					}
					// did goose reject this declaration?
					var rej *tv.ConvError
					for i := range tr.Errors {
						e := &tr.Errors[i]
						if e.File == c.File && e.Line >= c.FromLine && e.Line <= c.ToLine {
							rej = e
							break
						}
						// an error located in the import declarations (e.g. a renaming or dot import) refuses
						// the file as a whole: every declaration that depends on the import is rejected with it
						if c.Reject != "" && e.File == c.File && e.Line > 0 && e.Line < firstCaseLine(p, c.File) && strings.Contains(e.Message, "import") {
							rej = e
							break
						}
					}
					if rej != nil {
						mu.Lock()
						defer mu.Unlock()
						nrejected++
						if mode == "subset" && c.Reject == "" {
							ctx.addTVViolation(p, &c, "accepted", fmt.Sprintf("subset program rejected: [%s] %s", rej.Category, rej.Message), tr, nil)
						}
						return nil
					}
					if c.Reject == "must" {
						mu.Lock()
						defer mu.Unlock()
						ctx.addTVViolation(p, &c, "rejected", "construct outside the subset was accepted", tr, nil)
						return nil
					}
					glName := c.Func
					if i := strings.Index(glName, "."); i >= 0 {
						glName = glName[:i] + "__" + glName[i+1:]
					}
					if _, ok := glp.Defs[glName]; !ok {
						mu.Lock()
						defer mu.Unlock()
						ctx.addTVViolation(p, &c, "emitted", "no definition "+glName+" in the output and no error reported for the declaration", tr, nil)
						return nil
					}
					fn := tv.FindFunc(prog, tv.ModPath+"/"+p.Name, c.Func)
					if fn == nil {
						return fmt.Errorf("generated function %s not found in SSA", c.Func)
					}
					t0 := time.Now()
					out := tv.ValidateFunc(prog, fn, glp.Clone(), glName, c, bounds, 1)
					rep := out.Report
					if el := time.Since(t0).Seconds(); el > 5 {
						ctx.Logf("slow case %s: %.1fs, %d paths", c.ID, el, rep.Paths)
					}
					mu.Lock()
					defer mu.Unlock()
					ctx.Reports = append(ctx.Reports, rep)
					if rep.Ends["engine-fatal"] > 0 {
						return fmt.Errorf("engine failure on %s: %s", c.ID, rep.EndMsgs["engine-fatal"])
					}
					if rep.Covers["compared"] > 0 {
						ncompared++
					} else {
						nskipped++
						ctx.Inconcl = append(ctx.Inconcl, fmt.Sprintf("%s: never compared (%v %v)", c.ID, rep.Ends, rep.EndMsgs))
					}
					for kind, n := range rep.Ends {
						switch kind {
						case "ok", "assume", "infeasible", "assert":
						default:
							ctx.Inconcl = append(ctx.Inconcl, fmt.Sprintf("%s: %d path(s) ended %s (%s)", c.ID, n, kind, rep.EndMsgs[kind]))
						}
					}
					seen := map[string]bool{}
					for _, v := range rep.Violations {
						if seen[v.Label] {
							continue
						}
						seen[v.Label] = true
						v := v
						ctx.addTVViolation(p, &c, v.Label, strings.Join(v.Notes, "; "), tr, &v)
					}
					if len(ctx.Samples) < 8 {
						ctx.Samples = append(ctx.Samples, map[string]interface{}{"program": c.ID, "paths": rep.Paths, "obligations": len(rep.Obs), "go": c.Src})
					}
					return nil
				}(); err != nil {
					mu.Lock()
					if firstErr == nil {
						firstErr = err
					}
					mu.Unlock()
				}
			}()
		}
		mu.Lock()
		fe := firstErr
		mu.Unlock()
		if fe != nil {
			break
		}
	}
	wg.Wait()
	if firstErr != nil {
		return firstErr
	}
	ctx.Extra["functions"] = intExtra(ctx, "functions") + nfunc
	ctx.Extra["functions_compared"] = intExtra(ctx, "functions_compared") + ncompared
	ctx.Extra["functions_rejected_by_goose"] = intExtra(ctx, "functions_rejected_by_goose") + nrejected
	ctx.Extra["functions_not_compared"] = intExtra(ctx, "functions_not_compared") + nskipped
	if o.CaseDeadlineS > 0 {
		ctx.Extra["random_functions"] = intExtra(ctx, "random_functions") + nfunc
		ctx.Extra["random_functions_compared"] = intExtra(ctx, "random_functions_compared") + ncompared
		ctx.Extra["random_functions_rejected_by_goose"] = intExtra(ctx, "random_functions_rejected_by_goose") + nrejected
	}
	return nil
}

func sortedKeysOf(m map[string]map[string]string) []string {
	var out []string
	for k := range m {
		out = append(out, k)
	}
	sort.Strings(out)
	return out
}

func intExtra(ctx *RunCtx, k string) int {
	v, _ := ctx.Extra[k].(int)
	return v
}

// declaredIn: does the Go source text declare name (func, method, type, const or var)?
func declaredIn(src, name string) bool {
	for _, pat := range []string{"func " + name + "(", ") " + name + "(", "type " + name + " ", "const " + name + " ", "var " + name + " "} {
		if strings.Contains(src, pat) {
			return true
		}
	}
	return false
}

func firstLines(s string, n int) string {
	ls := strings.Split(s, "\n")
	if len(ls) > n {
		ls = ls[:n]
	}
	return strings.Join(ls, " | ")
}

func envOrDefault(k, d string) string { return envOr(k, d) }

func init() {
	Register(&Check{
		ID:    "C01",
		Level: "translation_validation",
		Custom: func(ctx *RunCtx) error {
			if err := tvRun(ctx, gen.Subset(ctx.TierN()), "subset"); err != nil {
				return err
			}
			// programs using a second generated package
			if err := tvRun(ctx, gen.MultiPkg(), "subset"); err != nil {
				return err
			}
			// grammar-derived programs (fixed seeds): rejected, or accepted and equivalent
			return tvRandom(ctx, randomCorpus(ctx.TierN()))
		},
		Bounds: "programs: the generated subset corpus (gen.Subset; one translation rule or rule×context per function, compositions in thorough) plus grammar-derived programs with fixed seeds (gen.Random: 160 functions of statement depth ≤ 3 in quick, 4 seeds × 400 in thorough; nested if/else, early returns, three-clause / condition-only / range loops with break and continue, var and := bindings of eight types, stores through pointers, slices and maps, helper calls; multiplication/division only by literals; relation on these: rejected, or accepted and equivalent; 20 s (120 s) wall-clock per function, 5 s (20 s) per query, over-budget functions are reported inconclusive); inputs: all values of uint64/uint32/byte/bool, strings ≤ 2 (3) bytes, slices ≤ 2 (3) elements incl. nil and spare capacity, pointers to fresh structs, maps ≤ 2 entries; loop-controlling arguments ≤ 3",
		Assumptions: []string{
			"the GooseLang model (gl/) gives library functions their intended (Go) meaning; calibrated by requiring agreement on all non-failing tests of internal/examples/semantics and disagreement on exactly the failing_ ones",
			"paths on which Go panics are not compared; argument expressions of generated programs are side-effect free (GooseLang's right-to-left argument order is a documented divergence)",
		},
		Trusted: []string{"gosym executor", "z3 4.8.12", "GooseLang model (parser levels, library meanings)", "go/ssa as Go semantics"},
	})
}

// randomCorpus: the grammar-derived part of the C01 corpus (see gen/random.go).
func randomCorpus(level int) []*tv.Package {
	n, _ := strconv.Atoi(envOr("VERIF_RANDOM_N", "0"))
	if n > 0 {
		seed, _ := strconv.Atoi(envOr("VERIF_RANDOM_SEED", "1"))
		return gen.Random(int64(seed), n, 3)
	}
	if level == 0 {
		return gen.Random(1, 160, 3)
	}
	var out []*tv.Package
	for seed := int64(1); seed <= 4; seed++ {
		out = append(out, gen.Random(seed, 400, 3)...)
	}
	return out
}

var _ = engine.Unsat
