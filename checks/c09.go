package checks

import "verif/engine"

const diskPkg = "github.com/goose-lang/goose/machine/disk"
const asyncPkg = "github.com/goose-lang/goose/machine/async_disk"

func init() {
	hf := []HarnessFile{
		{RepoDir: "machine/disk", Pkg: "disk", Src: "disk/zz_verif_c09.go"},
		{RepoDir: "machine/async_disk", Pkg: "async_disk", Src: "async_disk/zz_verif_c09.go"},
		{RepoDir: "machine/disk", Pkg: "disk", Src: "disk/zz_verif_c09file.go"},
		{RepoDir: "machine/async_disk", Pkg: "async_disk", Src: "async_disk/zz_verif_c09file.go"},
	}
	big := engine.Options{Budget: 20_000_000}
	Register(&Check{
		ID:       "C09",
		Level:    "model_checking",
		Patterns: []string{"./machine/disk", "./machine/async_disk"},
		Harness:  hf,
		Entries: []Entry{
			{PkgPath: diskPkg, Func: "verifC09MemFresh", Opt: big},
			{PkgPath: diskPkg, Func: "verifC09MemStep", Opt: big},
			{PkgPath: diskPkg, Func: "verifC09MemGlobal", Opt: big},
			{PkgPath: diskPkg, Func: "verifC09MemTwo", Opt: big, Tiers: "thorough"},
			{PkgPath: diskPkg, Func: "verifC09MemHistory", Opt: big},
			{PkgPath: diskPkg, Func: "verifC09FileHistory", Opt: big},
			{PkgPath: diskPkg, Func: "verifC09MemGlobalHistory", Opt: big},
			{PkgPath: diskPkg, Func: "verifC09FileGlobalHistory", Opt: big},
			{PkgPath: asyncPkg, Func: "verifC09AsyncMemFresh", Opt: big},
			{PkgPath: asyncPkg, Func: "verifC09AsyncMemStep", Opt: big},
			{PkgPath: diskPkg, Func: "verifC09FileFresh", Opt: big},
			{PkgPath: diskPkg, Func: "verifC09FileStep", Opt: big},
			{PkgPath: diskPkg, Func: "verifC09FileGlobal", Opt: big},
			{PkgPath: diskPkg, Func: "verifC09FileTwo", Opt: big, Tiers: "thorough"},
			{PkgPath: asyncPkg, Func: "verifC09AsyncFileStep", Opt: big},
		},
		Covers: []string{"c09/history", "c09/global-history", "c09/fresh", "c09/read", "c09/readto", "c09/write", "c09/size", "c09/barrier"},
		Bounds: "n ≤ 3 blocks (forked); every block content (4096 symbolic bytes each), every 64-bit address, write-buffer length from {0,1,4095,4096,4097,8192}; one inductive step from an arbitrary reachable state (+ depth-2 histories in thorough); histories of arbitrary Read/ReadTo/Write/Barrier operations at arbitrary addresses from the zero state: 3 operations on a 5-block (8-block in thorough) memory disk; 2 (3) operations on a 5-block (8-block) file disk with a memory disk run side by side",
		Assumptions: []string{
			"every reachable disk state is reachable by one Write per block (so one step from that state covers histories of any length)",
			"ReadTo is exercised with block-sized buffers (the Block contract)",
		},
		Trusted: []string{"gosym executor and term simplifier", "z3 4.8.12", "kernel (POSIX) model for the file-backed disk"},
	})
}
