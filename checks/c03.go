package checks

import (
	"fmt"
	"strings"

	"verif/gen"
	"verif/gl"
	"verif/tv"
)

func runC03(ctx *RunCtx) error {
	d, err := tv.NewDriver(RepoRoot)
	if err != nil {
		return err
	}
	defer d.Close()
	maxPaths := 20000
	if ctx.Tier == "thorough" {
		maxPaths = 200000
	}
	totalGo, totalGL, queries := 0, 0, 0
	nrej := 0
	for _, p := range gen.Concurrent(ctx.TierN()) {
		if err := d.WritePackage(p); err != nil {
			return err
		}
		tr := d.Translate(p)
		ctx.Programs += len(p.Cases)
		if tr.Crashed || tr.V == "" {
			return fmt.Errorf("goose failed on the concurrent templates (exit %d): %s", tr.Exit, firstLines(tr.Stderr, 8))
		}
		file, perr := gl.Parse(tr.V)
		if perr != nil {
			return fmt.Errorf("cannot parse goose output for the concurrent templates: %v", perr)
		}
		glp, _ := gl.LoadFile(file)
		prog, err := d.LoadSSA(p)
		if err != nil {
			return err
		}
		for _, c := range p.Cases {
			if only := envOr("VERIF_CASE", ""); only != "" && !strings.Contains(c.ID, only) {
				continue
			}
			rejected := false
			for _, e := range tr.Errors {
				if e.File == c.File && e.Line >= c.FromLine && e.Line <= c.ToLine {
					rejected = true
					if c.Reject == "may" { // look-alike: rejection is one of the two allowed outcomes
						nrej++
						break
					}
					ctx.addTVViolation(p, &c, "accepted", fmt.Sprintf("concurrent subset program rejected: [%s] %s", e.Category, e.Message), tr, nil)
					rejected = true
					break
				}
			}
			if rejected {
				continue
			}
			fn := tv.FindFunc(prog, tv.ModPath+"/"+p.Name, c.Func)
			if fn == nil {
				return fmt.Errorf("template %s not found", c.Func)
			}
			res := tv.ValidateConc(prog, fn, glp, c.Func, c, maxPaths)
			totalGo += res.GoPaths
			totalGL += res.GLPaths
			queries += res.Queries
			ctx.Logf("%s: %d Go interleavings, %d GooseLang interleavings, %d queries, %d violations", c.ID, res.GoPaths, res.GLPaths, res.Queries, len(res.Violations))
			for _, inc := range res.Inconclusive {
				ctx.Inconcl = append(ctx.Inconcl, c.ID+": "+inc)
			}
			if len(res.Violations) > 0 {
				ctx.addTVViolation(p, &c, "outcomes", strings.Join(res.Violations, "; "), tr, nil)
			}
			if len(ctx.Samples) < 6 {
				s := map[string]interface{}{"template": c.ID, "go_interleavings": res.GoPaths, "goose_lang_interleavings": res.GLPaths}
				if len(res.GoOutcomes) > 0 {
					s["a_go_outcome"] = res.GoOutcomes[0]
				}
				ctx.Samples = append(ctx.Samples, s)
			}
		}
	}
	ctx.Extra["lookalikes_rejected"] = nrej
	ctx.Extra["go_interleavings"] = totalGo
	ctx.Extra["gooselang_interleavings"] = totalGL
	ctx.Extra["outcome_queries"] = queries
	return nil
}

func init() {
	Register(&Check{
		ID:     "C03",
		Level:  "translation_validation",
		Custom: runC03,
		Bounds: "18 race-free templates (struct holding a mutex, spawning inside a loop, spawn+join, captured variable, mutex counter, last writer wins, condvar hand-off, broadcast to two waiters, two Adds, goroutine with trailing statements, go as last statement of a block, lock protecting two cells, WaitTimeout with a signaller, Sleep) plus 10 concurrent look-alikes (go with parameters, named function with a mutable argument, defer, mutex by value, RWMutex, TryLock, channels, go method call, Once) for which rejection is the other allowed outcome, ≤ 3 threads, a symbolic uint64 argument each; all interleavings at synchronisation points on both sides (≤ 20 000 / 200 000 per side)",
		Assumptions: []string{
			"interleavings are ENUMERATED by the executor at synchronisation points (sound for data-race-free programs); the solver decides the outcome-set inclusion / determinism queries over the symbolic argument",
			"lock.*, waitgroup.*, Fork get the meaning of the Go primitives they model (FIFO wake-up for Signal); real-time behaviour of Sleep/WaitTimeout is not modelled (a timed wait may return at any moment)",
			"the GooseLang rule 'a racy access is stuck' is not modelled (templates are race-free by construction)",
		},
		Trusted: []string{"gosym scheduler", "GooseLang model incl. concurrency primitives", "z3 4.8.12"},
	})
}
