package checks

import (
	"fmt"
	"regexp"
	"strings"

	"verif/gen"
	"verif/gl"
	"verif/tv"
)

// flagInvariance: the real goose translates corpus packages under every combination of -typecheck and
// -source-comments; every definition of the baseline must be present with a byte-identical sentence
// (comments are not part of a sentence), and the extra sentences may only be Theorem/Proof/Hint.
// With -skip-interfaces no definition that is still emitted may change.
func flagInvariance(ctx *RunCtx) error {
	d, err := tv.NewDriver(RepoRoot)
	if err != nil {
		return err
	}
	defer d.Close()
	pkgs := gen.Subset(0)
	if len(pkgs) > 3 && ctx.Tier != "thorough" {
		pkgs = pkgs[:3]
	}
	combos := [][]string{{"-typecheck"}, {"-source-comments"}, {"-typecheck", "-source-comments"}, {"-skip-interfaces"}, {"-skip-interfaces", "-typecheck", "-source-comments"}}
	ndefs, nruns := 0, 0
	for _, p := range pkgs {
		if err := d.WritePackage(p); err != nil {
			return err
		}
		base := d.Translate(p)
		bf, err := gl.Parse(base.V)
		if err != nil {
			continue // reported by C01
		}
		baseDefs := map[string]string{}
		for _, dd := range bf.Decls {
			if dd.Kind != "other" && dd.Name != "" {
				baseDefs[dd.Name] = normalizeSentence(dd.Raw)
			}
		}
		for _, flags := range combos {
			tr := d.Translate(p, flags...)
			nruns++
			f, err := gl.Parse(tr.V)
			if err != nil {
				if _, isLex := err.(*gl.LexError); isLex {
					ctx.addTVViolation(p, nil, "flags/output-well-formed", strings.Join(flags, " ")+": "+err.Error(), tr, nil)
				}
				continue
			}
			seen := map[string]bool{}
			for _, dd := range f.Decls {
				if dd.Kind == "other" {
					first := strings.Fields(dd.Raw + " x")[0]
					switch first {
					case "Theorem", "Proof.", "Proof", "Hint", "From", "Section", "Context", "Local", "End", "Qed.", "typecheck.":
					default:
						ctx.addTVViolation(p, nil, "flags/only-lemmas-added", fmt.Sprintf("%s adds the sentence %q", strings.Join(flags, " "), firstLines(dd.Raw, 1)), tr, nil)
					}
					continue
				}
				seen[dd.Name] = true
				want, ok := baseDefs[dd.Name]
				if !ok {
					continue // e.g. interface conversions that only exist without -skip-interfaces
				}
				ndefs++
				if got := normalizeSentence(dd.Raw); got != want {
					ctx.addTVViolation(p, nil, "flags/definition-unchanged", fmt.Sprintf("%s changes definition %s", strings.Join(flags, " "), dd.Name), tr, nil)
				}
			}
			skip := false
			for _, fl := range flags {
				if fl == "-skip-interfaces" {
					skip = true
				}
			}
			if !skip {
				for name := range baseDefs {
					if !seen[name] {
						ctx.addTVViolation(p, nil, "flags/definition-unchanged", fmt.Sprintf("%s drops definition %s", strings.Join(flags, " "), name), tr, nil)
					}
				}
			}
		}
	}
	ctx.Extra["flag_invariance_definitions_compared"] = ndefs
	ctx.Extra["flag_invariance_goose_runs"] = nruns
	ctx.Programs += ndefs
	return nil
}

// normalizeSentence strips Coq comments (they are not part of the sentence Coq sees).
func normalizeSentence(s string) string {
	var sb strings.Builder
	depth := 0
	inStr := false
	for i := 0; i < len(s); i++ {
		if !inStr && strings.HasPrefix(s[i:], "(*") {
			depth++
			i++
			continue
		}
		if !inStr && depth > 0 && strings.HasPrefix(s[i:], "*)") {
			depth--
			i++
			continue
		}
		if s[i] == '"' {
			inStr = !inStr
		}
		if depth == 0 {
			sb.WriteByte(s[i])
		}
	}
	return strings.Join(strings.Fields(sb.String()), " ")
}

// c05Custom: flag invariance, then the empty-expression lint over the corpora.
func c05Custom(ctx *RunCtx) error {
	if err := flagInvariance(ctx); err != nil {
		return err
	}
	return emptyExprLint(ctx)
}

// forbiddenAdjacent: token pairs that cannot occur in a well-formed Coq term whatever notations are in
// scope — a binder, separator or keyword that requires an expression is followed by a token that
// cannot start one (the typical cause: a construct rendered as a comment only, e.g. a logging call,
// in a position where an expression is required).
var forbiddenAdjacent = []*regexp.Regexp{
	regexp.MustCompile(`:= (in\b|\)|\.$|;;|then\b|else\b)`),
	regexp.MustCompile(`;; (;;|\)|\.$|in\b|then\b|else\b)`),
	regexp.MustCompile(`\( (;;|in\b|then\b|else\b)`),
	regexp.MustCompile(`\b(then|else|in) (then\b|else\b|\)|\.$|;;|in\b)`),
	regexp.MustCompile(`\bif: (then|else)\b`),
	regexp.MustCompile(`, (\)|;;|in\b|,)`),
}

// emptyExprLint translates the rule corpora and the random look-alike corpus with the real goose
// and checks every emitted sentence, with comments removed and string literals masked, against
// forbiddenAdjacent.
func emptyExprLint(ctx *RunCtx) error {
	d, err := tv.NewDriver(RepoRoot)
	if err != nil {
		return err
	}
	defer d.Close()
	var pkgs []*tv.Package
	pkgs = append(pkgs, gen.Subset(0)...)
	pkgs = append(pkgs, gen.Lookalikes(0)...)
	pkgs = append(pkgs, gen.RandomLookalikes(1, 150+350*ctx.TierN(), 3)...)
	if ctx.TierN() > 0 {
		pkgs = append(pkgs, gen.Random(1, 400, 3)...)
	}
	nsent := 0
	for _, p := range pkgs {
		if err := d.WritePackage(p); err != nil {
			return err
		}
		tr := d.Translate(p)
		if tr.V == "" {
			continue
		}
		for _, sent := range splitSentences(tr.V) {
			nsent++
			for _, re := range forbiddenAdjacent {
				if m := re.FindString(sent); m != "" {
					ctx.addTVViolation(p, nil, "output/no-empty-expression", fmt.Sprintf("%q in sentence %s", m, firstLines(sent, 1)), tr, nil)
					break
				}
			}
		}
	}
	ctx.Extra["lint_sentences"] = nsent
	ctx.Programs += nsent
	return nil
}

// splitSentences removes comments, masks string literals, puts spaces around parentheses and
// returns the whitespace-normalised sentences (split at a '.' followed by a line break).
func splitSentences(v string) []string {
	var sb strings.Builder
	depth := 0
	inStr := false
	for i := 0; i < len(v); i++ {
		if !inStr && strings.HasPrefix(v[i:], "(*") {
			depth++
			i++
			continue
		}
		if !inStr && depth > 0 && strings.HasPrefix(v[i:], "*)") {
			depth--
			i++
			continue
		}
		if depth > 0 {
			continue
		}
		if v[i] == '"' {
			if !inStr {
				sb.WriteString(" S ")
			}
			inStr = !inStr
			continue
		}
		if inStr {
			continue
		}
		switch v[i] {
		case '(', ')', ',':
			sb.WriteByte(' ')
			sb.WriteByte(v[i])
			sb.WriteByte(' ')
		default:
			sb.WriteByte(v[i])
		}
	}
	var out []string
	for _, s := range strings.Split(sb.String(), ".\n") {
		s = strings.Join(strings.Fields(s), " ")
		if s != "" {
			out = append(out, s+" .")
		}
	}
	return out
}
