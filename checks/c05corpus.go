package checks

import (
	"fmt"
	"strings"

	"verif/gen"
	"verif/gl"
	"verif/tv"
)

// flagInvariance: the real goose translates corpus packages under every combination of -typecheck and
// -source-comments; every definition of the baseline must be present with a byte-identical sentence
// (comments are not part of a sentence), and the extra sentences may only be Theorem/Proof/Hint.
// With -skip-interfaces no definition that is still emitted may change.
func flagInvariance(ctx *RunCtx) error {
	d, err := tv.NewDriver(RepoRoot)
	if err != nil {
		return err
	}
	defer d.Close()
	pkgs := gen.Subset(0)
	if len(pkgs) > 3 && ctx.Tier != "thorough" {
		pkgs = pkgs[:3]
	}
	combos := [][]string{{"-typecheck"}, {"-source-comments"}, {"-typecheck", "-source-comments"}, {"-skip-interfaces"}, {"-skip-interfaces", "-typecheck", "-source-comments"}}
	ndefs, nruns := 0, 0
	for _, p := range pkgs {
		if err := d.WritePackage(p); err != nil {
			return err
		}
		base := d.Translate(p)
		bf, err := gl.Parse(base.V)
		if err != nil {
			continue // reported by C01
		}
		baseDefs := map[string]string{}
		for _, dd := range bf.Decls {
			if dd.Kind != "other" && dd.Name != "" {
				baseDefs[dd.Name] = normalizeSentence(dd.Raw)
			}
		}
		for _, flags := range combos {
			tr := d.Translate(p, flags...)
			nruns++
			f, err := gl.Parse(tr.V)
			if err != nil {
				if _, isLex := err.(*gl.LexError); isLex {
					ctx.addTVViolation(p, nil, "flags/output-well-formed", strings.Join(flags, " ")+": "+err.Error(), tr, nil)
				}
				continue
			}
			seen := map[string]bool{}
			for _, dd := range f.Decls {
				if dd.Kind == "other" {
					first := strings.Fields(dd.Raw + " x")[0]
					switch first {
					case "Theorem", "Proof.", "Proof", "Hint", "From", "Section", "Context", "Local", "End", "Qed.", "typecheck.":
					default:
						ctx.addTVViolation(p, nil, "flags/only-lemmas-added", fmt.Sprintf("%s adds the sentence %q", strings.Join(flags, " "), firstLines(dd.Raw, 1)), tr, nil)
					}
					continue
				}
				seen[dd.Name] = true
				want, ok := baseDefs[dd.Name]
				if !ok {
					continue // e.g. interface conversions that only exist without -skip-interfaces
				}
				ndefs++
				if got := normalizeSentence(dd.Raw); got != want {
					ctx.addTVViolation(p, nil, "flags/definition-unchanged", fmt.Sprintf("%s changes definition %s", strings.Join(flags, " "), dd.Name), tr, nil)
				}
			}
			skip := false
			for _, fl := range flags {
				if fl == "-skip-interfaces" {
					skip = true
				}
			}
			if !skip {
				for name := range baseDefs {
					if !seen[name] {
						ctx.addTVViolation(p, nil, "flags/definition-unchanged", fmt.Sprintf("%s drops definition %s", strings.Join(flags, " "), name), tr, nil)
					}
				}
			}
		}
	}
	ctx.Extra["flag_invariance_definitions_compared"] = ndefs
	ctx.Extra["flag_invariance_goose_runs"] = nruns
	ctx.Programs += ndefs
	return nil
}

// normalizeSentence strips Coq comments (they are not part of the sentence Coq sees).
func normalizeSentence(s string) string {
	var sb strings.Builder
	depth := 0
	inStr := false
	for i := 0; i < len(s); i++ {
		if !inStr && strings.HasPrefix(s[i:], "(*") {
			depth++
			i++
			continue
		}
		if !inStr && depth > 0 && strings.HasPrefix(s[i:], "*)") {
			depth--
			i++
			continue
		}
		if s[i] == '"' {
			inStr = !inStr
		}
		if depth == 0 {
			sb.WriteByte(s[i])
		}
	}
	return strings.Join(strings.Fields(sb.String()), " ")
}
