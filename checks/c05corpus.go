package checks

import (
	"fmt"
	"regexp"
	"strconv"
	"strings"

	"verif/gen"
	"verif/gl"
	"verif/tv"
)

// flagInvariance: the real goose translates corpus packages under every combination of -typecheck and
// -source-comments; every definition of the baseline must be present with a byte-identical sentence
// (comments are not part of a sentence), and the extra sentences may only be Theorem/Proof/Hint.
// With -skip-interfaces no definition that is still emitted may change.
func flagInvariance(ctx *RunCtx) error {
	d, err := tv.NewDriver(RepoRoot)
	if err != nil {
		return err
	}
	defer d.Close()
	pkgs := gen.Subset(0)
	if len(pkgs) > 3 && ctx.Tier != "thorough" {
		pkgs = pkgs[:3]
	}
	combos := [][]string{{"-typecheck"}, {"-source-comments"}, {"-typecheck", "-source-comments"}, {"-skip-interfaces"}, {"-skip-interfaces", "-typecheck", "-source-comments"}}
	ndefs, nruns := 0, 0
	for _, p := range pkgs {
		if err := d.WritePackage(p); err != nil {
			return err
		}
		base := d.Translate(p)
		bf, err := gl.Parse(base.V)
		if err != nil {
			continue // reported by C01
		}
		baseDefs := map[string]string{}
		for _, dd := range bf.Decls {
			if dd.Kind != "other" && dd.Name != "" {
				baseDefs[dd.Name] = normalizeSentence(dd.Raw)
			}
		}
		for _, flags := range combos {
			tr := d.Translate(p, flags...)
			nruns++
			f, err := gl.Parse(tr.V)
			if err != nil {
				if _, isLex := err.(*gl.LexError); isLex {
					ctx.addTVViolation(p, nil, "flags/output-well-formed", strings.Join(flags, " ")+": "+err.Error(), tr, nil)
				}
				continue
			}
			seen := map[string]bool{}
			for _, dd := range f.Decls {
				if dd.Kind == "other" {
					first := strings.Fields(dd.Raw + " x")[0]
					switch first {
					case "Theorem", "Proof.", "Proof", "Hint", "From", "Section", "Context", "Local", "End", "Qed.", "typecheck.":
					default:
						ctx.addTVViolation(p, nil, "flags/only-lemmas-added", fmt.Sprintf("%s adds the sentence %q", strings.Join(flags, " "), firstLines(dd.Raw, 1)), tr, nil)
					}
					continue
				}
				seen[dd.Name] = true
				want, ok := baseDefs[dd.Name]
				if !ok {
					continue // e.g. interface conversions that only exist without -skip-interfaces
				}
				ndefs++
				if got := normalizeSentence(dd.Raw); got != want {
					ctx.addTVViolation(p, nil, "flags/definition-unchanged", fmt.Sprintf("%s changes definition %s", strings.Join(flags, " "), dd.Name), tr, nil)
				}
			}
			skip := false
			for _, fl := range flags {
				if fl == "-skip-interfaces" {
					skip = true
				}
			}
			if !skip {
				for name := range baseDefs {
					if !seen[name] {
						ctx.addTVViolation(p, nil, "flags/definition-unchanged", fmt.Sprintf("%s drops definition %s", strings.Join(flags, " "), name), tr, nil)
					}
				}
			}
		}
	}
	ctx.Extra["flag_invariance_definitions_compared"] = ndefs
	ctx.Extra["flag_invariance_goose_runs"] = nruns
	ctx.Programs += ndefs
	return nil
}

// normalizeSentence strips Coq comments (they are not part of the sentence Coq sees).
func normalizeSentence(s string) string {
	var sb strings.Builder
	depth := 0
	inStr := false
	for i := 0; i < len(s); i++ {
		if !inStr && strings.HasPrefix(s[i:], "(*") {
			depth++
			i++
			continue
		}
		if !inStr && depth > 0 && strings.HasPrefix(s[i:], "*)") {
			depth--
			i++
			continue
		}
		if s[i] == '"' {
			inStr = !inStr
		}
		if depth == 0 {
			sb.WriteByte(s[i])
		}
	}
	return strings.Join(strings.Fields(sb.String()), " ")
}

// c05Custom: flag invariance, then the empty-expression lint over the corpora.
func c05Custom(ctx *RunCtx) error {
	if err := flagInvariance(ctx); err != nil {
		return err
	}
	if err := emptyExprLint(ctx); err != nil {
		return err
	}
	if err := literalInvariance(ctx); err != nil {
		return err
	}
	// "the nesting of operators, calls and blocks obtained by reading the text with Coq's precedence
	// is the nesting of the Go source": the rules of the corpus in which parenthesisation decides the
	// meaning (operator precedence, nested calls, bare blocks, bindings in non-tail position, if-trees)
	// go through the translation validation of C01 here as well — a misplaced or missing parenthesis
	// changes the result or the scope on some input, which the solver finds
	// cases pinned as known findings of C01 (operand widths, loop-variable scope) are reported there
	pinned := map[string]bool{}
	for _, k := range LoadKnown() {
		if k.Status == "known" && k.Property == "C01" {
			pinned[strings.TrimPrefix(k.ID, "C01:")] = true
		}
	}
	nesting := func(id string) bool {
		if pinned[id] {
			return false
		}
		for _, pre := range []string{"expr/", "scope/", "ctl/if", "stmt/", "func/closure", "strlit/"} {
			if strings.HasPrefix(id, pre) {
				return true
			}
		}
		return false
	}
	return tvRunOpts(ctx, gen.Subset(ctx.TierN()), tvOpts{Mode: "subset", Validate: true, Only: nesting})
}

// forbiddenAdjacent: token pairs that cannot occur in a well-formed Coq term whatever notations are in
// scope — a binder, separator or keyword that requires an expression is followed by a token that
// cannot start one (the typical cause: a construct rendered as a comment only, e.g. a logging call,
// in a position where an expression is required).
var forbiddenAdjacent = []*regexp.Regexp{
	regexp.MustCompile(`:= (in\b|\)|\.$|;;|then\b|else\b)`),
	regexp.MustCompile(`;; (;;|\)|\.$|in\b|then\b|else\b)`),
	regexp.MustCompile(`\( (;;|in\b|then\b|else\b)`),
	regexp.MustCompile(`\b(then|else|in) (then\b|else\b|\)|\.$|;;|in\b)`),
	regexp.MustCompile(`\bif: (then|else)\b`),
	regexp.MustCompile(`, (\)|;;|in\b|,)`),
}

// emptyExprLint translates the rule corpora and the random look-alike corpus with the real goose
// and checks every emitted sentence, with comments removed and string literals masked, against
// forbiddenAdjacent.
func emptyExprLint(ctx *RunCtx) error {
	d, err := tv.NewDriver(RepoRoot)
	if err != nil {
		return err
	}
	defer d.Close()
	var pkgs []*tv.Package
	pkgs = append(pkgs, gen.Subset(0)...)
	pkgs = append(pkgs, gen.Lookalikes(0)...)
	pkgs = append(pkgs, gen.RandomLookalikes(1, 150+350*ctx.TierN(), 3)...)
	if ctx.TierN() > 0 {
		pkgs = append(pkgs, gen.Random(1, 400, 3)...)
	}
	nsent := 0
	for _, p := range pkgs {
		if err := d.WritePackage(p); err != nil {
			return err
		}
		tr := d.Translate(p)
		if tr.V == "" {
			continue
		}
		for _, sent := range splitSentences(tr.V) {
			nsent++
			for _, re := range forbiddenAdjacent {
				if m := re.FindString(sent); m != "" {
					ctx.addTVViolation(p, nil, "output/no-empty-expression", fmt.Sprintf("%q in sentence %s", m, firstLines(sent, 1)), tr, nil)
					break
				}
			}
		}
	}
	ctx.Extra["lint_sentences"] = nsent
	ctx.Programs += nsent
	return nil
}

// splitSentences removes comments, masks string literals, puts spaces around parentheses and
// returns the whitespace-normalised sentences (split at a '.' followed by a line break).
func splitSentences(v string) []string {
	var sb strings.Builder
	depth := 0
	inStr := false
	for i := 0; i < len(v); i++ {
		if !inStr && strings.HasPrefix(v[i:], "(*") {
			depth++
			i++
			continue
		}
		if !inStr && depth > 0 && strings.HasPrefix(v[i:], "*)") {
			depth--
			i++
			continue
		}
		if depth > 0 {
			continue
		}
		if v[i] == '"' {
			if !inStr {
				sb.WriteString(" S ")
			}
			inStr = !inStr
			continue
		}
		if inStr {
			continue
		}
		switch v[i] {
		case '(', ')', ',':
			sb.WriteByte(' ')
			sb.WriteByte(v[i])
			sb.WriteByte(' ')
		default:
			sb.WriteByte(v[i])
		}
	}
	var out []string
	for _, s := range strings.Split(sb.String(), ".\n") {
		s = strings.Join(strings.Fields(s), " ")
		if s != "" {
			out = append(out, s+" .")
		}
	}
	return out
}

var goStrLit = regexp.MustCompile(`"[^"\n]*"`)

// maskGoLiterals replaces the content of every string literal outside import declarations by
// letters of the same length.
func maskGoLiterals(src string) string {
	var out []string
	inImports := false
	for _, l := range strings.Split(src, "\n") {
		t := strings.TrimSpace(l)
		switch {
		case strings.HasPrefix(t, "import ("):
			inImports = true
		case inImports && t == ")":
			inImports = false
		case inImports || strings.HasPrefix(t, "import ") || strings.HasPrefix(t, "//"):
		default:
			l = goStrLit.ReplaceAllStringFunc(l, func(m string) string { return `"` + strings.Repeat("q", len(m)-2) + `"` })
		}
		out = append(out, l)
	}
	return strings.Join(out, "\n")
}

// literalInvariance: the content of Go string literals must not influence the structure of the
// output. Every corpus package is translated twice, as generated and with all string-literal
// contents replaced by letters; with comments removed and the contents of Coq string literals
// masked, the two outputs must be the same sentence by sentence.
func literalInvariance(ctx *RunCtx) error {
	d, err := tv.NewDriver(RepoRoot)
	if err != nil {
		return err
	}
	defer d.Close()
	var pkgs []*tv.Package
	pkgs = append(pkgs, gen.Subset(0)...)
	pkgs = append(pkgs, gen.Random(1, 160+240*ctx.TierN(), 3)...)
	// hostile contents (printf verbs, Coq delimiters, notation tokens) × every printing context
	pkgs = append(pkgs, gen.StringContexts()...)
	n := 0
	for _, p := range pkgs {
		if !strings.Contains(p.Files["gen.go"], "\"") {
			continue
		}
		if err := d.WritePackage(p); err != nil {
			return err
		}
		a := d.Translate(p)
		q := &tv.Package{Name: p.Name, Files: map[string]string{}, Cases: p.Cases, Prelude: p.Prelude, Deps: p.Deps}
		for f, src := range p.Files {
			q.Files[f] = maskGoLiterals(src)
		}
		if err := d.WritePackage(q); err != nil {
			return err
		}
		b := d.Translate(q)
		if a.V == "" || b.V == "" || a.Exit != b.Exit {
			// a literal that is itself rejected (quotes, newlines) changes the error list: compare only
			// when both runs translate the same declarations
			if a.Exit == b.Exit {
				continue
			}
		}
		// content preservation (hostile-content packages): with the masked letters put back, the two
		// outputs are the same text — the content arrives unchanged, byte for byte, in every context
		if content, ok := gen.StringContextContent(p.Name); ok && content != "" && a.V != "" && b.V != "" {
			mask := strings.Repeat("q", len(strconv.Quote(content))-2)
			want := strings.ReplaceAll(b.V, `"`+mask+`"`, `"`+content+`"`)
			if want != a.V {
				la, lw := strings.Split(a.V, "\n"), strings.Split(want, "\n")
				detail := fmt.Sprintf("%d lines vs %d", len(la), len(lw))
				for i := 0; i < len(la) && i < len(lw); i++ {
					if la[i] != lw[i] {
						detail = fmt.Sprintf("line %d: emitted %q, expected %q", i+1, strings.TrimSpace(la[i]), strings.TrimSpace(lw[i]))
						break
					}
				}
				ctx.addTVViolation(p, nil, "strlit/content-preserved-byte-for-byte", fmt.Sprintf("literal %q: %s", content, detail), a, nil)
				continue
			}
		}
		norm := func(v string) []string {
			var out []string
			for _, s := range splitSentencesKeepStrings(v) {
				out = append(out, goStrLit.ReplaceAllString(s, `"_"`)) // GooseLang and Gallina strings alike
			}
			return out
		}
		sa, sb := norm(a.V), norm(b.V)
		n += len(sa)
		if len(sa) != len(sb) {
			ctx.addTVViolation(p, nil, "strlit/content-does-not-alter-structure", fmt.Sprintf("%d sentences as generated, %d with masked literal contents", len(sa), len(sb)), a, nil)
			continue
		}
		for i := range sa {
			if sa[i] != sb[i] {
				ctx.addTVViolation(p, nil, "strlit/content-does-not-alter-structure", fmt.Sprintf("sentence differs beyond its string literals: %s  ~~~  %s", firstLines(sa[i], 1), firstLines(sb[i], 1)), a, nil)
				break
			}
		}
	}
	ctx.Extra["literal_invariance_sentences"] = n
	ctx.Programs += n
	return nil
}

// splitSentencesKeepStrings: like splitSentences but keeps string literals (comments removed).
func splitSentencesKeepStrings(v string) []string {
	var out []string
	for _, s := range strings.Split(normalizeSentence(strings.ReplaceAll(v, ".\n", ".\x00")), ".\x00") {
		s = strings.TrimSpace(s)
		if s != "" {
			out = append(out, s)
		}
	}
	return out
}
