package checks

import (
	"fmt"
	"strings"

	"verif/gen"
	"verif/tv"
)

// headerEndToEnd: the real goose translates small multi-package programs; the header of every
// emitted file must name exactly the FFI the package (transitively) uses and exactly the
// non-builtin packages it imports, once each.
func headerEndToEnd(ctx *RunCtx) error {
	d, err := tv.NewDriver(RepoRoot)
	if err != nil {
		return err
	}
	defer d.Close()
	type want struct {
		ffi      string   // "" = no FFI
		requires []string // Coq paths of the "From Goose Require" lines
	}
	diskDep := "package dep\n\nimport \"github.com/goose-lang/goose/machine/disk\"\n\nfunc ReadFirst() disk.Block {\n\treturn disk.Read(0)\n}\n"
	plainDep := "package dep\n\nfunc Add(a uint64, b uint64) uint64 {\n\treturn a + b\n}\n"
	other := "package other\n\nfunc One() uint64 {\n\treturn 1\n}\n"
	mk := func(name, src string, deps map[string]map[string]string) *tv.Package {
		return &tv.Package{Name: name, Files: map[string]string{"gen.go": "package " + name + "\n\n" + src}, Deps: deps}
	}
	progs := []struct {
		p *tv.Package
		w want
	}{
		{mk("hd0", "func F(x uint64) uint64 {\n\treturn x\n}\n", nil), want{}},
		{mk("hd1", "import \"example.com/tvmod/hd1/dep\"\n\nfunc F(x uint64) uint64 {\n\treturn dep.Add(x, 1)\n}\n",
			map[string]map[string]string{"dep": {"dep.go": plainDep}}), want{requires: []string{"example_com.tvmod.hd1.dep"}}},
		{mk("hd2", "import (\n\t\"example.com/tvmod/hd2/dep\"\n\t\"example.com/tvmod/hd2/other\"\n)\n\nfunc F(x uint64) uint64 {\n\treturn dep.Add(x, other.One())\n}\n",
			map[string]map[string]string{"dep": {"dep.go": plainDep}, "other": {"other.go": other}}),
			want{requires: []string{"example_com.tvmod.hd2.dep", "example_com.tvmod.hd2.other"}}},
		{mk("hd3", "import \"github.com/goose-lang/goose/machine/disk\"\n\nfunc F() uint64 {\n\treturn disk.Size()\n}\n", nil), want{ffi: "disk"}},
		{mk("hd4", "import \"example.com/tvmod/hd4/dep\"\n\nfunc F() uint64 {\n\treturn uint64(len(dep.ReadFirst()))\n}\n",
			map[string]map[string]string{"dep": {"dep.go": diskDep}}), want{ffi: "disk", requires: []string{"example_com.tvmod.hd4.dep"}}},
		{mk("hd5", "import (\n\t\"sync\"\n\n\t\"github.com/goose-lang/goose/machine\"\n)\n\nfunc F(x uint64) uint64 {\n\tmu := new(sync.Mutex)\n\tmu.Lock()\n\tmu.Unlock()\n\treturn machine.UInt64Get(make([]byte, 8)) + x\n}\n", nil), want{}},
		// two files importing the same package
		{&tv.Package{Name: "hd6", Files: map[string]string{
			"a.go": "package hd6\n\nimport \"example.com/tvmod/hd6/dep\"\n\nfunc F(x uint64) uint64 {\n\treturn dep.Add(x, 1)\n}\n",
			"b.go": "package hd6\n\nimport \"example.com/tvmod/hd6/dep\"\n\nfunc G(x uint64) uint64 {\n\treturn dep.Add(x, 2)\n}\n"},
			Deps: map[string]map[string]string{"dep": {"dep.go": plainDep}}}, want{requires: []string{"example_com.tvmod.hd6.dep"}}},
	}
	_ = gen.IDs
	for _, pr := range progs {
		if err := d.WritePackage(pr.p); err != nil {
			return err
		}
		tr := d.Translate(pr.p)
		ctx.Programs++
		if tr.Exit != 0 || tr.V == "" {
			ctx.addTVViolation(pr.p, nil, "header/translated", fmt.Sprintf("goose exit %d: %s", tr.Exit, firstLines(tr.Stderr, 4)), tr, nil)
			continue
		}
		var requires []string
		preludeLines, ffiLines, sectionLines := 0, 0, 0
		gotFfi := ""
		for _, l := range strings.Split(tr.V, "\n") {
			l = strings.TrimSpace(l)
			switch {
			case strings.HasPrefix(l, "From Goose Require "):
				requires = append(requires, strings.TrimSuffix(strings.TrimPrefix(l, "From Goose Require "), "."))
			case l == "From Perennial.goose_lang Require Import prelude.":
				preludeLines++
			case strings.HasPrefix(l, "From Perennial.goose_lang Require Import ffi.") && strings.HasSuffix(l, "_prelude."):
				ffiLines++
				gotFfi = strings.TrimSuffix(strings.TrimPrefix(l, "From Perennial.goose_lang Require Import ffi."), "_prelude.")
			case l == "Section code.":
				sectionLines++
			}
		}
		// with an FFI: its prelude, no generic section; without: the generic section, no FFI prelude
		wantFfiLines, wantSections := 0, 1
		if pr.w.ffi != "" {
			wantFfiLines, wantSections = 1, 0
		}
		if preludeLines != 1 || ffiLines != wantFfiLines || sectionLines != wantSections || gotFfi != pr.w.ffi {
			ctx.addTVViolation(pr.p, nil, "header/ffi-exactly-the-one-used", fmt.Sprintf("%d prelude line(s), %d ffi line(s) (%q), %d generic section(s); expected ffi %q", preludeLines, ffiLines, gotFfi, sectionLines, pr.w.ffi), tr, nil)
		}
		if strings.Join(requires, ",") != strings.Join(pr.w.requires, ",") {
			ctx.addTVViolation(pr.p, nil, "header/requires-exactly-the-imports", fmt.Sprintf("got %v, expected %v", requires, pr.w.requires), tr, nil)
		}
		// the header comes before the first definition
		if i, j := strings.Index(tr.V, "From Perennial"), strings.Index(tr.V, "Definition"); j >= 0 && (i < 0 || i > j) {
			ctx.addTVViolation(pr.p, nil, "header/before-definitions", "prelude import after a definition", tr, nil)
		}
	}
	// several packages in ONE invocation that reach the disk FFI only through a shared library:
	// every one of them needs the FFI prelude, whatever was searched for the others
	shared := []*tv.Package{
		{Name: "shdep", Files: map[string]string{"shdep.go": "package shdep\n\nimport \"github.com/goose-lang/goose/machine/disk\"\n\nfunc First() disk.Block {\n\treturn disk.Read(0)\n}\n"}},
		{Name: "shmid", Files: map[string]string{"shmid.go": "package shmid\n\nimport \"example.com/tvmod/shdep\"\n\nfunc Len() uint64 {\n\treturn uint64(len(shdep.First()))\n}\n"}},
		{Name: "sha", Files: map[string]string{"sha.go": "package sha\n\nimport \"example.com/tvmod/shmid\"\n\nfunc A() uint64 {\n\treturn shmid.Len()\n}\n"}},
		{Name: "shb", Files: map[string]string{"shb.go": "package shb\n\nimport \"example.com/tvmod/shmid\"\n\nfunc B() uint64 {\n\treturn shmid.Len() + 1\n}\n"}},
		{Name: "shplain", Files: map[string]string{"shplain.go": "package shplain\n\nfunc P() uint64 {\n\treturn 1\n}\n"}},
	}
	for _, p := range shared {
		if err := d.WritePackage(p); err != nil {
			return err
		}
	}
	for _, cfg := range [][]string{{"sha", "shb", "shplain"}, {"shplain", "shb", "sha", "shmid"}, {"shmid", "shdep", "sha"}} {
		outs, code, stderr := d.TranslateSet(cfg)
		if code != 0 {
			ctx.addTVViolation(shared[0], nil, "header/translated", fmt.Sprintf("goose exit %d on {%s}: %s", code, strings.Join(cfg, ","), firstLines(stderr, 3)), nil, nil)
			continue
		}
		for _, n := range cfg {
			hasFfi := strings.Contains(outs[n], "From Perennial.goose_lang Require Import ffi.disk_prelude.")
			hasGeneric := strings.Contains(outs[n], "Section code.")
			wantFfi := n != "shplain"
			if hasFfi != wantFfi || hasGeneric == wantFfi {
				ctx.addTVViolation(shared[0], nil, "header/ffi-exactly-the-one-used", fmt.Sprintf("%s.v translated together with {%s}: disk prelude %v, generic section %v", n, strings.Join(cfg, ","), hasFfi, hasGeneric), nil, nil)
			}
		}
	}
	ctx.Extra["end_to_end_goose_runs"] = len(progs) + 3
	return nil
}
