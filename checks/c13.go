package checks

import "verif/engine"

func init() {
	hf := []HarnessFile{
		{RepoDir: "machine/filesys", Pkg: "filesys", Src: "filesys/zz_verif_c13.go"},
	}
	big := engine.Options{Budget: 5_000_000, MaxPaths: 3_000_000}
	Register(&Check{
		ID:       "C13",
		Level:    "model_checking",
		Patterns: []string{"./machine/filesys"},
		Harness:  hf,
		Entries: []Entry{
			{PkgPath: fsPkg, Func: "verifC13Leftover", Opt: big, Replay: "model"},
			{PkgPath: fsPkg, Func: "verifC13CrashPoints", Opt: big, Replay: "model"},
			{PkgPath: fsPkg, Func: "verifC13CrashWithLeftover", Opt: big, Replay: "model"},
			{PkgPath: fsPkg, Func: "verifC13Faults", Opt: big, Replay: "model"},
			{PkgPath: fsPkg, Func: "verifC13ShortWrites", Opt: big, Replay: "model"},
			{PkgPath: fsPkg, Func: "verifC13Disjoint", Opt: big},
			{PkgPath: fsPkg, Func: "verifC13SameName", Opt: big},
			{PkgPath: fsPkg, Func: "verifC13PlantedLeftover", Opt: big},
			{PkgPath: fsPkg, Func: "verifC13Mem", Opt: big},
		},
		Covers: []string{"c13/leftover", "c13/crashpoints", "c13/faults", "c13/shortwrite", "c13/disjoint", "c13/samename", "c13/mem", "c13/planted-leftover", "c13/leftover-crash"},
		Bounds: "data ≤ 2 bytes, previous content ≤ 3 bytes, leftovers = every state reachable by crashing an earlier AtomicCreate (data ≤ 3 bytes, any of 2×2 dir/name pairs) at any of its syscalls with any durable prefix; crash point = any syscall of the call; faults = each single failing syscall; path disjointness also for names of 251 and 252 bytes with a common prefix (NAME_MAX is modelled); short writes: data of 3–5 bytes with write(2) transferring any non-empty prefix each time; all byte values symbolic. Concurrent creators: not explored by a scheduler in this tier, replaced by path-disjointness of the kernel paths the two calls touch.",
		Assumptions: []string{
			"crash model: namespace operations are persisted in order (a prefix survives), file data only through fsync of that file (otherwise a prefix of the pending writes survives)",
			"a failing syscall has no effect",
			"rename is atomic in the kernel",
		},
		Trusted: []string{"gosym executor", "z3 4.8.12", "kernel model incl. crash/durability rules"},
	})
}
