package checks

import (
	"verif/engine"
	"verif/gen"
)

var declsHarness = []HarnessFile{
	{RepoDir: ".", Pkg: "goose", Src: "goose/zz_verif_decls.go"},
	{RepoDir: ".", Pkg: "goose", Src: "goose/zz_verif_stubs.go"},
}

var declsOverrides = map[string]string{
	"golang.org/x/tools/go/packages.Load":      goosePkg + ".verifStubLoad",
	"(" + goosePkg + ".errorReporter).printGo": goosePkg + ".verifStubPrintGo",
	"(" + goosePkg + ".Ctx).maybeDecls":        goosePkg + ".verifStubMaybeDecls",
}

func init() {
	big := engine.Options{Budget: 5_000_000, MaxPaths: 3_000_000}
	Register(&Check{
		ID: "C04",
		Custom: func(ctx *RunCtx) error {
			// reference-site recording and naming: Coq's scoping rule applied to the emitted files
			if err := tvRunOpts(ctx, gen.DepOrder(ctx.TierN()), tvOpts{Mode: "subset", Census: "order"}); err != nil {
				return err
			}
			return tvRunOpts(ctx, gen.Subset(ctx.TierN()), tvOpts{Mode: "subset", Census: "order"})
		},
		Level:     "model_checking",
		Patterns:  []string{"."},
		Harness:   declsHarness,
		Overrides: declsOverrides,
		Entries: []Entry{
			{PkgPath: goosePkg, Func: "verifC04Order", Opt: big, Replay: "model"},
		},
		Covers: []string{"c04/order/acyclic", "c04/order/cyclic"},
		Bounds: "declaration-ordering kernel: N ≤ 3 (quick) / 4 (thorough) declarations, every directed dependency relation (cyclic ones included), an optional unresolvable dependency, every split over ≤ 2 files; reference corpus: 29 reference kinds × 4 layouts + 2 scale layouts (65 600 filler declarations) through the real goose",
		Assumptions: []string{
			"Ctx.maybeDecls (the AST translator proper) is replaced by a stub that reports names/dependencies as dictated by the symbolic structure: what is decided is the ordering/emission kernel (Decls, depTracker), not the recording of dependencies at reference sites",
		},
		Trusted: []string{"gosym executor", "z3 4.8.12"},
	})
	Register(&Check{
		ID: "C07",
		Custom: func(ctx *RunCtx) error {
			// totality on the generated corpora: no crash, every declaration emitted or rejected with a
			// structured, located error of a documented category
			if err := tvRunOpts(ctx, gen.Lookalikes(ctx.TierN()), tvOpts{Mode: "lookalike", Census: "errors"}); err != nil {
				return err
			}
			if err := tvRunOpts(ctx, gen.Subset(ctx.TierN()), tvOpts{Mode: "lookalike", Census: "errors"}); err != nil {
				return err
			}
			// random programs with one injected out-of-subset construct: the error paths of the
			// translator in contexts the catalogue does not enumerate
			if err := errorsEndToEnd(ctx); err != nil {
				return err
			}
			seeds := 1 + 2*ctx.TierN()
			for seed := 1; seed <= seeds; seed++ {
				if err := tvRunOpts(ctx, gen.RandomLookalikes(int64(seed), 150+350*ctx.TierN(), 3), tvOpts{Mode: "lookalike", Census: "errors"}); err != nil {
					return err
				}
				if err := tvRunOpts(ctx, gen.RandomLiberal(int64(seed), 200+300*ctx.TierN(), 3), tvOpts{Mode: "lookalike", Census: "errors"}); err != nil {
					return err
				}
			}
			return nil
		},
		Level:     "model_checking",
		Patterns:  []string{"."},
		Harness:   declsHarness,
		Overrides: declsOverrides,
		Entries: []Entry{
			{PkgPath: goosePkg, Func: "verifC07Containment", Opt: big, Replay: "model"},
		},
		Covers: []string{"c07/contained", "c07/foreign"},
		Bounds: "error containment/aggregation kernel: N ≤ 2 (quick) / 3 (thorough) declarations over ≤ 2 files, each with outcome ∈ {ok, unsupported, todo, future, impossible(go), impossible(no-examples), foreign panic}, every dependency relation; declaration census with the real goose over the rule corpora and 150 (3×500) random look-alikes",
		Assumptions: []string{
			"Ctx.maybeDecls is replaced by a stub raising errors through the real errorReporter methods; totality of the translator over arbitrary type-correct Go is NOT claimed (not encodable)",
			"errorReporter.printGo (go/printer) stubbed; runtime.Caller arbitrary",
		},
		Trusted: []string{"gosym executor", "z3 4.8.12"},
	})
	Register(&Check{
		ID:        "C06",
		Custom:    coTranslation,
		Level:     "model_checking",
		Patterns:  []string{"."},
		Harness:   declsHarness,
		Overrides: declsOverrides,
		Entries: []Entry{
			{PkgPath: goosePkg, Func: "verifC06Deterministic", Opt: big, Replay: "model"},
			{PkgPath: goosePkg, Func: "verifC06SortedFiles", Opt: big},
			{PkgPath: goosePkg, Func: "verifC06SortedFilesSym", Opt: big},
			{PkgPath: goosePkg, Func: "verifC06Workers", Opt: big, Replay: "model"},
		},
		Covers: []string{"c06/decls", "c06/sortedfiles", "c06/sortedfiles-sym", "c06/workers"},
		Bounds: "ordering kernels only: Decls run twice under independently chosen map-iteration orders (N ≤ 3 declarations, all dependency relations, ≤ 2 files); sortedFiles on all permutations of 3 files and on 2 files with fully symbolic 2-byte names",
		Assumptions: []string{
			"partial claim: determinism of the whole tool (translator proper inside concurrent workers, GOMAXPROCS, go/packages) is outside; only the kernels that order output are decided",
			"map iteration order is an explicit nondeterministic choice of the executor",
			"sort.Slice is an intrinsic (insertion sort driven by the real less closure)",
		},
		Trusted: []string{"gosym executor", "z3 4.8.12"},
	})
}
