package checks

import "verif/engine"

const fsPkg = "github.com/goose-lang/goose/machine/filesys"

func init() {
	hf := []HarnessFile{
		{RepoDir: "machine/filesys", Pkg: "filesys", Src: "filesys/zz_verif_model.go"},
		{RepoDir: "machine/filesys", Pkg: "filesys", Src: "filesys/zz_verif_c12.go"},
	}
	big := engine.Options{Budget: 5_000_000, MaxPaths: 3_000_000}
	Register(&Check{
		ID:       "C12",
		Level:    "model_checking",
		Patterns: []string{"./machine/filesys"},
		Harness:  hf,
		Entries: []Entry{
			{PkgPath: fsPkg, Func: "verifC12Quick", Opt: big},
			{PkgPath: fsPkg, Func: "verifC12TwoDirs", Opt: big},
			{PkgPath: fsPkg, Func: "verifC12OddNames", Opt: big},
			{PkgPath: fsPkg, Func: "verifC12Scenarios", Opt: big},
			{PkgPath: fsPkg, Func: "verifC12ShortDir", Opt: big, Replay: "model"},
			{PkgPath: fsPkg, Func: "verifC12Thorough", Opt: big, Tiers: "thorough"},
			{PkgPath: fsPkg, Func: "verifC12K5", Opt: big, Tiers: "thorough"},
			{PkgPath: fsPkg, Func: "verifC12TwoDirs3", Opt: big, Tiers: "thorough"},
		},
		Covers: []string{"c12/create", "c12/append", "c12/close", "c12/open", "c12/readat", "c12/delete", "c12/link",
			"c12/atomiccreate", "c12/list", "c12/history"},
		Bounds: "six scripted longer histories with symbolic data and read windows (re-creation under an open descriptor, two links and removal of the original, descriptor churn past number 4, a 9-byte file in two appends, a file of 4099 then 8299 bytes read across offset 4096 and in single reads of 8297 and 4200 bytes, six entries in one directory); directory listings with the kernel returning entries in arbitrary chunks (2–4 entries); histories from the empty file system: k=2 over names that look like staging/hidden/extension files ({a,a.tmp}, {.tmp,b.txt}, {.a,a~}); k=3 over one directory and names {a,b} with data ≤ 1 byte, k=2 over two directories with data ≤ 2 bytes (quick); k=4 and k=5 over one directory, k=3 over two directories (thorough); ReadAt offset fully symbolic < 2^63, length symbolic ≤ 4; final observation of all listings, contents and still-open read descriptors",
		Assumptions: []string{
			"valid histories: preconditions of the documented API are assumed from the reference model's state",
			"DirFs runs on the kernel model (openat/O_EXCL, pread, write, unlinkat, linkat, renameat, getdents)",
			"offsets ≥ 2^63 are outside the claim (not representable as off_t)",
		},
		Trusted: []string{"gosym executor", "z3 4.8.12", "kernel model", "reference file-system model in harness/filesys/zz_verif_model.go"},
	})
}
