package checks

import "verif/engine"

const cmdGoosePkg = "github.com/goose-lang/goose/cmd/goose"

func init() {
	hf := []HarnessFile{
		{RepoDir: "cmd/goose", Pkg: "main", Src: "cmdgoose/zz_verif_c17.go"},
		{RepoDir: ".", Pkg: "goose", Src: "goose/zz_verif_c17.go"},
	}
	big := engine.Options{Budget: 5_000_000, MaxPaths: 3_000_000}
	Register(&Check{
		ID:       "C17",
		Level:    "model_checking",
		Patterns: []string{".", "./cmd/goose"},
		Harness:  hf,
		Overrides: map[string]string{
			"(" + goosePkg + ".TranslationConfig).TranslatePackages": cmdGoosePkg + ".verifStubTranslatePackages",
		},
		Custom: commandEndToEnd,
		Entries: []Entry{
			{PkgPath: cmdGoosePkg, Func: "verifC17Translate", Opt: big, Replay: "model"},
			{PkgPath: cmdGoosePkg, Func: "verifC17PatternError", Opt: big, Replay: "model"},
			{PkgPath: cmdGoosePkg, Func: "verifC17Flags", Opt: big, Replay: "model"},
			{PkgPath: goosePkg, Func: "verifC17PackageConfig", Opt: big},
		},
		Covers: []string{"c17/translate", "c17/partial-output", "c17/pattern-error", "c17/flags", "c17/config"},
		Bounds: "end to end: the real binary on a five-package module (two good packages, a nested one, one with an unsupported statement between two good declarations, one with goose/!goose build-tagged files) under eight invocations (single package; good·bad·good; -ignore-errors; -dir from another directory with a recursive pattern and an -out containing '..'; up-to-date read-only, stale and fresh targets with their modification times; the goose build tag; a missing package; three flags over ./...); symbolic: n ≤ 2 (quick) / 3 (thorough) packages with distinct paths from a pool of 3 (incl. '-' and '.' and a single-segment path), each succeeding or failing, with 0–2 declarations, -ignore-errors on/off, prior state of each target ∈ {absent, identical bytes, different (symbolic) bytes}; pattern error; all 16 combinations of the boolean flags (symbolic)",
		Assumptions: []string{
			"TranslatePackages (go/packages loading + translation) is replaced by a stub returning the symbolic results; what go list makes of patterns, -dir and build tags is outside the claim",
			"os.ReadFile/WriteFile/MkdirAll/Exit and flag are intrinsics over the kernel model; fatih/color is the identity on text",
		},
		Trusted: []string{"gosym executor", "z3 4.8.12", "kernel model, os/flag intrinsics"},
	})
}
