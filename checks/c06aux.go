package checks

import (
	"fmt"
	"sort"
	"strings"

	"verif/tv"
)

// coTranslation is an AUXILIARY differential (not solver-decided): the real goose binary translates a
// small set of inter-dependent packages alone, together, in both orders and repeatedly; every emitted
// file must be byte-identical in all configurations. It complements the kernel checks of C06 for the
// part of the property that no bounded symbolic encoding reaches (state shared below maybeDecls).
func coTranslation(ctx *RunCtx) error {
	d, err := tv.NewDriver(RepoRoot)
	if err != nil {
		return err
	}
	defer d.Close()
	pkgs := []*tv.Package{
		{Name: "store", Files: map[string]string{"store.go": "package store\n\ntype Record struct {\n\tKey uint64\n\tVal uint64\n}\n\nfunc Mk(k uint64) Record {\n\treturn Record{Key: k, Val: k + 1}\n}\n\nfunc (r Record) Sum() uint64 {\n\treturn r.Key + r.Val\n}\n"}},
		{Name: "client", Files: map[string]string{"client.go": "package client\n\nimport \"example.com/tvmod/store\"\n\nfunc Use(k uint64) uint64 {\n\tr := store.Mk(k)\n\tvar s store.Record\n\ts = r\n\treturn s.Sum()\n}\n\nfunc Lit(k uint64) store.Record {\n\treturn store.Record{Key: k}\n}\n"}},
		{Name: "other", Files: map[string]string{"other.go": "package other\n\ntype Record struct {\n\tA uint64\n}\n\nfunc Mk(a uint64) Record {\n\treturn Record{A: a}\n}\n"}},
	}
	// two packages with the same interface, struct and method names (their interface conversions
	// get the same Coq name), and a diamond over the disk FFI reached only through a library
	svc := func(name string, k string) *tv.Package {
		return &tv.Package{Name: name, Files: map[string]string{name + ".go": "package " + name + "\n\ntype Service interface {\n\tHandle(x uint64) uint64\n}\n\ntype Server struct {\n\tBase uint64\n}\n\nfunc (s Server) Handle(x uint64) uint64 {\n\treturn s.Base + x + " + k + "\n}\n\nfunc call(s Service, x uint64) uint64 {\n\treturn s.Handle(x)\n}\n\nfunc Run(x uint64) uint64 {\n\ts := Server{Base: " + k + "}\n\treturn call(s, x)\n}\n"}}
	}
	// the same names again with a different method set: every definition derived from the names
	// (the interface record, the conversion, the method definitions) has a different text here
	svc2 := func(name string) *tv.Package {
		return &tv.Package{Name: name, Files: map[string]string{name + ".go": "package " + name + "\n\ntype Service interface {\n\tWeight() uint64\n\tHandle(x uint64) uint64\n\tPeek() uint64\n}\n\ntype Server struct {\n\tBase uint64\n\tHits uint64\n}\n\nfunc (s Server) Weight() uint64 {\n\treturn s.Hits + 1\n}\n\nfunc (s Server) Handle(x uint64) uint64 {\n\treturn s.Base * x\n}\n\nfunc (s Server) Peek() uint64 {\n\treturn s.Hits\n}\n\nfunc call(s Service, x uint64) uint64 {\n\treturn s.Handle(x) + s.Peek() + s.Weight()\n}\n\nfunc Run(x uint64) uint64 {\n\ts := Server{Base: 7}\n\treturn call(s, x)\n}\n"}}
	}
	pkgs = append(pkgs, svc2("svcd"), svc2("svce"))
	pkgs = append(pkgs, svc("svca", "1"), svc("svcb", "2"), svc("svcc", "3"),
		&tv.Package{Name: "dlib", Files: map[string]string{"dlib.go": "package dlib\n\nimport \"github.com/goose-lang/goose/machine/disk\"\n\nfunc First() disk.Block {\n\treturn disk.Read(0)\n}\n"}},
		&tv.Package{Name: "dmid", Files: map[string]string{"dmid.go": "package dmid\n\nimport \"example.com/tvmod/dlib\"\n\nfunc Len() uint64 {\n\treturn uint64(len(dlib.First()))\n}\n"}},
		&tv.Package{Name: "dapp1", Files: map[string]string{"dapp1.go": "package dapp1\n\nimport \"example.com/tvmod/dmid\"\n\nfunc One() uint64 {\n\treturn dmid.Len() + 1\n}\n"}},
		&tv.Package{Name: "dapp2", Files: map[string]string{"dapp2.go": "package dapp2\n\nimport \"example.com/tvmod/dmid\"\n\nfunc Two() uint64 {\n\treturn dmid.Len() + 2\n}\n"}},
	)
	for _, p := range pkgs {
		if err := d.WritePackage(p); err != nil {
			return err
		}
	}
	ref := map[string]string{}
	for _, p := range pkgs {
		out, code, stderr := d.TranslateSet([]string{p.Name})
		if code != 0 || out[p.Name] == "" {
			return fmt.Errorf("auxiliary co-translation corpus: goose failed on %s alone (exit %d): %s", p.Name, code, firstLines(stderr, 5))
		}
		ref[p.Name] = out[p.Name]
	}
	configs := [][]string{{"store", "client"}, {"client", "store"}, {"store", "client", "other"}, {"other", "client", "store"}, {"client", "other"},
		{"svca", "svcb"}, {"svcb", "svca", "svcc"}, {"svcc", "svca", "svcb", "store"},
		{"svca", "svcd"}, {"svcd", "svca"}, {"svcd", "svcb", "svce", "svca"}, {"svce", "svcd"},
		{"dlib", "dmid", "dapp1", "dapp2"}, {"dapp2", "dapp1", "dmid", "dlib"}, {"dapp1", "dapp2"}, {"dmid", "dapp2"}}
	reps := 3
	if ctx.Tier == "thorough" {
		reps = 15
	}
	nruns := 0
	var bad []string
	for _, cfg := range configs {
		for r := 0; r < reps; r++ {
			out, code, _ := d.TranslateSet(cfg)
			nruns++
			if code != 0 {
				bad = append(bad, fmt.Sprintf("goose exits %d on {%s}", code, strings.Join(cfg, ",")))
			}
			for _, n := range cfg {
				if out[n] != ref[n] {
					bad = append(bad, fmt.Sprintf("%s.v differs when translated together with {%s}", n, strings.Join(cfg, ",")))
				}
			}
		}
	}
	ctx.Extra["auxiliary_cotranslation_runs"] = nruns
	ctx.Extra["auxiliary_cotranslation_note"] = "auxiliary differential on the real binary (configurations enumerated, not solver-decided)"
	if len(bad) > 0 {
		sort.Strings(bad)
		uniq := bad[:1]
		for _, b := range bad[1:] {
			if b != uniq[len(uniq)-1] {
				uniq = append(uniq, b)
			}
		}
		ctx.addTVViolation(pkgs[0], nil, "co-translation/independent", strings.Join(uniq, "; "), nil, nil)
	}
	return nil
}
