package checks

import "verif/engine"

func init() {
	hf := []HarnessFile{
		{RepoDir: "machine/filesys", Pkg: "filesys", Src: "filesys/zz_verif_c13.go"},
		{RepoDir: "machine/filesys", Pkg: "filesys", Src: "filesys/zz_verif_c14.go"},
	}
	big := engine.Options{Budget: 5_000_000, MaxPaths: 1_000_000}
	Register(&Check{
		ID:       "C14",
		Level:    "model_checking",
		Patterns: []string{"./machine/filesys"},
		Harness:  hf,
		Entries: []Entry{
			{PkgPath: fsPkg, Func: "verifC14MemDiscipline", Opt: big, Replay: "race"},
			{PkgPath: fsPkg, Func: "verifC14MemDistinctFds", Opt: big},
			{PkgPath: fsPkg, Func: "verifC14DirSingleSyscall", Opt: big, Replay: "model"},
			{PkgPath: fsPkg, Func: "verifC14DirConcurrent", Opt: big, Replay: "model"},
			{PkgPath: fsPkg, Func: "verifC14MemConcurrent", Opt: big, Replay: "race"},
			{PkgPath: fsPkg, Func: "verifC14MemSequences", Opt: big, Replay: "race"},
			{PkgPath: fsPkg, Func: "verifC14DirSequences", Opt: big, Replay: "model"},
		},
		Covers: []string{"c14/mem", "c14/mem-fds", "c14/dir", "c14/dirconc", "c14/memconc", "c14/sequences", "c14/dirsequences"},
		Bounds: "MemFs: lock-discipline VCs for all 10 methods plus three misuse calls, from a pre-history with one finished file, one append descriptor and one read descriptor; directory ∈ {existing, missing}, name ∈ {a,b,c}, data ≤ 2 symbolic bytes, offset fully symbolic, length ≤ 3; every path including the panics of checkDir/checkMode. Descriptor distinctness over all 4-step Create/Open/Close histories. DirFs: one syscall per operation for the 7 single-syscall methods; four two-thread scenarios (List ‖ Create·List, Create ‖ Create of one name, reader ‖ AtomicCreate, reader ‖ Delete) interleaved at every system call and Go synchronisation operation with a happens-before race check. MemFs additionally: seven two-thread scenarios (Create ‖ Create, Open ‖ Open, ReadAt ‖ Append, List ‖ Create, reader ‖ AtomicCreate, reader ‖ Delete, Link ‖ Append) under every interleaving at synchronisation points with the happens-before race check and linearizability oracles — these decide; a failing lock-discipline condition that neither this harness nor the native race detector confirms is reported as inconclusive (the conditions are sufficient, not necessary).",
		Assumptions: []string{
			"meta-theorem (trusted): lock discipline (all shared accesses inside one critical section per operation, lock released on every exit) ⇒ data-race freedom and linearizability w.r.t. the sequential behaviour, which C12 relates to the reference model",
			"openat(O_CREAT|O_EXCL), linkat, unlinkat, renameat, write and pread are atomic in the kernel",
		},
		Trusted: []string{"gosym executor, lock monitor", "z3 4.8.12", "kernel model"},
	})
}
