package checks

const machinePkg = "github.com/goose-lang/goose/machine"

func init() {
	hf := []HarnessFile{{RepoDir: "machine", Pkg: "machine", Src: "machine/zz_verif_c15.go"}}
	Register(&Check{
		ID:       "C15",
		Level:    "model_checking",
		Patterns: []string{"./machine"},
		Harness:  hf,
		Entries: []Entry{
			{PkgPath: machinePkg, Func: "verifC15Put64"},
			{PkgPath: machinePkg, Func: "verifC15Get64"},
			{PkgPath: machinePkg, Func: "verifC15Put32"},
			{PkgPath: machinePkg, Func: "verifC15Get32"},
			{PkgPath: machinePkg, Func: "verifC15Windows"},
		},
		Covers: []string{"c15/put64/ok", "c15/put64/short", "c15/get64/ok", "c15/get64/short",
			"c15/put32/ok", "c15/put32/short", "c15/get32/ok", "c15/get32/short", "c15/window"},
		Bounds: "buffer length 0..25 (quick) / 0..48 (thorough), forked; all 2^64 / 2^32 values and all buffer contents symbolic; windows big[off:off+n] of a 24-byte allocation with off ≤ 8, n ≤ 12 (spare capacity behind the window, data in front of it); " +
			"outside: longer buffers (no length-dependent code beyond the bounds check of encoding/binary)",
		Assumptions: []string{
			"go/ssa (x/tools v0.29.0) is the semantics of Go; encoding/binary is executed from its real SSA",
			"slice bounds failures are modelled as Go runtime panics",
		},
		Trusted: []string{"gosym executor and term simplifier", "z3 4.8.12"},
	})
}
