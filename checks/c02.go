package checks

import "verif/gen"

func init() {
	Register(&Check{
		ID:    "C02",
		Level: "translation_validation",
		Custom: func(ctx *RunCtx) error {
			return tvRun(ctx, gen.Lookalikes(ctx.TierN()), "lookalike")
		},
		Bounds: "programs: the look-alike catalogue (gen.Lookalikes: unsupported assignment operators, operators, slice forms, literals, statement kinds, control-flow shapes, integer types, interface uses, builtins with extra arguments, user functions named like builtins), one construct per host function; per declaration: rejected with a conversion error, or emitted and then equivalent to Go on all inputs within the C01 input bounds",
		Assumptions: []string{
			"as C01; a goose crash (exit status other than 0/1) satisfies neither alternative",
			"user packages that merely share their name with an FFI package are not covered: the emitted text is identical either way, the difference is only in how Coq resolves the qualified name",
		},
		Trusted: []string{"gosym executor", "z3 4.8.12", "GooseLang model", "go/ssa as Go semantics"},
	})
}
