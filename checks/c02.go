package checks

import (
	"fmt"

	"verif/gen"
)

func init() {
	Register(&Check{
		ID:    "C02",
		Level: "translation_validation",
		Custom: func(ctx *RunCtx) error {
			if err := tvRun(ctx, gen.Lookalikes(ctx.TierN()), "lookalike"); err != nil {
				return err
			}
			// user packages merely named like the packages goose treats specially
			if err := tvRun(ctx, gen.MultiPkgLookalikes(), "lookalike"); err != nil {
				return err
			}
			// random subset programs with one out-of-subset construct injected at a random position
			if sd := envOr("VERIF_RANDOM_SEED", ""); sd != "" {
				// exploration aid (not used by the registered commands): another seed of the random corpora
				var seed int64
				fmt.Sscan(sd, &seed)
				if err := tvRandom(ctx, gen.RandomLookalikes(seed, 500, 3)); err != nil {
					return err
				}
				return tvRandom(ctx, gen.RandomLiberal(seed, 500, 3))
			}
			if ctx.TierN() == 0 {
				if err := tvRandom(ctx, gen.RandomLookalikes(1, 150, 3)); err != nil {
					return err
				}
				// random programs with unrestricted control flow (returns, break/continue and else-if chains
				// anywhere, shadowing, assignment to := variables and parameters)
				return tvRandom(ctx, gen.RandomLiberal(1, 200, 3))
			}
			for seed := int64(1); seed <= 3; seed++ {
				if err := tvRandom(ctx, gen.RandomLiberal(seed, 500, 3)); err != nil {
					return err
				}
			}
			for seed := int64(1); seed <= 3; seed++ {
				if err := tvRandom(ctx, gen.RandomLookalikes(seed, 500, 3)); err != nil {
					return err
				}
			}
			return nil
		},
		Bounds: "programs: the look-alike catalogue (gen.Lookalikes: unsupported assignment operators, operators, slice forms, literals, statement kinds, control-flow shapes, integer types, interface uses, builtins with extra arguments, user functions named like builtins), one construct per host function, plus random subset programs (gen.RandomLookalikes, fixed seeds: 150 in quick, 3 × 500 in thorough) with one of 47 out-of-subset constructs injected at a random statement position (unsupported op-assign and operators, switch, defer, goto, labels, return inside loops, multi-declarations, swaps, signed/16-bit/float conversions, 3-index slices, if-init, positional literals, arrays, string indexing/ranging/slicing, min/max, channels, closures called in place, assignment to parameters and := variables, …); and random programs with unrestricted control flow (gen.RandomLiberal, 200 in quick, 3 × 500 in thorough: returns, break/continue and else-if chains at arbitrary positions, shadowing, assignment to := variables and parameters); per declaration: rejected with a conversion error, or emitted and then equivalent to Go on all inputs within the C01 input bounds",
		Assumptions: []string{
			"as C01; a goose crash (exit status other than 0/1) satisfies neither alternative",
			"user packages that merely share their name with an FFI package are not covered: the emitted text is identical either way, the difference is only in how Coq resolves the qualified name",
		},
		Trusted: []string{"gosym executor", "z3 4.8.12", "GooseLang model", "go/ssa as Go semantics"},
	})
}
