package checks

import "verif/engine"

func init() {
	hf := []HarnessFile{{RepoDir: "machine/disk", Pkg: "disk", Src: "disk/zz_verif_c10.go"}}
	big := engine.Options{Budget: 20_000_000}
	Register(&Check{
		ID:       "C10",
		Level:    "model_checking",
		Patterns: []string{"./machine/disk"},
		Harness:  hf,
		Entries: []Entry{
			{PkgPath: diskPkg, Func: "verifC10MemDiscipline", Opt: big, Replay: "race"},
			{PkgPath: diskPkg, Func: "verifC10FileDiscipline", Opt: big, Replay: "model"},
			{PkgPath: diskPkg, Func: "verifC10MemConcurrent", Opt: big, Replay: "race"},
			{PkgPath: diskPkg, Func: "verifC10MemSequences", Opt: big, Replay: "race"},
			{PkgPath: diskPkg, Func: "verifC10FileConcurrent", Opt: big, Replay: "model"},
		},
		Covers: []string{"c10/mem", "c10/file", "c10/conc", "c10/sequences", "c10/fileconc"},
		Bounds: "lock-discipline VCs per method (Read, ReadTo, Write, Size) for all 64-bit addresses, all contents, block-sized and wrong-sized write buffers, n ≤ 2 blocks, every path including panics; file disk: n ≤ 3, all pairs of distinct in-range addresses. Additionally three concurrent operations (two writers, one reader) on a 2-block memory disk under every interleaving at synchronisation points (locks, atomics, Pool.Get/Put) with a happens-before race check on every byte and the register outcomes checked. Otherwise schedules are not enumerated: linearizability follows from the discharged VCs by the (trusted) meta-theorem lock discipline ⇒ race freedom ⇒ atomic critical sections.",
		Assumptions: []string{
			"meta-theorem (trusted): every shared access inside a critical section of an adequate mode, one critical section per operation and release on every exit imply data-race freedom and linearizability with the linearization point inside the section; the sequential effect of the section is the register operation (C09)",
			"the kernel executes pread/pwrite on disjoint ranges without interference and each call atomically",
		},
		Trusted: []string{"gosym executor, lock monitor", "z3 4.8.12", "kernel model"},
	})
}
