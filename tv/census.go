package tv

import (
	"fmt"
	"go/ast"
	"go/parser"
	"go/token"
	"sort"

	"verif/gl"
)

// GoDecl is one top-level declaration of a generated package.
type GoDecl struct {
	Kind     string // func, method, type, const, var
	Name     string // Go name
	CoqName  string // documented Coq name
	File     string
	From, To int
}

// ListDecls parses the package sources and lists its top-level declarations.
func ListDecls(p *Package) ([]GoDecl, error) {
	var out []GoDecl
	fset := token.NewFileSet()
	var files []string
	for name := range p.Files {
		files = append(files, name)
	}
	sort.Strings(files)
	for _, name := range files {
		f, err := parser.ParseFile(fset, name, p.Files[name], 0)
		if err != nil {
			return nil, err
		}
		for _, d := range f.Decls {
			from, to := fset.Position(d.Pos()).Line, fset.Position(d.End()).Line
			switch d := d.(type) {
			case *ast.FuncDecl:
				gd := GoDecl{Kind: "func", Name: d.Name.Name, CoqName: d.Name.Name, File: name, From: from, To: to}
				if d.Recv != nil && len(d.Recv.List) == 1 {
					t := d.Recv.List[0].Type
					if st, ok := t.(*ast.StarExpr); ok {
						t = st.X
					}
					if ix, ok := t.(*ast.IndexExpr); ok {
						t = ix.X
					}
					if id, ok := t.(*ast.Ident); ok {
						gd.Kind = "method"
						gd.CoqName = id.Name + "__" + d.Name.Name
					}
				}
				out = append(out, gd)
			case *ast.GenDecl:
				if d.Tok == token.IMPORT {
					continue
				}
				for _, sp := range d.Specs {
					// the whole GenDecl is one top-level declaration: an error anywhere in it covers its specs
					sfrom, sto := from, to
					switch sp := sp.(type) {
					case *ast.TypeSpec:
						out = append(out, GoDecl{Kind: "type", Name: sp.Name.Name, CoqName: sp.Name.Name, File: name, From: sfrom, To: sto})
					case *ast.ValueSpec:
						kind := "const"
						if d.Tok == token.VAR {
							kind = "var"
						}
						for _, n := range sp.Names {
							if n.Name == "_" {
								continue
							}
							out = append(out, GoDecl{Kind: kind, Name: n.Name, CoqName: n.Name, File: name, From: sfrom, To: sto})
						}
					}
				}
			}
		}
	}
	return out, nil
}

var documentedCategories = map[string]bool{"unsupported": true, "todo": true, "future": true, "impossible(go)": true, "impossible(no-examples)": true}

// CensusIssue is a violation found by the declaration census.
type CensusIssue struct {
	Label  string
	Detail string
	Decl   string
}

// Census checks, for one translated package: every declaration is emitted under its documented name
// or has a structured error located inside it; every error is structured, has a documented category
// and a position inside some declaration; definitions are unique and defined before use.
func Census(p *Package, tr *Translation, glp *gl.Program, issues []gl.Issue) ([]CensusIssue, error) {
	decls, err := ListDecls(p)
	if err != nil {
		return nil, err
	}
	var out []CensusIssue
	for _, e := range tr.Errors {
		if !documentedCategories[e.Category] {
			out = append(out, CensusIssue{Label: "errors/documented-category", Detail: fmt.Sprintf("[%s] %s", e.Category, e.Message)})
		}
		inside := false
		for _, d := range decls {
			if e.File == d.File && e.Line >= d.From && e.Line <= d.To {
				inside = true
			}
		}
		if !inside {
			out = append(out, CensusIssue{Label: "errors/located-inside-a-declaration",
				Detail: fmt.Sprintf("[%s] %s reported at %s:%d", e.Category, e.Message, e.File, e.Line)})
		}
	}
	for _, d := range decls {
		rejected := false
		for _, e := range tr.Errors {
			if e.File == d.File && e.Line >= d.From && e.Line <= d.To {
				rejected = true
			}
		}
		_, emitted := glp.Defs[d.CoqName]
		if !rejected && !emitted {
			out = append(out, CensusIssue{Label: "census/emitted-or-rejected", Decl: d.Name,
				Detail: fmt.Sprintf("%s %s (expected definition %s) is neither in the output nor covered by a reported error", d.Kind, d.Name, d.CoqName)})
		}
	}
	// mention graph between definitions (to exempt cyclic dependencies, which the property excludes)
	mentions := map[string]map[string]bool{}
	for name, d := range glp.Defs {
		mentions[name] = map[string]bool{}
		gl.WalkIdents(d.Body, func(id string) {
			if _, ok := glp.Defs[id]; ok {
				mentions[name][id] = true
			}
		})
	}
	var reaches func(from, to string, seen map[string]bool) bool
	reaches = func(from, to string, seen map[string]bool) bool {
		if from == to {
			return true
		}
		if seen[from] {
			return false
		}
		seen[from] = true
		for n := range mentions[from] {
			if reaches(n, to, seen) {
				return true
			}
		}
		return false
	}
	for _, is := range issues {
		if is.Kind == "use-before-def" && reaches(is.Name, is.In, map[string]bool{}) {
			continue // cyclic dependency: no order can satisfy it
		}
		switch is.Kind {
		case "duplicate":
			out = append(out, CensusIssue{Label: "census/distinct-names", Decl: is.Name, Detail: "two definitions named " + is.Name})
		case "use-before-def":
			out = append(out, CensusIssue{Label: "order/defined-before-use", Decl: is.In, Detail: is.In + " mentions " + is.Name + " which is defined later in the file"})
		case "global-self-ref":
			out = append(out, CensusIssue{Label: "order/self-reference-through-rec-binder", Decl: is.In, Detail: is.In + " mentions its own global name"})
		}
	}
	return out, nil
}
