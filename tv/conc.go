package tv

import (
	"fmt"
	"os"
	"os/exec"
	"sort"
	"strings"

	"golang.org/x/tools/go/ssa"

	"verif/engine"
	"verif/gl"
)

// ConcResult is the verdict for one concurrent template (C03).
type ConcResult struct {
	Case         Case
	GoPaths      int
	GLPaths      int
	GoOutcomes   []*engine.PathOutcome
	GLOutcomes   []*engine.PathOutcome
	Violations   []string
	Inconclusive []string
	Queries      int
}

// ValidateConc explores all interleavings (at synchronisation points) of the Go function and of
// its GooseLang translation separately and compares the outcome sets with the solver.
func ValidateConc(prog *engine.Program, fn *ssa.Function, glp *gl.Program, glName string, c Case, maxPaths int) *ConcResult {
	res := &ConcResult{Case: c}
	sig := fn.Signature
	mkArgs := func(m *engine.Machine) ([]engine.Value, []gl.Val, bool) {
		var ga []engine.Value
		var la []gl.Val
		for i := 0; i < sig.Params().Len(); i++ {
			p := sig.Params().At(i)
			w, ok := basicWidth(p.Type())
			if !ok {
				return nil, nil, false
			}
			v := m.Nondet("arg_"+p.Name(), w)
			if w == 64 {
				for _, sm := range c.Small {
					if sm == p.Name() {
						m.Assume(m.S.ULe(v, m.S.Const(64, 3)))
					}
				}
			}
			ga, la = append(ga, v), append(la, gl.VInt{T: v})
		}
		return ga, la, true
	}
	resTerm := func(m *engine.Machine, v engine.Value) *engine.Term {
		if t, ok := v.(*engine.Term); ok {
			if t.W == 0 {
				return m.S.Ite(t, m.S.Const(64, 1), m.S.Const(64, 0))
			}
			return m.S.ZExt(t, 64)
		}
		return nil
	}
	opt := engine.Options{Budget: 2_000_000, TimeoutMs: 10000, MaxPaths: maxPaths}
	goRep := prog.ExploreHost(c.ID+"/go", func(m *engine.Machine) {
		m.RunInit(fn.Pkg)
		ga, _, ok := mkArgs(m)
		if !ok {
			m.End("unsupported", "concurrent templates take integer arguments only")
		}
		var r engine.Value
		if gp := m.Try(func() { r = m.CallFunction(fn, ga, nil) }); gp != nil {
			m.SetOutcome("panic", nil, gp.Msg)
			return
		}
		m.SetOutcome("ok", resTerm(m, r), "")
	}, opt, 8)
	glRep := prog.ExploreHost(c.ID+"/gl", func(m *engine.Machine) {
		_, la, _ := mkArgs(m)
		if len(la) == 0 {
			la = []gl.Val{gl.VUnit{}}
		}
		in := gl.NewInterp(m, glp.Clone())
		var out gl.Val
		var stuck *gl.Stuck
		func() {
			defer func() {
				if r := recover(); r != nil {
					switch e := r.(type) {
					case *gl.Stuck:
						stuck = e
						return
					case *gl.Unknown:
						m.End("unsupported", "GooseLang model: "+e.Msg)
					}
					panic(r)
				}
			}()
			f, ok := in.Global(glName)
			if !ok {
				m.End("unsupported", "no GooseLang definition "+glName)
			}
			out = in.Apply(f, la)
		}()
		if stuck != nil {
			m.SetOutcome("stuck", nil, stuck.Msg)
			return
		}
		var t *engine.Term
		switch v := out.(type) {
		case gl.VInt:
			t = m.S.ZExt(v.T, 64)
		case gl.VBool:
			t = m.S.Ite(v.T, m.S.Const(64, 1), m.S.Const(64, 0))
		}
		m.SetOutcome("ok", t, "")
	}, opt, 8)
	res.GoPaths, res.GLPaths = goRep.Paths, glRep.Paths
	res.GoOutcomes, res.GLOutcomes = goRep.Outcomes, glRep.Outcomes
	for _, rep := range []*engine.Report{goRep, glRep} {
		for kind, n := range rep.Ends {
			switch kind {
			case "ok", "assume", "infeasible", "deadlock", "goroutine-panic":
			default:
				res.Inconclusive = append(res.Inconclusive, fmt.Sprintf("%s: %d path(s) ended %s (%s)", rep.Entry, n, kind, rep.EndMsgs[kind]))
			}
		}
		if rep.Truncated {
			res.Inconclusive = append(res.Inconclusive, rep.Entry+": interleaving limit reached")
		}
	}
	if len(res.Inconclusive) > 0 {
		return res
	}
	decls := map[string]string{}
	for _, o := range append(append([]*engine.PathOutcome{}, res.GoOutcomes...), res.GLOutcomes...) {
		for k, v := range o.Decls {
			decls[k] = v
		}
	}
	dedup := func(os []*engine.PathOutcome) []*engine.PathOutcome {
		seen := map[string]bool{}
		var out []*engine.PathOutcome
		for _, o := range os {
			k := o.Kind + "|" + o.PC + "|" + o.Value
			if !seen[k] {
				seen[k] = true
				out = append(out, o)
			}
		}
		return out
	}
	goOut, glOut := dedup(res.GoOutcomes), dedup(res.GLOutcomes)
	matchAny := func(pc, val string, others []*engine.PathOutcome) string {
		var alts []string
		for _, o := range others {
			if o.Kind == "ok" && o.Value != "" {
				alts = append(alts, "(and "+o.PC+" (= "+val+" "+o.Value+"))")
			}
		}
		if len(alts) == 0 {
			return pc
		}
		return "(and " + pc + " (not (or false " + strings.Join(alts, " ") + ")))"
	}
	query := func(body string) string {
		res.Queries++
		return solveText(decls, body)
	}
	// the Go side must be well behaved for the template to say anything
	goDet := true
	for _, g := range goOut {
		if g.Kind != "ok" {
			if query(g.PC) != "unsat" {
				res.Inconclusive = append(res.Inconclusive, "the Go template itself can "+g.Kind+": "+g.Note)
				return res
			}
		}
	}
	// (1) every Go outcome is a GooseLang outcome
	for _, g := range goOut {
		if g.Kind != "ok" || g.Value == "" {
			continue
		}
		switch r := query(matchAny(g.PC, g.Value, glOut)); r {
		case "unsat":
		case "sat":
			res.Violations = append(res.Violations, "a Go outcome is not produced by any interleaving of the GooseLang program (Go result "+g.Value+")")
		default:
			res.Inconclusive = append(res.Inconclusive, "solver "+r+" on outcome inclusion")
		}
	}
	// is the Go result schedule-independent?
	for i, a := range goOut {
		for _, b := range goOut[i+1:] {
			if a.Kind == "ok" && b.Kind == "ok" && a.Value != "" && b.Value != "" {
				if query("(and "+a.PC+" "+b.PC+" (not (= "+a.Value+" "+b.Value+")))") != "unsat" {
					goDet = false
				}
			}
		}
	}
	// (2) if so, every complete GooseLang interleaving yields it, without deadlock or stuck thread
	if goDet {
		for _, l := range glOut {
			if l.Kind != "ok" {
				if query(l.PC) != "unsat" {
					res.Violations = append(res.Violations, "the GooseLang program can end "+l.Kind+" ("+l.Note+") although the Go result does not depend on the schedule")
				}
				continue
			}
			if l.Value == "" {
				continue
			}
			switch r := query(matchAny(l.PC, l.Value, goOut)); r {
			case "unsat":
			case "sat":
				res.Violations = append(res.Violations, "a GooseLang interleaving yields a result Go cannot produce ("+l.Value+")")
			default:
				res.Inconclusive = append(res.Inconclusive, "solver "+r+" on determinism check")
			}
		}
	}
	sort.Strings(res.Violations)
	return res
}

// solveText runs one closed query through z3 (one-shot).
func solveText(decls map[string]string, body string) string {
	f, err := os.CreateTemp("", "vq*.smt2")
	if err != nil {
		return "unknown"
	}
	defer os.Remove(f.Name())
	var names []string
	for k := range decls {
		names = append(names, k)
	}
	sort.Strings(names)
	for _, k := range names {
		fmt.Fprintln(f, decls[k])
	}
	fmt.Fprintln(f, "(assert "+body+")")
	fmt.Fprintln(f, "(check-sat)")
	f.Close()
	out, _ := exec.Command("z3", "-T:30", f.Name()).CombinedOutput()
	txt := strings.TrimSpace(string(out))
	if strings.Contains(txt, "(error") {
		return "unknown"
	}
	engine.StatQueries.Add(1)
	switch strings.SplitN(txt, "\n", 2)[0] {
	case "sat":
		return "sat"
	case "unsat":
		return "unsat"
	}
	return "unknown"
}
