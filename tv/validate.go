package tv

import (
	"fmt"
	"go/types"
	"strings"

	"golang.org/x/tools/go/ssa"

	"verif/engine"
	"verif/gl"
)

// Bounds of the input space.
type Bounds struct {
	MaxStr    int // string length 0..MaxStr
	MaxSlice  int // slice length 0..MaxSlice
	MaxMap    int // map entries 0..MaxMap
	SmallMax  uint64
	Budget    int
	TimeoutMs int
	DeadlineS int // wall-clock budget per function (0 = engine default)
}

var DefaultBounds = Bounds{MaxStr: 2, MaxSlice: 2, MaxMap: 2, SmallMax: 3, Budget: 200_000, TimeoutMs: 10000}

type argBuilder struct {
	m     *engine.Machine
	in    *gl.Interp
	b     Bounds
	n     int
	descs map[string]*gl.StructDesc
	pkg   *types.Package // the package under validation (types of other packages are qualified)
}

type unsupportedArg struct{ msg string }

func (ab *argBuilder) fresh(base string, w int) *engine.Term {
	ab.n++
	return ab.m.Nondet(base, w)
}

func basicWidth(t types.Type) (int, bool) {
	b, ok := t.Underlying().(*types.Basic)
	if !ok {
		return 0, false
	}
	switch b.Kind() {
	case types.Uint64:
		return 64, true
	case types.Uint32:
		return 32, true
	case types.Uint8:
		return 8, true
	}
	return 0, false
}

func isBoolT(t types.Type) bool {
	b, ok := t.Underlying().(*types.Basic)
	return ok && b.Kind() == types.Bool
}

func isStringT(t types.Type) bool {
	b, ok := t.Underlying().(*types.Basic)
	return ok && b.Kind() == types.String
}

// glType is the GooseLang type goose uses for a Go type (only what argument building needs).
func (ab *argBuilder) glType(t types.Type) *gl.Type {
	if w, ok := basicWidth(t); ok {
		return &gl.Type{Kind: map[int]string{64: "u64", 32: "u32", 8: "u8"}[w]}
	}
	switch {
	case isBoolT(t):
		return &gl.Type{Kind: "bool"}
	case isStringT(t):
		return &gl.Type{Kind: "string"}
	}
	switch u := t.Underlying().(type) {
	case *types.Pointer:
		return &gl.Type{Kind: "ptr"}
	case *types.Slice:
		return &gl.Type{Kind: "slice", Elem: ab.glType(u.Elem())}
	case *types.Map:
		return &gl.Type{Kind: "map", Elem: ab.glType(u.Elem())}
	case *types.Struct:
		if n, ok := t.(*types.Named); ok {
			return &gl.Type{Kind: "struct", Desc: ab.in.StructDescByName(ab.structName(n))}
		}
	}
	panic(&unsupportedArg{"type " + t.String()})
}

// structName: the GooseLang name of a named struct type (types of imported packages are qualified).
func (ab *argBuilder) structName(n *types.Named) string {
	if ab.pkg != nil && n.Obj().Pkg() != nil && n.Obj().Pkg() != ab.pkg {
		return n.Obj().Pkg().Name() + "." + n.Obj().Name()
	}
	return n.Obj().Name()
}

// mk builds a related pair of argument values of Go type t.
func (ab *argBuilder) mk(t types.Type, name string, small bool, depth int) (engine.Value, gl.Val) {
	m := ab.m
	s := m.S
	if w, ok := basicWidth(t); ok {
		v := ab.fresh(name, w)
		if small {
			m.Assume(s.ULe(v, s.Const(w, ab.b.SmallMax)))
		}
		return v, gl.VInt{T: v}
	}
	if isBoolT(t) {
		v := ab.fresh(name, 0)
		return v, gl.VBool{T: v}
	}
	if isStringT(t) {
		n := m.Choose(ab.b.MaxStr+1, "strlen")
		st := engine.Str{B: m.NondetBytes(name, n)}
		return st, gl.VStr{S: st}
	}
	if depth > 3 {
		panic(&unsupportedArg{"nesting too deep at " + t.String()})
	}
	switch u := t.Underlying().(type) {
	case *types.Slice:
		n := m.Choose(ab.b.MaxSlice+1, "slicelen")
		extra := 0
		if n > 0 {
			extra = m.Choose(2, "slicecap")
		}
		if n == 0 && m.Choose(2, "nilslice") == 1 {
			return engine.Slice{}, gl.VSlice{Elem: ab.glType(u.Elem()).Size()}
		}
		gt := ab.glType(u.Elem())
		var gvals []engine.Value
		glSl := ab.in.NewSliceVal(gt, n, n+extra)
		for i := 0; i < n+extra; i++ {
			gv, lv := ab.mk(u.Elem(), fmt.Sprintf("%s_%d", name, i), false, depth+1)
			gvals = append(gvals, gv)
			ab.in.SliceStore(glSl, gt, i, lv)
		}
		goSl := m.MakeSlice(u.Elem(), gvals)
		goSl.Len = n
		return goSl, glSl
	case *types.Pointer:
		gv, lv := ab.mk(u.Elem(), name+"_p", false, depth+1)
		obj := m.NewObject(u.Elem(), gv, name)
		return engine.Ptr{Obj: obj}, ab.in.AllocVal(ab.glType(u.Elem()), lv)
	case *types.Struct:
		named, ok := t.(*types.Named)
		if !ok {
			panic(&unsupportedArg{"anonymous struct"})
		}
		d := ab.in.StructDescByName(ab.structName(named))
		if len(d.Fields) != u.NumFields() {
			panic(&unsupportedArg{"struct descriptor mismatch for " + named.Obj().Name()})
		}
		gs := &engine.StructV{F: make([]engine.Value, u.NumFields())}
		ls := gl.VStruct{D: d, F: make([]gl.Val, u.NumFields())}
		for i := 0; i < u.NumFields(); i++ {
			gs.F[i], ls.F[i] = ab.mk(u.Field(i).Type(), name+"_"+u.Field(i).Name(), false, depth+1)
		}
		return gs, ls
	case *types.Map:
		n := m.Choose(ab.b.MaxMap+1, "maplen")
		gm := m.NewMap(u.Key(), u.Elem())
		lm := ab.in.NewMapVal(ab.glType(u.Elem()))
		var keys []engine.Value
		for i := 0; i < n; i++ {
			gk, lk := ab.mk(u.Key(), fmt.Sprintf("%s_k%d", name, i), false, depth+1)
			for _, pk := range keys { // distinct keys
				m.Assume(s.Not(m.ValEq(pk, gk)))
			}
			keys = append(keys, gk)
			gv, lv := ab.mk(u.Elem(), fmt.Sprintf("%s_v%d", name, i), false, depth+1)
			gm.Keys = append(gm.Keys, gk)
			gm.Vals = append(gm.Vals, gv)
			lm.M.Keys = append(lm.M.Keys, lk)
			lm.M.Vals = append(lm.M.Vals, lv)
		}
		return gm, lm
	}
	panic(&unsupportedArg{"type " + t.String()})
}

// relate builds the Bool term "Go value gv of type t corresponds to GooseLang value lv".
func (ab *argBuilder) relate(gv engine.Value, t types.Type, lv gl.Val, depth int) *engine.Term {
	m := ab.m
	s := m.S
	if depth > 6 {
		return s.True
	}
	mismatch := func(why string) *engine.Term {
		m.Note("shape mismatch: " + why)
		return s.False
	}
	if w, ok := basicWidth(t); ok {
		iv, ok := lv.(gl.VInt)
		if !ok || iv.T.W != w {
			return mismatch(fmt.Sprintf("Go uint%d vs GooseLang %s", w, gl.Show(lv)))
		}
		return s.Eq(gv.(*engine.Term), iv.T)
	}
	if isBoolT(t) {
		bv, ok := lv.(gl.VBool)
		if !ok {
			return mismatch("Go bool vs GooseLang " + gl.Show(lv))
		}
		return s.Eq(gv.(*engine.Term), bv.T)
	}
	if isStringT(t) {
		sv, ok := lv.(gl.VStr)
		if !ok {
			return mismatch("Go string vs GooseLang " + gl.Show(lv))
		}
		return m.ValEq(gv.(engine.Str), sv.S)
	}
	switch u := t.Underlying().(type) {
	case *types.Tuple:
		// results: (a, b, c) ↔ ((a, b), c)
		vals := gv.(engine.Tuple)
		cur := lv
		terms := make([]*engine.Term, len(vals))
		for i := len(vals) - 1; i >= 1; i-- {
			p, ok := cur.(gl.VPair)
			if !ok {
				return mismatch("Go tuple vs GooseLang " + gl.Show(lv))
			}
			terms[i] = ab.relate(vals[i], u.At(i).Type(), p.B, depth+1)
			cur = p.A
		}
		terms[0] = ab.relate(vals[0], u.At(0).Type(), cur, depth+1)
		return s.BAndAll(terms)
	case *types.Slice:
		gs := gv.(engine.Slice)
		ls, ok := lv.(gl.VSlice)
		if !ok {
			return mismatch("Go slice vs GooseLang " + gl.Show(lv))
		}
		if (gs.Base.Obj == nil) != (ls.B == nil) && (gs.Len != 0 || ls.Len != 0) {
			return mismatch("nil-ness of slices differs")
		}
		if gs.Len != ls.Len {
			return mismatch(fmt.Sprintf("slice lengths differ: Go %d, GooseLang %d", gs.Len, ls.Len))
		}
		gt := ab.glType(u.Elem())
		gvals := m.SliceVals(gs)
		terms := make([]*engine.Term, gs.Len)
		for i := 0; i < gs.Len; i++ {
			terms[i] = ab.relate(gvals[i], u.Elem(), ab.in.SliceLoad(ls, gt, i), depth+1)
		}
		return s.BAndAll(terms)
	case *types.Pointer:
		gp := gv.(engine.Ptr)
		lp, ok := lv.(gl.VLoc)
		if !ok {
			return mismatch("Go pointer vs GooseLang " + gl.Show(lv))
		}
		if (gp.Obj == nil) != (lp.B == nil) {
			return mismatch("nil-ness of pointers differs")
		}
		if gp.Obj == nil {
			return s.True
		}
		if isSyncType(u.Elem()) {
			return s.True
		}
		return ab.relate(m.Load(gp), u.Elem(), ab.in.LoadVal(ab.glType(u.Elem()), lp), depth+1)
	case *types.Struct:
		gs := gv.(*engine.StructV)
		ls, ok := lv.(gl.VStruct)
		if !ok || len(ls.F) != len(gs.F) {
			return mismatch("Go struct vs GooseLang " + gl.Show(lv))
		}
		terms := make([]*engine.Term, len(gs.F))
		for i := range gs.F {
			terms[i] = ab.relate(gs.F[i], u.Field(i).Type(), ls.F[i], depth+1)
		}
		return s.BAndAll(terms)
	case *types.Map:
		gm := gv.(*engine.MapV)
		lm, ok := lv.(gl.VMap)
		if !ok {
			return mismatch("Go map vs GooseLang " + gl.Show(lv))
		}
		gn, ln := 0, 0
		if gm != nil {
			gn = len(gm.Keys)
		}
		if lm.M != nil {
			ln = len(lm.M.Keys)
		}
		if gn != ln {
			return mismatch(fmt.Sprintf("map sizes differ: Go %d, GooseLang %d", gn, ln))
		}
		// every Go entry has a related GooseLang entry (sizes equal and keys distinct ⇒ bijection)
		terms := make([]*engine.Term, 0, gn)
		for i := 0; i < gn; i++ {
			any := s.False
			for j := 0; j < ln; j++ {
				any = s.BOr(any, s.BAnd(ab.relate(gm.Keys[i], u.Key(), lm.M.Keys[j], depth+1),
					ab.relate(gm.Vals[i], u.Elem(), lm.M.Vals[j], depth+1)))
			}
			terms = append(terms, any)
		}
		return s.BAndAll(terms)
	case *types.Signature, *types.Interface:
		return s.True // not comparable; ignored
	}
	return mismatch("unsupported result type " + t.String())
}

func isSyncType(t types.Type) bool {
	n, ok := t.(*types.Named)
	return ok && n.Obj().Pkg() != nil && n.Obj().Pkg().Path() == "sync"
}

// Outcome of validating one case.
type Outcome struct {
	Case    Case
	Report  *engine.Report
	Skipped string // reason, if the function could not be driven
}

type stuckErr struct{ msg string }

// ValidateFunc explores fn against its GooseLang definition.
func ValidateFunc(prog *engine.Program, fn *ssa.Function, glp *gl.Program, glName string, c Case, b Bounds, workers int) *Outcome {
	small := map[string]bool{}
	for _, p := range c.Small {
		small[p] = true
	}
	var skipped string
	body := func(m *engine.Machine) {
		in := gl.NewInterp(m, glp)
		in.Budget = b.Budget
		ab := &argBuilder{m: m, in: in, b: b, pkg: fn.Pkg.Pkg}
		m.RunInit(fn.Pkg)
		var goArgs []engine.Value
		var glArgs []gl.Val
		sig := fn.Signature
		func() {
			defer func() {
				if r := recover(); r != nil {
					switch e := r.(type) {
					case *unsupportedArg:
						skipped = e.msg
						m.End("unsupported", "argument type: "+e.msg)
					case *gl.Unknown:
						skipped = e.Msg
						m.End("unsupported", "GooseLang model: "+e.Msg)
					}
					panic(r)
				}
			}()
			if sig.Recv() != nil {
				gv, lv := ab.mk(sig.Recv().Type(), "recv", false, 0)
				goArgs, glArgs = append(goArgs, gv), append(glArgs, lv)
			}
			for i := 0; i < sig.Params().Len(); i++ {
				p := sig.Params().At(i)
				gv, lv := ab.mk(p.Type(), "arg_"+p.Name(), small[p.Name()], 0)
				goArgs, glArgs = append(goArgs, gv), append(glArgs, lv)
			}
		}()
		if len(glArgs) == 0 {
			glArgs = []gl.Val{gl.VUnit{}}
		}
		var goRes engine.Value
		goCall := make([]engine.Value, len(goArgs))
		copy(goCall, goArgs)
		if gp := m.Try(func() { goRes = m.CallFunction(fn, goCall, nil) }); gp != nil {
			m.Cover("go-panics")
			return // Go does not return normally on this path: nothing is required
		}
		var glRes gl.Val
		var stuck *gl.Stuck
		func() {
			defer func() {
				if r := recover(); r != nil {
					switch e := r.(type) {
					case *gl.Stuck:
						stuck = e
						return
					case *gl.Unknown:
						m.End("unsupported", "GooseLang model: "+e.Msg)
					}
					panic(r)
				}
			}()
			f, ok := in.Global(glName)
			if !ok {
				m.End("unsupported", "no GooseLang definition named "+glName)
			}
			glRes = in.Apply(f, glArgs)
		}()
		if stuck != nil {
			m.Note("GooseLang is stuck: " + stuck.Msg)
			m.Assert("gl/not-stuck", m.S.False)
			return
		}
		m.Cover("compared")
		// result
		res := sig.Results()
		switch res.Len() {
		case 0:
		case 1:
			m.Assert("result/same", ab.relate(goRes, res.At(0).Type(), glRes, 0))
		default:
			m.Assert("result/same", ab.relate(goRes, res, glRes, 0))
		}
		// everything reachable from the arguments afterwards
		k := 0
		if sig.Recv() != nil {
			m.Assert("effects/same", ab.relate(goArgs[0], sig.Recv().Type(), glArgs[0], 0))
			k = 1
		}
		for i := 0; i < sig.Params().Len(); i++ {
			t := sig.Params().At(i).Type()
			switch t.Underlying().(type) {
			case *types.Pointer, *types.Slice, *types.Map:
				m.Assert("effects/same", ab.relate(goArgs[k+i], t, glArgs[k+i], 0))
			}
		}
	}
	opt := engine.Options{Budget: b.Budget, TimeoutMs: b.TimeoutMs, MaxPaths: 20000, DeadlineS: b.DeadlineS}
	rep := prog.ExploreHost(c.ID, body, opt, workers)
	return &Outcome{Case: c, Report: rep, Skipped: skipped}
}

// FindFunc resolves "f" or "T.m" in the generated package.
func FindFunc(prog *engine.Program, pkgPath, name string) *ssa.Function {
	sp := prog.Pkgs[pkgPath]
	if sp == nil {
		return nil
	}
	if i := strings.Index(name, "."); i >= 0 {
		tn, mn := name[:i], name[i+1:]
		t := sp.Type(tn)
		if t == nil {
			return nil
		}
		for _, typ := range []types.Type{t.Type(), types.NewPointer(t.Type())} {
			if sel := prog.SSA.MethodSets.MethodSet(typ).Lookup(sp.Pkg, mn); sel != nil {
				return prog.SSA.MethodValue(sel)
			}
		}
		return nil
	}
	return sp.Func(name)
}
