// Package tv is the translation-validation driver (shape C): generated Go packages are
// translated by the real goose binary (built from the working tree), the emitted .v is
// parsed and loaded, and for every function the Go SSA and the GooseLang definition are
// evaluated on the same symbolic arguments; the solver is asked for an argument vector on
// which they differ or on which GooseLang is stuck.
package tv

import (
	"fmt"
	"go/parser"
	"go/token"
	"os"
	"os/exec"
	"path/filepath"
	"regexp"
	"sort"
	"strings"
	"time"

	"verif/engine"
)

const ModPath = "example.com/tvmod"

// Case is one function under validation.
type Case struct {
	ID    string   // stable program id (template/params)
	Func  string   // Go function name (or Type.method)
	Small []string // parameters assumed ≤ SmallBound (loop bounds)
	// Reject: "must" (subset violation if accepted is NOT implied), "may" (C02: reject-or-equivalent), "" (must be accepted)
	Reject string
	Tags   []string
	// source location of the case inside its package (for attributing goose's errors)
	File             string
	FromLine, ToLine int
	Src              string
}

// Package is a generated Go package.
type Package struct {
	Name  string
	Files map[string]string
	Cases []Case
	// Prelude is the text after the package clause that every case may rely on (imports, shared types)
	Prelude string
	// Deps: packages in sub-directories (name → file → source) that the package imports as
	// example.com/tvmod/<Name>/<dep>; they are translated in the same goose run and their
	// definitions are loaded under the qualified names dep.X
	Deps map[string]map[string]string
	// Isolated: produced by Singletons (one case cut out of a larger package)
	Isolated bool
}

// Singletons splits a package into one package per case (used to isolate the case that crashes goose).
func (p *Package) Singletons() []*Package {
	var out []*Package
	for i, c := range p.Cases {
		// keep only the imports this case (or the shared prelude declarations) uses: Go rejects
		// unused imports
		var pre, imports []string
		inBlock := false
		for _, l := range strings.Split(p.Prelude, "\n") {
			t := strings.TrimSpace(l)
			switch {
			case t == "import (":
				inBlock = true
			case inBlock && t == ")":
				inBlock = false
			case inBlock && strings.HasPrefix(t, "\""):
				imports = append(imports, strings.Trim(t, "\""))
			case strings.HasPrefix(t, "import \""):
				imports = append(imports, strings.Trim(strings.TrimPrefix(t, "import "), "\""))
			default:
				pre = append(pre, l)
			}
		}
		body := strings.Join(pre, "\n") + "\n" + c.Src
		var keep []string
		unresolved := unresolvedIdents("package x\n\n" + body)
		for _, path := range imports {
			base := path[strings.LastIndex(path, "/")+1:]
			// a qualifier that names the package is unresolved at file level; a local variable or
			// parameter that is merely spelled like it is not
			if strings.Contains(body, base+".") && (unresolved == nil || unresolved[base]) {
				keep = append(keep, "import \""+path+"\"")
			}
		}
		prelude := strings.Join(keep, "\n") + "\n" + strings.Join(pre, "\n")
		q := &Package{Name: fmt.Sprintf("%ss%d", p.Name, i), Files: map[string]string{}, Prelude: prelude, Deps: p.Deps, Isolated: true}
		src := "package " + q.Name + "\n\n" + prelude + "\n"
		from := strings.Count(src, "\n") + 1
		src += c.Src + "\n"
		c.File, c.FromLine, c.ToLine = "gen.go", from, strings.Count(src, "\n")
		q.Files["gen.go"] = src
		q.Cases = []Case{c}
		out = append(out, q)
	}
	return out
}

// unresolvedIdents parses src and returns the identifiers that are not declared in the file (nil
// when src does not parse).
func unresolvedIdents(src string) map[string]bool {
	f, err := parser.ParseFile(token.NewFileSet(), "x.go", src, 0)
	if err != nil {
		return nil
	}
	out := map[string]bool{}
	for _, id := range f.Unresolved {
		out[id.Name] = true
	}
	return out
}

type Driver struct {
	Repo     string
	Work     string // scratch module directory (outside /repo and /verif)
	GooseBin string
	env      []string
}

func NewDriver(repo string) (*Driver, error) {
	work, err := os.MkdirTemp("", "veriftv")
	if err != nil {
		return nil, err
	}
	d := &Driver{Repo: repo, Work: work, GooseBin: filepath.Join(work, "goose.bin")}
	d.env = append(os.Environ(), "GOFLAGS=-mod=mod", "GOPROXY=off", "GOSUMDB=off", "GOTOOLCHAIN=local")
	buildArgs := []string{"build", "-o", d.GooseBin, "./cmd/goose"}
	if cov := os.Getenv("VERIF_GOOSE_COVER"); cov != "" {
		// corpus-coverage measurement (tools/corpuscover.sh): statement coverage of the translator
		buildArgs = []string{"build", "-cover", "-coverpkg=./...", "-o", d.GooseBin, "./cmd/goose"}
		os.MkdirAll(cov, 0o755)
		d.env = append(d.env, "GOCOVERDIR="+cov)
	}
	build := exec.Command("go", buildArgs...)
	build.Dir = repo
	build.Env = d.env
	if out, err := build.CombinedOutput(); err != nil {
		d.Close()
		return nil, fmt.Errorf("building goose from the working tree failed: %v\n%s", err, out)
	}
	mod := filepath.Join(work, "mod")
	os.MkdirAll(mod, 0o755)
	gomod := "module " + ModPath + "\n\ngo 1.22\n\nrequire github.com/goose-lang/goose v0.0.0\n\nreplace github.com/goose-lang/goose => " + repo + "\n"
	os.WriteFile(filepath.Join(mod, "go.mod"), []byte(gomod), 0o644)
	if sum, err := os.ReadFile(filepath.Join(repo, "go.sum")); err == nil {
		os.WriteFile(filepath.Join(mod, "go.sum"), sum, 0o644)
	}
	// resolve the requirement list once (offline)
	tidy := exec.Command("go", "mod", "tidy")
	tidy.Dir = mod
	tidy.Env = d.env
	tidy.CombinedOutput()
	return d, nil
}

func (d *Driver) Close() { os.RemoveAll(d.Work) }

func (d *Driver) ModDir() string { return filepath.Join(d.Work, "mod") }

// Translation is the outcome of running goose on one package.
type Translation struct {
	Exit    int
	Stderr  string
	V       string // emitted text ("" if nothing was written)
	Partial bool   // produced with -ignore-errors after a failure
	Errors  []ConvError
	Crashed bool
	DepV    map[string]string // emitted text of the packages in Package.Deps
}

type ConvError struct {
	Category string
	Message  string
	File     string
	Line     int
}

// the head line of an error block: "[category]: message", possibly after a prefix such as
// "conversion failed: " or the name of the package
var errHead = regexp.MustCompile(`^(?:[^\[\]]*: )?\[([a-z()\-]+)\]: (.*)$`)
var errSrc = regexp.MustCompile(`^\s+src: (.*?):(\d+):(\d+)$`)

func parseErrors(stderr string) []ConvError {
	var out []ConvError
	var cur *ConvError
	for _, l := range strings.Split(stripANSI(stderr), "\n") {
		if m := errHead.FindStringSubmatch(l); m != nil {
			out = append(out, ConvError{Category: m[1], Message: m[2]})
			cur = &out[len(out)-1]
			continue
		}
		if m := errSrc.FindStringSubmatch(l); m != nil && cur != nil {
			cur.File = filepath.Base(m[1])
			fmt.Sscan(m[2], &cur.Line)
		}
	}
	return out
}

var ansi = regexp.MustCompile("\x1b\\[[0-9;]*m")

func stripANSI(s string) string { return ansi.ReplaceAllString(s, "") }

// WritePackage (re)creates the package directory in the scratch module.
func (d *Driver) WritePackage(p *Package) error {
	dir := filepath.Join(d.ModDir(), p.Name)
	os.RemoveAll(dir)
	if err := os.MkdirAll(dir, 0o755); err != nil {
		return err
	}
	for name, src := range p.Files {
		if err := os.WriteFile(filepath.Join(dir, name), []byte(src), 0o644); err != nil {
			return err
		}
	}
	for dep, files := range p.Deps {
		if err := os.MkdirAll(filepath.Join(dir, dep), 0o755); err != nil {
			return err
		}
		for name, src := range files {
			if err := os.WriteFile(filepath.Join(dir, dep, name), []byte(src), 0o644); err != nil {
				return err
			}
		}
	}
	return nil
}

func (d *Driver) runGoose(p *Package, out string, flags ...string) (int, string) {
	args := append(append([]string{}, flags...), "-out", out, "./"+p.Name)
	for _, dep := range sortedDeps(p) {
		args = append(args, "./"+p.Name+"/"+dep)
	}
	cmd := exec.Command(d.GooseBin, args...)
	cmd.Dir = d.ModDir()
	cmd.Env = d.env
	var stderr strings.Builder
	cmd.Stderr = &stderr
	cmd.Stdout = &stderr
	done := make(chan error, 1)
	if err := cmd.Start(); err != nil {
		return 2, err.Error()
	}
	go func() { done <- cmd.Wait() }()
	select {
	case err := <-done:
		if err == nil {
			return 0, stderr.String()
		}
		if ee, ok := err.(*exec.ExitError); ok {
			return ee.ExitCode(), stderr.String()
		}
		return 2, stderr.String() + err.Error()
	case <-time.After(2 * time.Minute):
		cmd.Process.Kill()
		<-done
		return 124, stderr.String() + "\nTIMEOUT"
	}
}

// Translate runs the real goose on the package (then with -ignore-errors if it failed).
func (d *Driver) Translate(p *Package, flags ...string) *Translation {
	out := filepath.Join(d.Work, "out-"+p.Name)
	os.RemoveAll(out)
	vfile := filepath.Join(out, "example_com", "tvmod", p.Name+".v")
	tr := &Translation{}
	tr.Exit, tr.Stderr = d.runGoose(p, out, flags...)
	tr.Errors = parseErrors(tr.Stderr)
	if tr.Exit != 0 && tr.Exit != 1 {
		tr.Crashed = true
	}
	if tr.Exit == 1 {
		// partial output
		code2, stderr2 := d.runGoose(p, out, append(append([]string{}, flags...), "-ignore-errors")...)
		tr.Partial = true
		if code2 != 0 && code2 != 1 {
			// with -ignore-errors goose goes on past the reported error and may then crash
			tr.Crashed = true
			tr.Exit = code2
			tr.Stderr += "\n--- with -ignore-errors:\n" + stderr2
		}
	}
	if b, err := os.ReadFile(vfile); err == nil {
		tr.V = string(b)
	}
	for _, dep := range sortedDeps(p) {
		if b, err := os.ReadFile(filepath.Join(out, "example_com", "tvmod", p.Name, dep+".v")); err == nil {
			if tr.DepV == nil {
				tr.DepV = map[string]string{}
			}
			tr.DepV[dep] = string(b)
		}
	}
	os.RemoveAll(out)
	return tr
}

func sortedDeps(p *Package) []string {
	var out []string
	for d := range p.Deps {
		out = append(out, d)
	}
	sort.Strings(out)
	return out
}

// LoadSSA builds go/ssa for the generated package.
func (d *Driver) LoadSSA(p *Package) (*engine.Program, error) {
	prog, err := engine.Load(d.ModDir(), nil, "./"+p.Name)
	if err != nil {
		return nil, err
	}
	prog.InitAllow[ModPath+"/"+p.Name] = true
	for dep := range p.Deps {
		prog.InitAllow[ModPath+"/"+p.Name+"/"+dep] = true
	}
	return prog, nil
}

// declRanges maps each top-level declaration name of the package to (file, first line, last line).
type declRange struct {
	file     string
	from, to int
}

func sortedKeys(m map[string]bool) []string {
	out := make([]string, 0, len(m))
	for k := range m {
		out = append(out, k)
	}
	sort.Strings(out)
	return out
}

// TranslateSet runs goose once on several packages of the scratch module and returns the emitted
// file of each (by package name), plus exit status and stderr.
func (d *Driver) TranslateSet(names []string, flags ...string) (map[string]string, int, string) {
	out := filepath.Join(d.Work, "out-set")
	os.RemoveAll(out)
	args := append(append([]string{}, flags...), "-out", out)
	for _, n := range names {
		args = append(args, "./"+n)
	}
	cmd := exec.Command(d.GooseBin, args...)
	cmd.Dir = d.ModDir()
	cmd.Env = d.env
	var stderr strings.Builder
	cmd.Stderr = &stderr
	cmd.Stdout = &stderr
	err := cmd.Run()
	code := 0
	if ee, ok := err.(*exec.ExitError); ok {
		code = ee.ExitCode()
	} else if err != nil {
		code = 2
	}
	res := map[string]string{}
	for _, n := range names {
		if b, err := os.ReadFile(filepath.Join(out, "example_com", "tvmod", n+".v")); err == nil {
			res[n] = string(b)
		}
	}
	os.RemoveAll(out)
	return res, code, stderr.String()
}
