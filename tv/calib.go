package tv

import (
	"fmt"
	"os"
	"path/filepath"
	"sort"
	"strings"

	"verif/gl"
)

// CalibResult summarises the calibration of the GooseLang model on the shipped semantics tests.
type CalibResult struct {
	Total, Agree, Disagree, Unsupported int
	Lines                             []string
}

// Calibrate runs every closed test*() bool function of internal/examples/semantics through
// both sides; the model must agree with Go on all of them (failing_ tests are reported only).
func Calibrate(d *Driver, workers int, only string) (*CalibResult, error) {
	src := filepath.Join(d.Repo, "internal/examples/semantics")
	ents, err := os.ReadDir(src)
	if err != nil {
		return nil, err
	}
	pkg := &Package{Name: "semantics", Files: map[string]string{}}
	for _, e := range ents {
		n := e.Name()
		if !strings.HasSuffix(n, ".go") || strings.HasSuffix(n, "_test.go") {
			continue
		}
		b, _ := os.ReadFile(filepath.Join(src, n))
		pkg.Files[n] = string(b)
	}
	if err := d.WritePackage(pkg); err != nil {
		return nil, err
	}
	tr := d.Translate(pkg)
	if tr.V == "" {
		return nil, fmt.Errorf("goose produced no output: exit %d\n%s", tr.Exit, tr.Stderr)
	}
	file, err := gl.Parse(tr.V)
	if err != nil {
		return nil, err
	}
	glp, issues := gl.LoadFile(file)
	res := &CalibResult{}
	for _, is := range issues {
		res.Lines = append(res.Lines, "loader: "+is.String())
	}
	prog, err := d.LoadSSA(pkg)
	if err != nil {
		return nil, err
	}
	var names []string
	for name := range glp.Defs {
		if (strings.HasPrefix(name, "test") || strings.HasPrefix(name, "failing_test")) && (only == "" || only == name) {
			names = append(names, name)
		}
	}
	sort.Strings(names)
	for _, name := range names {
		fn := FindFunc(prog, ModPath+"/semantics", name)
		if fn == nil || fn.Signature.Params().Len() != 0 {
			continue
		}
		res.Total++
		out := ValidateFunc(prog, fn, glp, name, Case{ID: "calib/" + name, Func: name}, DefaultBounds, workers)
		r := out.Report
		viol := 0
		for _, a := range r.Obs {
			viol += a.Violated
		}
		status := "agree"
		switch {
		case r.Ends["unsupported"] > 0 || r.Ends["engine-fatal"] > 0 || r.Ends["unwind"] > 0:
			status = "unsupported: " + r.EndMsgs["unsupported"] + r.EndMsgs["engine-fatal"] + r.EndMsgs["unwind"]
			res.Unsupported++
		case viol > 0:
			status = "DISAGREE"
			for _, v := range r.Violations {
				status += " [" + v.Label + " " + strings.Join(v.Notes, "; ") + "]"
			}
			res.Disagree++
		case r.Covers["compared"] == 0:
			status = "not compared (Go panics or no path): " + fmt.Sprint(r.Ends, r.EndMsgs)
			res.Unsupported++
		default:
			res.Agree++
		}
		res.Lines = append(res.Lines, fmt.Sprintf("%-50s %s", name, status))
	}
	return res, nil
}
