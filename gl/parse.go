// Package gl models GooseLang as emitted by goose: a parser for the .v text, a
// Coq-like loader (scoping) and an evaluator over the engine's symbolic values.
package gl

import (
	"fmt"
	"strconv"
	"strings"
	"unicode/utf8"
)

// ---------------------------------------------------------------------------
// lexer

type tokKind int

const (
	tEOF tokKind = iota
	tIdent
	tString // "..." (binder / variable / field name)
	tHashLit
	tPunct
	tDot // sentence terminator
)

type token struct {
	kind tokKind
	text string
	// for #-literals
	lit  Expr
	pos  int
	line int
}

// LexError is a lexical well-formedness failure (C05 territory).
type LexError struct {
	Msg  string
	Line int
}

func (e *LexError) Error() string { return fmt.Sprintf("line %d: %s", e.Line, e.Msg) }

// ParseError means well-delimited text in a form this parser does not know (inconclusive, not a violation).
type ParseError struct {
	Msg  string
	Line int
}

func (e *ParseError) Error() string { return fmt.Sprintf("line %d: %s", e.Line, e.Msg) }

func isIdentStart(r rune) bool {
	return r == '_' || r >= 'a' && r <= 'z' || r >= 'A' && r <= 'Z' || r >= 0x80 && r != 'λ' && r != '≠' && r != '≤' && r != '≥' && r != '≪' && r != '≫' && r != '⊢' && r != 'Γ'
}

func isIdentPart(r rune) bool {
	return isIdentStart(r) || r >= '0' && r <= '9' || r == '\''
}

// Comments collects the comments seen by the lexer (text without delimiters).
type lexer struct {
	src      string
	pos      int
	line     int
	toks     []token
	Comments []string
}

func lex(src string) ([]token, []string, error) {
	lx := &lexer{src: src, line: 1}
	for {
		t, err := lx.next()
		if err != nil {
			return nil, nil, err
		}
		lx.toks = append(lx.toks, t)
		if t.kind == tEOF {
			return lx.toks, lx.Comments, nil
		}
	}
}

func (lx *lexer) peekRune() (rune, int) {
	if lx.pos >= len(lx.src) {
		return 0, 0
	}
	return utf8.DecodeRuneInString(lx.src[lx.pos:])
}

func (lx *lexer) skipComment() error {
	// at "(*"
	start := lx.line
	depth := 0
	begin := lx.pos + 2
	for lx.pos < len(lx.src) {
		switch {
		case strings.HasPrefix(lx.src[lx.pos:], "(*"):
			depth++
			lx.pos += 2
		case strings.HasPrefix(lx.src[lx.pos:], "*)"):
			depth--
			lx.pos += 2
			if depth == 0 {
				lx.Comments = append(lx.Comments, lx.src[begin:lx.pos-2])
				return nil
			}
		case lx.src[lx.pos] == '"':
			// Coq lexes strings inside comments
			lx.pos++
			for lx.pos < len(lx.src) && lx.src[lx.pos] != '"' {
				if lx.src[lx.pos] == '\n' {
					lx.line++
				}
				lx.pos++
			}
			if lx.pos >= len(lx.src) {
				return &LexError{"unterminated string inside comment", start}
			}
			lx.pos++
		default:
			if lx.src[lx.pos] == '\n' {
				lx.line++
			}
			lx.pos++
		}
	}
	return &LexError{"unterminated comment", start}
}

func (lx *lexer) readString() (string, error) {
	// at opening quote
	start := lx.line
	lx.pos++
	var sb strings.Builder
	for lx.pos < len(lx.src) {
		c := lx.src[lx.pos]
		if c == '"' {
			if lx.pos+1 < len(lx.src) && lx.src[lx.pos+1] == '"' {
				sb.WriteByte('"')
				lx.pos += 2
				continue
			}
			lx.pos++
			return sb.String(), nil
		}
		if c == '\n' {
			lx.line++
		}
		sb.WriteByte(c)
		lx.pos++
	}
	return "", &LexError{"unterminated string", start}
}

var puncts = []string{"<-[", "![", "::=", "::", ":=", ";;", "->", "<>", "&&", "||", "λ:", "≠", "≤", "≥", "≪", "≫",
	"(", ")", "[", "]", ",", ";", "+", "-", "*", "=", "<", ">", "~", ":", "%", "`", "⊢", "{", "}", "'", "|", "@", "!", "^", "&", "?", "/", "\\", "$"}

func (lx *lexer) next() (token, error) {
	for lx.pos < len(lx.src) {
		c := lx.src[lx.pos]
		if c == '\n' {
			lx.line++
			lx.pos++
		} else if c == ' ' || c == '\t' || c == '\r' {
			lx.pos++
		} else if strings.HasPrefix(lx.src[lx.pos:], "(*") {
			if err := lx.skipComment(); err != nil {
				return token{}, err
			}
		} else {
			break
		}
	}
	if lx.pos >= len(lx.src) {
		return token{kind: tEOF, pos: lx.pos, line: lx.line}, nil
	}
	start, line := lx.pos, lx.line
	c := lx.src[lx.pos]
	switch {
	case c == '"':
		s, err := lx.readString()
		if err != nil {
			return token{}, err
		}
		return token{kind: tString, text: s, pos: start, line: line}, nil
	case c == '#':
		e, err := lx.hashLit()
		if err != nil {
			return token{}, err
		}
		return token{kind: tHashLit, lit: e, pos: start, line: line, text: lx.src[start:lx.pos]}, nil
	case c == '.':
		// sentence terminator: '.' followed by whitespace or EOF
		if lx.pos+1 >= len(lx.src) || strings.ContainsRune(" \t\r\n", rune(lx.src[lx.pos+1])) {
			lx.pos++
			return token{kind: tDot, text: ".", pos: start, line: line}, nil
		}
		lx.pos++
		return token{kind: tPunct, text: ".", pos: start, line: line}, nil
	case c >= '0' && c <= '9':
		for lx.pos < len(lx.src) && lx.src[lx.pos] >= '0' && lx.src[lx.pos] <= '9' {
			lx.pos++
		}
		return token{kind: tIdent, text: lx.src[start:lx.pos], pos: start, line: line}, nil
	}
	for _, p := range puncts {
		if strings.HasPrefix(lx.src[lx.pos:], p) {
			lx.pos += len(p)
			return token{kind: tPunct, text: p, pos: start, line: line}, nil
		}
	}
	r, _ := lx.peekRune()
	if isIdentStart(r) {
		for lx.pos < len(lx.src) {
			r, sz := lx.peekRune()
			if isIdentPart(r) {
				lx.pos += sz
				continue
			}
			// qualified names: a '.' followed by an identifier start continues the identifier
			if r == '.' && lx.pos+1 < len(lx.src) {
				r2, _ := utf8.DecodeRuneInString(lx.src[lx.pos+1:])
				if isIdentStart(r2) {
					lx.pos++
					continue
				}
			}
			break
		}
		return token{kind: tIdent, text: lx.src[start:lx.pos], pos: start, line: line}, nil
	}
	_, sz := lx.peekRune()
	lx.pos += sz
	return token{kind: tPunct, text: lx.src[start:lx.pos], pos: start, line: line}, nil
}

// hashLit lexes #123, #true, #false, #(), #null, #(U32 n), #(U8 n), #(str"…").
func (lx *lexer) hashLit() (Expr, error) {
	line := lx.line
	lx.pos++ // '#'
	rest := lx.src[lx.pos:]
	switch {
	case strings.HasPrefix(rest, "()"):
		lx.pos += 2
		return &Lit{Kind: LUnit}, nil
	case strings.HasPrefix(rest, "true"):
		lx.pos += 4
		return &Lit{Kind: LBool, N: 1}, nil
	case strings.HasPrefix(rest, "false"):
		lx.pos += 5
		return &Lit{Kind: LBool, N: 0}, nil
	case strings.HasPrefix(rest, "null"):
		lx.pos += 4
		return &Lit{Kind: LNull}, nil
	case strings.HasPrefix(rest, "(str\""):
		lx.pos += 4
		s, err := lx.readString()
		if err != nil {
			return nil, err
		}
		if lx.pos >= len(lx.src) || lx.src[lx.pos] != ')' {
			return nil, &LexError{"string literal not closed by )", line}
		}
		lx.pos++
		return &Lit{Kind: LStr, S: s}, nil
	case strings.HasPrefix(rest, "(U32 ") || strings.HasPrefix(rest, "(U8 "):
		w := 32
		lx.pos += 5
		if strings.HasPrefix(rest, "(U8 ") {
			w = 8
			lx.pos--
		}
		st := lx.pos
		for lx.pos < len(lx.src) && lx.src[lx.pos] >= '0' && lx.src[lx.pos] <= '9' {
			lx.pos++
		}
		n, err := strconv.ParseUint(lx.src[st:lx.pos], 10, 64)
		if err != nil || lx.pos >= len(lx.src) || lx.src[lx.pos] != ')' {
			return nil, &LexError{"malformed sized literal", line}
		}
		lx.pos++
		return &Lit{Kind: LInt, W: w, N: n}, nil
	}
	st := lx.pos
	for lx.pos < len(lx.src) && lx.src[lx.pos] >= '0' && lx.src[lx.pos] <= '9' {
		lx.pos++
	}
	if st == lx.pos {
		return nil, &LexError{"malformed # literal", line}
	}
	n, err := strconv.ParseUint(lx.src[st:lx.pos], 10, 64)
	if err != nil {
		return nil, &LexError{"integer literal out of range", line}
	}
	return &Lit{Kind: LInt, W: 64, N: n}, nil
}

// ---------------------------------------------------------------------------
// AST

type Expr interface{}

type LitKind int

const (
	LInt LitKind = iota
	LBool
	LUnit
	LNull
	LStr
)

type Lit struct {
	Kind LitKind
	W    int
	N    uint64
	S    string
}

type Var struct{ Name string }   // "x"
type Ident struct{ Name string } // Gallina identifier
type App struct {
	Fn   Expr
	Args []Expr
}
type Tuple struct{ Elems []Expr }
type Let struct {
	Pat  *Pattern
	Rhs  Expr
	Body Expr
}
type Seq struct{ A, B Expr }
type If struct{ Cond, Then, Else Expr }
type Lam struct {
	Params []string // "" = anonymous (<>)
	Body   Expr
}
type Rec struct {
	Name   string
	Params []string
	Body   Expr
}
type BinOp struct {
	Op   string
	X, Y Expr
}
type Not struct{ X Expr }
type Load struct {
	Ty Expr
	X  Expr
}
type Store struct {
	Ty     Expr
	Dst, X Expr
}
type For struct{ Cond, Post, Body Expr } // each a Lam
type FieldList struct {
	Names []string
	Vals  []Expr
	Decl  bool // "::" (declaration) vs "::=" (value)
}
type Scoped struct { // (e)%ht
	X     Expr
	Scope string
}

type Pattern struct {
	Name string // binder ("" = anonymous)
	Sub  []*Pattern
}

// Decl is one top-level sentence.
type Decl struct {
	Kind       string // "def", "structdecl", "tydef", "notation", "other"
	Name       string
	TypeParams []string
	Sort       string // val / expr / ty / ""
	Body       Expr
	Line       int
	Raw        string
}

type File struct {
	Decls    []*Decl
	Comments []string
}

// ---------------------------------------------------------------------------
// parser

type parser struct {
	toks  []token
	i     int
	inDef bool
}

func (p *parser) peek() token { return p.toks[p.i] }
func (p *parser) advance() token {
	t := p.toks[p.i]
	if t.kind != tEOF {
		p.i++
	}
	return t
}
func (p *parser) isP(s string) bool {
	t := p.peek()
	return t.kind == tPunct && t.text == s
}
func (p *parser) isI(s string) bool {
	t := p.peek()
	return t.kind == tIdent && t.text == s
}
func (p *parser) fail(msg string) {
	// goose's printer never emits braces inside a definition (only the Context line of the
	// header has them): a brace where a term is expected is a lexical error of the output
	if t := p.peek(); p.inDef && (t.text == "{" || t.text == "}") {
		panic(&LexError{"brace inside a definition: " + msg, t.line})
	}
	panic(&ParseError{Msg: msg + " (at " + strconv.Quote(p.peek().text) + ")", Line: p.peek().line})
}
func (p *parser) expectP(s string) {
	if !p.isP(s) {
		p.fail("expected " + s)
	}
	p.advance()
}
func (p *parser) expectI(s string) {
	if !p.isI(s) {
		p.fail("expected " + s)
	}
	p.advance()
}

// Parse parses a whole emitted file.
func Parse(src string) (f *File, err error) {
	toks, comments, lerr := lex(src)
	if lerr != nil {
		return nil, lerr
	}
	// balanced delimiters per sentence (lexical well-formedness)
	depth := 0
	var stack []string
	for _, t := range toks {
		if t.kind != tPunct {
			if t.kind == tDot && depth != 0 && false {
				return nil, &LexError{"sentence ends inside brackets", t.line}
			}
			continue
		}
		switch t.text {
		case "(", "[", "![", "<-[":
			stack = append(stack, t.text)
			depth++
		case ")", "]":
			if len(stack) == 0 {
				return nil, &LexError{"unbalanced " + t.text, t.line}
			}
			open := stack[len(stack)-1]
			stack = stack[:len(stack)-1]
			depth--
			if (t.text == ")") != (open == "(") {
				return nil, &LexError{"mismatched " + open + " … " + t.text, t.line}
			}
		}
	}
	if len(stack) != 0 {
		return nil, &LexError{"unbalanced " + stack[len(stack)-1], toks[len(toks)-1].line}
	}
	// a vernacular keyword inside a term means the printer emitted a declaration where an expression
	// or type belongs: the sentence structure Coq sees is not the one intended
	atStart := true
	for _, t := range toks {
		if t.kind == tIdent && !atStart && (t.text == "Definition" || t.text == "Theorem" || t.text == "Notation") {
			return nil, &LexError{"vernacular keyword " + t.text + " inside a term", t.line}
		}
		atStart = t.kind == tDot
	}
	p := &parser{toks: toks}
	f = &File{Comments: comments}
	defer func() {
		if r := recover(); r != nil {
			switch e := r.(type) {
			case *ParseError:
				err = e
				return
			case *LexError:
				err = e
				return
			}
			panic(r)
		}
	}()
	for p.peek().kind != tEOF {
		d := p.sentence(src)
		if d != nil {
			f.Decls = append(f.Decls, d)
		}
	}
	return f, nil
}

// skipSentence consumes tokens up to and including the next terminator.
func (p *parser) skipSentence() {
	depth := 0
	for {
		t := p.advance()
		switch {
		case t.kind == tEOF:
			panic(&LexError{"sentence not terminated by '.'", t.line})
		case t.kind == tPunct && (t.text == "(" || t.text == "[" || t.text == "![" || t.text == "<-["):
			depth++
		case t.kind == tPunct && (t.text == ")" || t.text == "]"):
			depth--
		case t.kind == tDot && depth == 0:
			return
		}
	}
}

func (p *parser) sentence(src string) *Decl {
	t := p.peek()
	start := t.pos
	line := t.line
	raw := func() string { return src[start : p.toks[p.i-1].pos+1] }
	if t.kind != tIdent {
		p.skipSentence()
		return &Decl{Kind: "other", Line: line, Raw: raw()}
	}
	switch t.text {
	case "Definition":
		p.advance()
		name := p.advance()
		if name.kind != tIdent {
			p.fail("definition name")
		}
		d := &Decl{Kind: "def", Name: name.text, Line: line}
		p.inDef = true
		defer func() { p.inDef = false }()
		// type parameters "(T:ty)"
		for p.isP("(") {
			p.advance()
			tp := p.advance()
			p.expectP(":")
			p.expectI("ty")
			p.expectP(")")
			d.TypeParams = append(d.TypeParams, tp.text)
		}
		if p.isP(":") {
			p.advance()
			d.Sort = p.advance().text
		}
		p.expectP(":=")
		if p.isI("struct.decl") {
			p.advance()
			d.Kind = "structdecl"
			d.Body = p.fieldList()
		} else if p.isI("rec") || (p.peek().kind == tIdent && p.peek().text == "rec") {
			d.Body = p.expr()
		} else {
			d.Body = p.expr()
		}
		if p.peek().kind != tDot {
			p.fail("expected '.' at the end of the definition of " + d.Name)
		}
		p.advance()
		d.Raw = raw()
		if d.Sort == "ty" {
			d.Kind = "tydef"
		}
		return d
	case "Notation":
		p.advance()
		name := p.advance()
		p.expectP(":=")
		body := p.atom()
		// (only parsing)
		p.expectP("(")
		p.expectI("only")
		p.expectI("parsing")
		p.expectP(")")
		if p.peek().kind != tDot {
			p.fail("expected '.' after notation")
		}
		p.advance()
		return &Decl{Kind: "notation", Name: name.text, Body: body, Line: line, Raw: raw()}
	default:
		p.skipSentence()
		return &Decl{Kind: "other", Name: t.text, Line: line, Raw: raw()}
	}
}

func (p *parser) fieldList() *FieldList {
	p.expectP("[")
	fl := &FieldList{}
	for !p.isP("]") {
		name := p.advance()
		if name.kind != tString {
			p.fail("field name")
		}
		if p.isP("::") {
			fl.Decl = true
			p.advance()
		} else {
			p.expectP("::=")
		}
		fl.Names = append(fl.Names, name.text)
		fl.Vals = append(fl.Vals, p.expr())
		if p.isP(";") {
			p.advance()
		}
	}
	p.expectP("]")
	return fl
}

// expr := let | stmt (';;' expr)?
func (p *parser) expr() Expr {
	if p.isI("let:") || (p.isI("let") && p.toks[p.i+1].kind == tPunct && p.toks[p.i+1].text == ":") {
		return p.let()
	}
	if p.isI("rec") && p.toks[p.i+1].text == ":" {
		return p.rec()
	}
	if p.isP("λ:") {
		return p.lam()
	}
	e := p.stmt()
	if p.isP(";;") {
		p.advance()
		return &Seq{A: e, B: p.expr()}
	}
	return e
}

func (p *parser) let() Expr {
	p.advance() // let
	p.expectP(":")
	pat := p.pattern()
	p.expectP(":=")
	rhs := p.expr()
	p.expectI("in")
	body := p.expr()
	return &Let{Pat: pat, Rhs: rhs, Body: body}
}

func (p *parser) pattern() *Pattern {
	if p.isP("<>") {
		p.advance()
		return &Pattern{}
	}
	if p.peek().kind == tString {
		return &Pattern{Name: p.advance().text}
	}
	if p.isP("(") {
		p.advance()
		first := p.pattern()
		for p.isP(",") {
			p.advance()
			second := p.pattern()
			first = &Pattern{Sub: []*Pattern{first, second}}
		}
		p.expectP(")")
		return first
	}
	p.fail("binder pattern")
	return nil
}

func (p *parser) binders(end string) []string {
	var out []string
	for !p.isP(end) {
		if p.isP("<>") {
			p.advance()
			out = append(out, "")
		} else if p.peek().kind == tString {
			out = append(out, p.advance().text)
		} else {
			p.fail("binder")
		}
	}
	return out
}

func (p *parser) rec() Expr {
	p.advance() // rec
	p.expectP(":")
	name := p.advance()
	if name.kind != tString {
		p.fail("rec name")
	}
	params := p.binders(":=")
	p.expectP(":=")
	return &Rec{Name: name.text, Params: params, Body: p.expr()}
}

func (p *parser) lam() Expr {
	p.advance() // λ:
	params := p.binders(",")
	p.expectP(",")
	return &Lam{Params: params, Body: p.expr()}
}

var binops = map[string]bool{"+": true, "-": true, "*": true, "=": true, "≠": true, "<": true, ">": true, "≤": true, "≥": true,
	"&&": true, "||": true, "≪": true, "≫": true}

// stmt := binexpr ('<-[' ty ']' binexpr)?
func (p *parser) stmt() Expr {
	lhs := p.binexpr()
	if p.isP("<-[") {
		p.advance()
		ty := p.expr()
		p.expectP("]")
		rhs := p.binexpr()
		return &Store{Ty: ty, Dst: lhs, X: rhs}
	}
	return lhs
}

func (p *parser) binop() (string, bool) {
	t := p.peek()
	if t.kind == tPunct && binops[t.text] {
		p.advance()
		return t.text, true
	}
	if t.kind == tPunct && t.text == "`" {
		p.advance()
		name := p.advance().text
		p.expectP("`")
		return name, true
	}
	return "", false
}

func (p *parser) binexpr() Expr {
	x := p.unary()
	first := ""
	for {
		save := p.i
		op, ok := p.binop()
		if !ok {
			return x
		}
		if first == "" {
			first = op
		} else if first != op {
			// goose parenthesises every operand; relying on relative precedence is a form we do not know
			p.i = save
			p.fail("unparenthesised mix of binary operators " + first + " and " + op)
		}
		y := p.unary()
		x = &BinOp{Op: op, X: x, Y: y}
	}
}

func (p *parser) unary() Expr {
	if p.isP("~") {
		p.advance()
		return &Not{X: p.unary()}
	}
	if p.isP("![") {
		p.advance()
		ty := p.expr()
		p.expectP("]")
		return &Load{Ty: ty, X: p.app()}
	}
	return p.app()
}

func (p *parser) startsAtom() bool {
	t := p.peek()
	switch t.kind {
	case tString, tHashLit:
		return true
	case tIdent:
		switch t.text {
		case "in", "then", "else", "let", "only":
			return false
		}
		return true
	case tPunct:
		return t.text == "(" || t.text == "[" || t.text == "<>"
	}
	return false
}

func (p *parser) app() Expr {
	f := p.atom()
	var args []Expr
	for p.startsAtom() {
		args = append(args, p.atom())
	}
	if len(args) == 0 {
		return f
	}
	return &App{Fn: f, Args: args}
}

func (p *parser) atom() Expr {
	t := p.peek()
	switch t.kind {
	case tString:
		p.advance()
		return &Var{Name: t.text}
	case tHashLit:
		p.advance()
		return t.lit
	case tIdent:
		p.advance()
		return &Ident{Name: t.text}
	case tPunct:
		switch t.text {
		case "<>":
			p.advance()
			return &Var{Name: ""}
		case "[":
			return p.fieldList()
		case "(":
			p.advance()
			var e Expr
			switch {
			case p.isI("if") && p.toks[p.i+1].text == ":":
				p.advance()
				p.advance()
				c := p.expr()
				p.expectI("then")
				th := p.expr()
				p.expectI("else")
				el := p.expr()
				e = &If{Cond: c, Then: th, Else: el}
			case p.isI("for") && p.toks[p.i+1].text == ":":
				p.advance()
				p.advance()
				c := p.atom()
				p.expectP(";")
				post := p.atom()
				p.expectP(":=")
				body := p.expr()
				e = &For{Cond: c, Post: post, Body: body}
			default:
				e = p.expr()
				// tuples and type products / arrows
				if p.isP(",") {
					elems := []Expr{e}
					for p.isP(",") {
						p.advance()
						elems = append(elems, p.expr())
					}
					e = &Tuple{Elems: elems}
				} else if p.isP("->") {
					elems := []Expr{e}
					for p.isP("->") {
						p.advance()
						elems = append(elems, p.app())
					}
					e = &App{Fn: &Ident{Name: "arrow"}, Args: elems}
				}
			}
			p.expectP(")")
			if p.isP("%") {
				p.advance()
				sc := p.advance().text
				return &Scoped{X: e, Scope: sc}
			}
			return e
		}
	}
	p.fail("expression")
	return nil
}
