package gl

import (
	"fmt"
	"strings"

	"verif/engine"
)

// ---------------------------------------------------------------------------
// values

type Val interface{}

type VInt struct{ T *engine.Term } // width 64/32/8
type VBool struct{ T *engine.Term }
type VUnit struct{}
type VStr struct{ S engine.Str }
type VLoc struct {
	B   *Block
	Off int
}
type VPair struct{ A, B Val }
type VClo struct {
	Rec    string
	Params []string
	Body   Expr
	Env    *Env
	Name   string
}
type VSlice struct {
	B             *Block
	Off, Len, Cap int // in elements
	Elem          int // cells per element (set when known)
}
type VMap struct{ M *MapObj }
type VStruct struct {
	D *StructDesc
	F []Val
}
type VType struct{ T *Type }
type VDesc struct{ D *StructDesc }
type VBuiltin struct {
	Name string
	Args []Val
}
type VFields struct { // evaluated [ "f" ::= v; … ]
	Names []string
	Vals  []Val
}
type VLock struct{ L *LockObj }
type VOpaque struct{ Kind string }

type Block struct {
	ID    int
	Cells []Val
}

type MapObj struct {
	ID   int
	Keys []Val
	Vals []Val
	VT   *Type
}

type LockObj struct {
	ID      int
	Held    bool
	Waiters int
}

type StructDesc struct {
	Name   string
	Fields []string
	Types  []*Type
}

type Type struct {
	Kind string // u64 u32 u8 bool string unit ptr slice map struct func any array prod
	Elem *Type
	Desc *StructDesc
	Name string
}

func (t *Type) Size() int {
	if t.Kind == "struct" {
		n := 0
		for _, ft := range t.Desc.Types {
			n += ft.Size()
		}
		return n
	}
	return 1
}

func (t *Type) String() string {
	switch t.Kind {
	case "slice":
		return "slice.T " + t.Elem.String()
	case "struct":
		return "struct.t " + t.Desc.Name
	}
	return t.Kind
}

// Stuck is raised when GooseLang evaluation has no reduction (undefined behaviour).
type Stuck struct{ Msg string }

// Unknown is raised for constructs/identifiers this model does not cover (inconclusive).
type Unknown struct{ Msg string }

type Env struct {
	Name string
	V    Val
	Next *Env
}

func (e *Env) bind(name string, v Val) *Env {
	if name == "" {
		return e
	}
	return &Env{Name: name, V: v, Next: e}
}

func (e *Env) lookup(name string) (Val, bool) {
	for c := e; c != nil; c = c.Next {
		if c.Name == name {
			return c.V, true
		}
	}
	return nil, false
}

// Program is a loaded file: definitions in order.
type Program struct {
	File    *File
	Defs    map[string]*Decl
	Order   []string
	Structs map[string]*StructDesc
}

// Clone returns a copy whose lazily-filled tables are private (definitions are shared, read-only).
func (p *Program) Clone() *Program {
	return &Program{File: p.File, Defs: p.Defs, Order: p.Order, Structs: map[string]*StructDesc{}}
}

// Interp evaluates GooseLang over the engine's symbolic machine.
type Interp struct {
	M      *engine.Machine
	P      *Program
	steps  int
	Budget int
	nextID int
	globals map[string]Val
	Sched  *glSched
	timeouts int
}

func NewInterp(m *engine.Machine, p *Program) *Interp {
	return &Interp{M: m, P: p, Budget: 200000, globals: map[string]Val{}}
}

func (in *Interp) stuck(format string, a ...interface{}) {
	panic(&Stuck{Msg: fmt.Sprintf(format, a...)})
}

func (in *Interp) unknown(format string, a ...interface{}) {
	panic(&Unknown{Msg: fmt.Sprintf(format, a...)})
}

func (in *Interp) tick() {
	in.steps++
	if in.steps > in.Budget {
		in.M.End("unwind", "GooseLang evaluation budget exhausted")
	}
}

func (in *Interp) newBlock(n int) *Block {
	in.nextID++
	if n < 1 {
		n = 1
	}
	return &Block{ID: in.nextID, Cells: make([]Val, n)}
}

// ---------------------------------------------------------------------------
// types

var baseTypes = map[string]*Type{
	"uint64T": {Kind: "u64"}, "uint32T": {Kind: "u32"}, "byteT": {Kind: "u8"}, "boolT": {Kind: "bool"},
	"stringT": {Kind: "string"}, "unitT": {Kind: "unit"}, "ptrT": {Kind: "ptr"}, "anyT": {Kind: "any"},
	"fileT": {Kind: "any"}, "disk.blockT": {Kind: "slice", Elem: &Type{Kind: "u8"}}, "disk.Disk": {Kind: "any"},
	"ProphIdT": {Kind: "any"}, "lockRefT": {Kind: "ptr"}, "condvarRefT": {Kind: "ptr"},
}

func (in *Interp) zero(t *Type) Val {
	s := in.M.S
	switch t.Kind {
	case "u64":
		return VInt{s.Const(64, 0)}
	case "u32":
		return VInt{s.Const(32, 0)}
	case "u8":
		return VInt{s.Const(8, 0)}
	case "bool":
		return VBool{s.False}
	case "string":
		return VStr{}
	case "unit":
		return VUnit{}
	case "ptr", "func", "any":
		return VLoc{}
	case "slice":
		return VSlice{Elem: t.Elem.Size()}
	case "map":
		return VMap{}
	case "struct":
		v := VStruct{D: t.Desc, F: make([]Val, len(t.Desc.Fields))}
		for i, ft := range t.Desc.Types {
			v.F[i] = in.zero(ft)
		}
		return v
	}
	in.unknown("zero_val of type %s", t.Kind)
	return nil
}

// flatten lays a value of type t out over cells.
func (in *Interp) flatten(t *Type, v Val, out []Val) []Val {
	if t != nil && t.Kind == "struct" {
		sv, ok := v.(VStruct)
		if !ok {
			in.stuck("storing a non-struct value at type %s", t)
		}
		for i, ft := range t.Desc.Types {
			out = in.flatten(ft, sv.F[i], out)
		}
		return out
	}
	if sv, ok := v.(VStruct); ok && t == nil {
		for i, ft := range sv.D.Types {
			out = in.flatten(ft, sv.F[i], out)
		}
		return out
	}
	return append(out, v)
}

func (in *Interp) unflatten(t *Type, cells []Val) (Val, []Val) {
	if t.Kind == "struct" {
		v := VStruct{D: t.Desc, F: make([]Val, len(t.Desc.Fields))}
		for i, ft := range t.Desc.Types {
			v.F[i], cells = in.unflatten(ft, cells)
		}
		return v, cells
	}
	if len(cells) == 0 {
		in.stuck("load past the end of an allocation")
	}
	return cells[0], cells[1:]
}

func (in *Interp) alloc(t *Type, v Val) VLoc {
	cells := in.flatten(t, v, nil)
	b := in.newBlock(len(cells))
	copy(b.Cells, cells)
	if len(cells) == 0 {
		b.Cells[0] = VUnit{}
	}
	return VLoc{B: b}
}

func (in *Interp) loadTy(t *Type, l Val) Val {
	loc, ok := l.(VLoc)
	if !ok {
		in.stuck("load through a non-pointer value %s", show(l))
	}
	if loc.B == nil {
		in.stuck("load through null")
	}
	n := t.Size()
	if loc.Off < 0 || loc.Off+n > len(loc.B.Cells) {
		in.stuck("load out of bounds of its allocation")
	}
	in.Sched.access(in, loc.B, loc.Off, n, false)
	v, _ := in.unflatten(t, loc.B.Cells[loc.Off:loc.Off+n])
	if v == nil {
		in.stuck("load of an uninitialised cell")
	}
	in.checkType(t, v)
	return v
}

func (in *Interp) storeTy(t *Type, l Val, v Val) {
	loc, ok := l.(VLoc)
	if !ok {
		in.stuck("store through a non-pointer value %s", show(l))
	}
	if loc.B == nil {
		in.stuck("store through null")
	}
	cells := in.flatten(t, v, nil)
	if loc.Off < 0 || loc.Off+len(cells) > len(loc.B.Cells) {
		in.stuck("store out of bounds of its allocation")
	}
	in.Sched.access(in, loc.B, loc.Off, len(cells), true)
	copy(loc.B.Cells[loc.Off:], cells)
}

// checkType: a typed load of a scalar must find a value of that shape (untyped heap otherwise).
func (in *Interp) checkType(t *Type, v Val) {
	switch t.Kind {
	case "u64", "u32", "u8":
		iv, ok := v.(VInt)
		w := map[string]int{"u64": 64, "u32": 32, "u8": 8}[t.Kind]
		if !ok || iv.T.W != w {
			in.stuck("load at type %s finds %s", t.Kind, show(v))
		}
	case "bool":
		if _, ok := v.(VBool); !ok {
			in.stuck("load at type bool finds %s", show(v))
		}
	}
}

func (in *Interp) toType(v Val) *Type {
	switch x := v.(type) {
	case VType:
		return x.T
	case VDesc:
		return &Type{Kind: "struct", Desc: x.D}
	}
	in.unknown("expected a type, got %s", show(v))
	return nil
}

func (in *Interp) fieldOffset(d *StructDesc, f string) (int, *Type) {
	off := 0
	for i, name := range d.Fields {
		if name == f {
			return off, d.Types[i]
		}
		off += d.Types[i].Size()
	}
	in.stuck("struct %s has no field %q", d.Name, f)
	return 0, nil
}

func show(v Val) string {
	switch x := v.(type) {
	case nil:
		return "<nil>"
	case VInt:
		return fmt.Sprintf("#%s:u%d", x.T, x.T.W)
	case VBool:
		return "#" + x.T.String()
	case VUnit:
		return "#()"
	case VStr:
		return "#(str" + x.S.String() + ")"
	case VLoc:
		if x.B == nil {
			return "#null"
		}
		return fmt.Sprintf("loc(%d+%d)", x.B.ID, x.Off)
	case VPair:
		return "(" + show(x.A) + ", " + show(x.B) + ")"
	case VClo:
		return "<closure " + x.Name + ">"
	case VSlice:
		if x.B == nil {
			return "slice.nil"
		}
		return fmt.Sprintf("slice(%d+%d,len=%d,cap=%d)", x.B.ID, x.Off, x.Len, x.Cap)
	case VMap:
		if x.M == nil {
			return "nilmap"
		}
		return fmt.Sprintf("map#%d[%d]", x.M.ID, len(x.M.Keys))
	case VStruct:
		parts := make([]string, len(x.F))
		for i, f := range x.F {
			parts[i] = x.D.Fields[i] + "=" + show(f)
		}
		return x.D.Name + "{" + strings.Join(parts, ", ") + "}"
	case VType:
		return "type " + x.T.String()
	case VDesc:
		return "descriptor " + x.D.Name
	case VBuiltin:
		return "<" + x.Name + ">"
	}
	return fmt.Sprintf("%T", v)
}

// ---------------------------------------------------------------------------
// evaluation

// Global returns the value of a top-level definition.
func (in *Interp) Global(name string) (Val, bool) {
	if v, ok := in.globals[name]; ok {
		return v, true
	}
	d, ok := in.P.Defs[name]
	if !ok {
		return nil, false
	}
	var v Val
	switch d.Kind {
	case "structdecl":
		v = VDesc{in.structDesc(name)}
	case "tydef", "notation":
		v = in.Eval(d.Body, nil)
	default:
		body := d.Body
		if len(d.TypeParams) > 0 {
			tps := make([]string, len(d.TypeParams))
			for i, tp := range d.TypeParams {
				tps[i] = "\x00ty:" + tp
			}
			body = &Lam{Params: tps, Body: body}
		}
		if r, ok := body.(*Rec); ok {
			v = VClo{Rec: r.Name, Params: r.Params, Body: r.Body, Name: name}
		} else if l, ok := body.(*Lam); ok {
			v = VClo{Params: l.Params, Body: l.Body, Name: name}
		} else {
			// constants: re-evaluated at each use (they are expressions)
			return in.Eval(body, nil), true
		}
	}
	in.globals[name] = v
	return v, true
}

func (in *Interp) structDesc(name string) *StructDesc {
	if d, ok := in.P.Structs[name]; ok && d.Types != nil {
		return d
	}
	decl := in.P.Defs[name]
	if decl == nil || decl.Kind != "structdecl" {
		in.unknown("unknown struct descriptor %s", name)
	}
	d := in.P.Structs[name]
	if d == nil {
		d = &StructDesc{Name: name}
		in.P.Structs[name] = d
	}
	fl := decl.Body.(*FieldList)
	d.Fields = fl.Names
	d.Types = make([]*Type, len(fl.Names))
	for i, te := range fl.Vals {
		d.Types[i] = in.toType(in.Eval(te, nil))
	}
	return d
}

func (in *Interp) boolOf(v Val, what string) *engine.Term {
	b, ok := v.(VBool)
	if !ok {
		in.stuck("%s is not a boolean: %s", what, show(v))
	}
	return b.T
}

func (in *Interp) Eval(e Expr, env *Env) Val {
	in.tick()
	s := in.M.S
	switch x := e.(type) {
	case *Lit:
		switch x.Kind {
		case LInt:
			return VInt{s.Const(x.W, x.N)}
		case LBool:
			return VBool{s.Bool(x.N == 1)}
		case LUnit:
			return VUnit{}
		case LNull:
			return VLoc{}
		case LStr:
			return VStr{engine.ConcStr(x.S, s)}
		}
	case *Var:
		v, ok := env.lookup(x.Name)
		if !ok {
			in.stuck("unbound variable %q", x.Name)
		}
		return v
	case *Ident:
		if v, ok := env.lookup("\x00ty:" + x.Name); ok { // type parameter
			return v
		}
		return in.ident(x.Name)
	case *Scoped:
		return in.Eval(x.X, env)
	case *Tuple:
		vals := make([]Val, len(x.Elems))
		for i := len(x.Elems) - 1; i >= 0; i-- {
			vals[i] = in.Eval(x.Elems[i], env)
		}
		var r Val = vals[0]
		for _, v := range vals[1:] {
			r = VPair{r, v}
		}
		return r
	case *Let:
		rhs := in.Eval(x.Rhs, env)
		return in.Eval(x.Body, in.bindPat(x.Pat, rhs, env))
	case *Seq:
		in.Eval(x.A, env)
		return in.Eval(x.B, env)
	case *If:
		c := in.boolOf(in.Eval(x.Cond, env), "if condition")
		if in.M.Branch(c) {
			return in.Eval(x.Then, env)
		}
		return in.Eval(x.Else, env)
	case *Lam:
		return VClo{Params: x.Params, Body: x.Body, Env: env}
	case *Rec:
		return VClo{Rec: x.Name, Params: x.Params, Body: x.Body, Env: env}
	case *Not:
		switch v := in.Eval(x.X, env).(type) {
		case VBool:
			return VBool{s.Not(v.T)}
		case VInt:
			return VInt{s.Not(v.T)}
		default:
			in.stuck("~ applied to %s", show(v))
		}
	case *Load:
		t := in.toType(in.Eval(x.Ty, env))
		return in.loadTy(t, in.Eval(x.X, env))
	case *Store:
		t := in.toType(in.Eval(x.Ty, env))
		v := in.Eval(x.X, env)
		dst := in.Eval(x.Dst, env)
		in.storeTy(t, dst, v)
		return VUnit{}
	case *BinOp:
		return in.binop(x, env)
	case *For:
		cond, post, body := in.Eval(x.Cond, env), in.Eval(x.Post, env), in.Eval(x.Body, env)
		for {
			in.tick()
			c := in.boolOf(in.Apply(cond, []Val{VUnit{}}), "loop condition")
			if !in.M.Branch(c) {
				return VUnit{}
			}
			b := in.boolOf(in.Apply(body, []Val{VUnit{}}), "loop body result (Continue/Break)")
			if !in.M.Branch(b) {
				return VUnit{}
			}
			in.Apply(post, []Val{VUnit{}})
		}
	case *FieldList:
		fv := VFields{Names: x.Names, Vals: make([]Val, len(x.Vals))}
		for i := len(x.Vals) - 1; i >= 0; i-- {
			fv.Vals[i] = in.Eval(x.Vals[i], env)
		}
		return fv
	case *App:
		// field-name positions of the struct.* helpers are names, not variables
		if id, ok := x.Fn.(*Ident); ok {
			if v, done := in.special(id.Name, x.Args, env); done {
				return v
			}
		}
		args := make([]Val, len(x.Args))
		for i := len(x.Args) - 1; i >= 0; i-- {
			args[i] = in.Eval(x.Args[i], env)
		}
		f := in.Eval(x.Fn, env)
		return in.Apply(f, args)
	}
	in.unknown("expression form %T", e)
	return nil
}

func (in *Interp) bindPat(p *Pattern, v Val, env *Env) *Env {
	if len(p.Sub) == 0 {
		return env.bind(p.Name, v)
	}
	pr, ok := v.(VPair)
	if !ok {
		in.stuck("destructuring a non-pair value %s", show(v))
	}
	env = in.bindPat(p.Sub[0], pr.A, env)
	return in.bindPat(p.Sub[1], pr.B, env)
}

// Apply applies a function value to arguments (curried).
func (in *Interp) Apply(f Val, args []Val) Val {
	for len(args) > 0 {
		in.tick()
		switch fn := f.(type) {
		case VClo:
			n := len(fn.Params)
			if n == 0 {
				in.stuck("applying a function without parameters")
			}
			if len(args) < n {
				// partial application
				env := fn.Env
				if fn.Rec != "" {
					env = env.bind(fn.Rec, fn)
				}
				for i, a := range args {
					env = env.bind(fn.Params[i], a)
				}
				return VClo{Params: fn.Params[len(args):], Body: fn.Body, Env: env, Name: fn.Name}
			}
			env := fn.Env
			if fn.Rec != "" {
				env = env.bind(fn.Rec, fn)
			}
			for i := 0; i < n; i++ {
				env = env.bind(fn.Params[i], args[i])
			}
			f = in.Eval(fn.Body, env)
			args = args[n:]
		case VBuiltin:
			all := append(append([]Val{}, fn.Args...), args...)
			ar := builtinArity(fn.Name)
			if ar < 0 {
				in.unknown("library function %s is not modelled", fn.Name)
			}
			if len(all) < ar {
				return VBuiltin{Name: fn.Name, Args: all}
			}
			f = in.builtin(fn.Name, all[:ar])
			args = all[ar:]
		default:
			in.stuck("applying a non-function %s", show(f))
		}
	}
	return f
}

func (in *Interp) ident(name string) Val {
	if t, ok := baseTypes[name]; ok {
		return VType{t}
	}
	switch name {
	case "Continue":
		return VBool{in.M.S.True}
	case "Break":
		return VBool{in.M.S.False}
	case "Skip":
		return VUnit{}
	case "Linearize":
		return VUnit{}
	case "slice.nil":
		return VSlice{}
	case "null":
		return VLoc{}
	}
	if v, ok := in.Global(name); ok {
		return v
	}
	if builtinArity(name) >= 0 {
		return VBuiltin{Name: name}
	}
	in.unknown("identifier %s is neither defined in the file nor modelled", name)
	return nil
}

func (in *Interp) fieldName(e Expr) string {
	if v, ok := e.(*Var); ok {
		return v.Name
	}
	in.unknown("field name expected")
	return ""
}

// special handles applications whose arguments are not all ordinary expressions.
func (in *Interp) special(name string, args []Expr, env *Env) (Val, bool) {
	desc := func(e Expr) *StructDesc {
		id, ok := e.(*Ident)
		if !ok {
			in.unknown("struct descriptor expected")
		}
		return in.structDesc(id.Name)
	}
	switch name {
	case "struct.t":
		return VType{&Type{Kind: "struct", Desc: desc(args[0])}}, true
	case "slice.T":
		return VType{&Type{Kind: "slice", Elem: in.toType(in.Eval(args[0], env))}}, true
	case "mapT":
		return VType{&Type{Kind: "map", Elem: in.toType(in.Eval(args[0], env))}}, true
	case "arrayT":
		return VType{&Type{Kind: "array", Elem: in.toType(in.Eval(args[0], env))}}, true
	case "arrowT", "arrow":
		return VType{&Type{Kind: "func"}}, true
	case "struct.mk", "struct.new":
		d := desc(args[0])
		fv := in.Eval(args[1], env).(VFields)
		v := VStruct{D: d, F: make([]Val, len(d.Fields))}
		for i, ft := range d.Types {
			v.F[i] = in.zero(ft)
		}
		for k, fname := range fv.Names {
			found := false
			for i, n := range d.Fields {
				if n == fname {
					v.F[i] = fv.Vals[k]
					found = true
				}
			}
			if !found {
				in.stuck("struct %s has no field %q", d.Name, fname)
			}
		}
		var res Val = v
		if name == "struct.new" {
			res = in.alloc(&Type{Kind: "struct", Desc: d}, v)
		}
		return in.Apply(res, in.evalArgs(args[2:], env)), true
	case "struct.get":
		d := desc(args[0])
		f := in.fieldName(args[1])
		if len(args) == 2 { // partially applied: (struct.get I "m") x
			return VBuiltin{Name: "struct.get#", Args: []Val{VDesc{d}, VStr{engine.ConcStr(f, in.M.S)}}}, true
		}
		sv, ok := in.Eval(args[2], env).(VStruct)
		if !ok {
			in.stuck("struct.get on a non-struct value")
		}
		for i, n := range d.Fields {
			if n == f {
				return in.Apply(sv.F[i], in.evalArgs(args[3:], env)), true
			}
		}
		in.stuck("struct %s has no field %q", d.Name, f)
	case "struct.loadF":
		d := desc(args[0])
		off, ft := in.fieldOffset(d, in.fieldName(args[1]))
		l, ok := in.Eval(args[2], env).(VLoc)
		if !ok {
			in.stuck("struct.loadF through a non-pointer")
		}
		return in.Apply(in.loadTy(ft, VLoc{B: l.B, Off: l.Off + off}), in.evalArgs(args[3:], env)), true
	case "struct.storeF":
		d := desc(args[0])
		off, ft := in.fieldOffset(d, in.fieldName(args[1]))
		v := in.Eval(args[3], env)
		l, ok := in.Eval(args[2], env).(VLoc)
		if !ok {
			in.stuck("struct.storeF through a non-pointer")
		}
		in.storeTy(ft, VLoc{B: l.B, Off: l.Off + off}, v)
		return VUnit{}, true
	case "struct.fieldRef":
		d := desc(args[0])
		off, _ := in.fieldOffset(d, in.fieldName(args[1]))
		l, ok := in.Eval(args[2], env).(VLoc)
		if !ok {
			in.stuck("struct.fieldRef of a non-pointer")
		}
		if l.B == nil {
			in.stuck("struct.fieldRef of null")
		}
		return VLoc{B: l.B, Off: l.Off + off}, true
	case "struct.load":
		d := desc(args[0])
		return in.loadTy(&Type{Kind: "struct", Desc: d}, in.Eval(args[1], env)), true
	case "struct.store":
		d := desc(args[0])
		v := in.Eval(args[2], env)
		in.storeTy(&Type{Kind: "struct", Desc: d}, in.Eval(args[1], env), v)
		return VUnit{}, true
	case "struct.alloc":
		d := desc(args[0])
		return in.alloc(&Type{Kind: "struct", Desc: d}, in.Eval(args[1], env)), true
	case "Panic":
		in.stuck("Panic %s", in.fieldName(args[0]))
	case "ForSlice":
		// ForSlice t "k" "v" s body
		t := in.toType(in.Eval(args[0], env))
		kn, vn := in.fieldName(args[1]), in.fieldName(args[2])
		sl, ok := in.Eval(args[3], env).(VSlice)
		if !ok {
			in.stuck("ForSlice over a non-slice")
		}
		for i := 0; i < sl.Len; i++ {
			in.tick()
			el := in.loadTy(t, VLoc{B: sl.B, Off: (sl.Off + i) * t.Size()})
			e2 := env.bind(kn, VInt{in.M.S.Const(64, uint64(i))}).bind(vn, el)
			in.Eval(args[4], e2)
		}
		return VUnit{}, true
	case "Fork":
		in.fork(args[0], env)
		return VUnit{}, true
	}
	return nil, false
}

func (in *Interp) evalArgs(es []Expr, env *Env) []Val {
	out := make([]Val, len(es))
	for i := len(es) - 1; i >= 0; i-- {
		out[i] = in.Eval(es[i], env)
	}
	return out
}

func (in *Interp) binop(x *BinOp, env *Env) Val {
	s := in.M.S
	if x.Op == "&&" || x.Op == "||" {
		l := in.boolOf(in.Eval(x.X, env), "operand of "+x.Op)
		if x.Op == "&&" {
			if !in.M.Branch(l) {
				return VBool{s.False}
			}
		} else if in.M.Branch(l) {
			return VBool{s.True}
		}
		return VBool{in.boolOf(in.Eval(x.Y, env), "operand of "+x.Op)}
	}
	r := in.Eval(x.Y, env)
	l := in.Eval(x.X, env)
	switch x.Op {
	case "=", "≠":
		eq := in.valEq(l, r)
		if x.Op == "≠" {
			eq = s.Not(eq)
		}
		return VBool{eq}
	case "*":
		if _, ok := l.(VType); ok { // product type
			return VType{&Type{Kind: "prod"}}
		}
	}
	if ls, ok := l.(VStr); ok && x.Op == "+" {
		rs, ok := r.(VStr)
		if !ok {
			in.stuck("string + non-string")
		}
		return VStr{engine.Str{B: append(append([]*engine.Term{}, ls.S.B...), rs.S.B...)}}
	}
	if _, isStr := l.(VStr); isStr {
		if _, both := r.(VStr); both {
			in.unknown("operator %s on strings is not part of the modelled GooseLang", x.Op)
		}
	}
	a, ok1 := l.(VInt)
	b, ok2 := r.(VInt)
	if !ok1 || !ok2 {
		in.stuck("operator %s on %s and %s", x.Op, show(l), show(r))
	}
	if x.Op == "≪" || x.Op == "≫" {
		amt := b.T
		var big *engine.Term = s.False
		if amt.W > a.T.W {
			big = s.Not(s.ULt(amt, s.Const(amt.W, uint64(a.T.W))))
			amt = s.Extract(amt, a.T.W-1, 0)
		} else {
			amt = s.ZExt(amt, a.T.W)
		}
		var res *engine.Term
		if x.Op == "≪" {
			res = s.Shl(a.T, amt)
		} else {
			res = s.LShr(a.T, amt)
		}
		return VInt{s.Ite(big, s.Const(a.T.W, 0), res)}
	}
	if a.T.W != b.T.W {
		in.stuck("operator %s on integers of different widths (u%d, u%d)", x.Op, a.T.W, b.T.W)
	}
	switch x.Op {
	case "+":
		return VInt{s.Add(a.T, b.T)}
	case "-":
		return VInt{s.Sub(a.T, b.T)}
	case "*":
		return VInt{s.Mul(a.T, b.T)}
	case "quot", "rem":
		z := s.Eq(b.T, s.Const(b.T.W, 0))
		if in.M.Branch(z) {
			in.stuck("division by zero")
		}
		if x.Op == "quot" {
			return VInt{s.UDiv(a.T, b.T)}
		}
		return VInt{s.URem(a.T, b.T)}
	case "and":
		return VInt{s.And(a.T, b.T)}
	case "or":
		return VInt{s.Or(a.T, b.T)}
	case "xor":
		return VInt{s.Xor(a.T, b.T)}
	case "<":
		return VBool{s.ULt(a.T, b.T)}
	case ">":
		return VBool{s.ULt(b.T, a.T)}
	case "≤":
		return VBool{s.ULe(a.T, b.T)}
	case "≥":
		return VBool{s.ULe(b.T, a.T)}
	}
	in.unknown("binary operator %s", x.Op)
	return nil
}

func (in *Interp) valEq(l, r Val) *engine.Term {
	s := in.M.S
	switch a := l.(type) {
	case VInt:
		b, ok := r.(VInt)
		if !ok || a.T.W != b.T.W {
			return s.False
		}
		return s.Eq(a.T, b.T)
	case VBool:
		b, ok := r.(VBool)
		if !ok {
			return s.False
		}
		return s.Eq(a.T, b.T)
	case VUnit:
		_, ok := r.(VUnit)
		return s.Bool(ok)
	case VStr:
		b, ok := r.(VStr)
		if !ok {
			return s.False
		}
		if len(a.S.B) != len(b.S.B) {
			return s.False
		}
		cs := make([]*engine.Term, len(a.S.B))
		for i := range cs {
			cs[i] = s.Eq(a.S.B[i], b.S.B[i])
		}
		return s.BAndAll(cs)
	case VLoc:
		switch b := r.(type) {
		case VLoc:
			return s.Bool(a.B == b.B && (a.B == nil || a.Off == b.Off))
		case VSlice:
			return s.Bool(a.B == nil && b.B == nil)
		case VMap:
			return s.Bool(a.B == nil && b.M == nil)
		}
	case VSlice:
		switch b := r.(type) {
		case VSlice:
			if a.B == nil || b.B == nil {
				return s.Bool(a.B == nil && b.B == nil)
			}
			return s.Bool(a.B == b.B && a.Off == b.Off && a.Len == b.Len && a.Cap == b.Cap)
		case VLoc:
			return s.Bool(a.B == nil && b.B == nil)
		}
	case VMap:
		switch b := r.(type) {
		case VMap:
			return s.Bool(a.M == b.M)
		case VLoc:
			return s.Bool(a.M == nil && b.B == nil)
		}
	case VPair:
		b, ok := r.(VPair)
		if ok {
			return s.BAnd(in.valEq(a.A, b.A), in.valEq(a.B, b.B))
		}
	case VStruct:
		b, ok := r.(VStruct)
		if ok && a.D == b.D {
			cs := make([]*engine.Term, len(a.F))
			for i := range a.F {
				cs[i] = in.valEq(a.F[i], b.F[i])
			}
			return s.BAndAll(cs)
		}
	}
	// values of different shapes are simply different (the Coq interpreter's behaviour on the shipped tests)
	return s.False
}
