package gl

import (
	"verif/engine"
)

// Library functions get their intended meaning: the Go behaviour they are verified
// against in Perennial (trusted table, DESIGN Appendix B).

var arities = map[string]int{
	"ref_to": 2, "ref": 1, "zero_val": 1, "zero_array": 2,
	"slice.len": 1, "slice.cap": 1, "NewSlice": 2, "NewSliceWithCap": 3, "SliceSingleton": 1,
	"SliceGet": 3, "SliceSet": 4, "SliceRef": 3, "SliceSkip": 3, "SliceTake": 2, "SliceSubslice": 4,
	"SliceAppend": 3, "SliceAppendSlice": 3, "SliceCopy": 3,
	"NewMap": 3, "MapGet": 2, "MapInsert": 3, "MapDelete": 2, "MapLen": 1, "MapIter": 2, "MapClear": 1,
	"StringLength": 1, "StringToBytes": 1, "StringFromBytes": 1, "uint64_to_string": 1,
	"UInt64Put": 2, "UInt64Get": 1, "UInt32Put": 2, "UInt32Get": 1,
	"to_u64": 1, "to_u32": 1, "to_u8": 1,
	"control.impl.Assume": 1, "control.impl.Assert": 1, "control.impl.Exit": 1,
	"Fst": 1, "Snd": 1,
	"rand.RandomUint64": 1, "time.TimeNow": 1, "time.Sleep": 1,
	"lock.new": 1, "lock.acquire": 1, "lock.release": 1, "lock.newCond": 1, "lock.condWait": 1,
	"lock.condSignal": 1, "lock.condBroadcast": 1, "lock.condWaitTimeout": 2,
	"waitgroup.New": 1, "waitgroup.Add": 2, "waitgroup.Done": 1, "waitgroup.Wait": 1,
	"util.DPrintf": 3, "struct.get#": 3,
}

func builtinArity(name string) int {
	if n, ok := arities[name]; ok {
		return n
	}
	return -1
}

// KnownIdent reports whether name is part of the modelled prelude (types, constants, library).
func KnownIdent(name string) bool {
	if _, ok := baseTypes[name]; ok {
		return true
	}
	if _, ok := arities[name]; ok {
		return true
	}
	switch name {
	case "Continue", "Break", "Skip", "Linearize", "slice.nil", "null", "struct.t", "slice.T", "mapT", "arrayT", "arrowT", "arrow",
		"struct.mk", "struct.new", "struct.get", "struct.loadF", "struct.storeF", "struct.fieldRef", "struct.load", "struct.store",
		"struct.alloc", "struct.decl", "Panic", "ForSlice", "Fork", "MapIter", "ty", "val", "expr":
		return true
	}
	return false
}

func (in *Interp) intOf(v Val, w int, what string) *engine.Term {
	iv, ok := v.(VInt)
	if !ok || (w != 0 && iv.T.W != w) {
		in.stuck("%s: expected u%d, got %s", what, w, show(v))
	}
	return iv.T
}

// indexOf checks i < n and concretises it.
func (in *Interp) indexOf(v Val, n int, what string) int {
	t := in.intOf(v, 64, what)
	s := in.M.S
	if !in.M.Branch(s.ULt(t, s.Const(64, uint64(n)))) {
		in.stuck("%s: index out of bounds (length %d)", what, n)
	}
	return int(in.M.Concretize(t, what))
}

// lenOf checks n ≤ max and concretises it.
func (in *Interp) lenOf(v Val, max int, what string) int {
	t := in.intOf(v, 64, what)
	s := in.M.S
	if !in.M.Branch(s.ULe(t, s.Const(64, uint64(max)))) {
		in.stuck("%s: %s out of range (max %d)", what, t, max)
	}
	return int(in.M.Concretize(t, what))
}

func (in *Interp) sliceOf(v Val, what string) VSlice {
	sl, ok := v.(VSlice)
	if !ok {
		in.stuck("%s: expected a slice, got %s", what, show(v))
	}
	return sl
}

func (in *Interp) elemLoc(sl VSlice, t *Type, i int) VLoc {
	return VLoc{B: sl.B, Off: (sl.Off + i) * t.Size()}
}

func (in *Interp) newSlice(t *Type, n, c int) VSlice {
	sz := t.Size()
	b := in.newBlock(c * sz)
	z := in.zero(t)
	for i := 0; i < c; i++ {
		cells := in.flatten(t, z, nil)
		copy(b.Cells[i*sz:], cells)
	}
	return VSlice{B: b, Off: 0, Len: n, Cap: c, Elem: sz}
}

func (in *Interp) sliceVals(sl VSlice, t *Type) []Val {
	out := make([]Val, sl.Len)
	for i := range out {
		out[i] = in.loadTy(t, in.elemLoc(sl, t, i))
	}
	return out
}

func (in *Interp) mapOf(v Val, what string) *MapObj {
	mv, ok := v.(VMap)
	if !ok {
		in.stuck("%s: expected a map, got %s", what, show(v))
	}
	return mv.M
}

func (in *Interp) findKey(mo *MapObj, k Val) int {
	if mo == nil {
		return -1
	}
	for i, mk := range mo.Keys {
		c := in.valEq(mk, k)
		if c.IsConst() {
			if c.IsTrue() {
				return i
			}
			continue
		}
		if in.M.Branch(c) {
			return i
		}
	}
	return -1
}

const maxLen = 1 << 20

func (in *Interp) builtin(name string, a []Val) Val {
	s := in.M.S
	u64 := func(n int) Val { return VInt{s.Const(64, uint64(n))} }
	switch name {
	case "ref_to":
		return in.alloc(in.toType(a[0]), a[1])
	case "ref":
		return in.alloc(nil, a[0])
	case "zero_val":
		return in.zero(in.toType(a[0]))
	case "zero_array":
		t := in.toType(a[0])
		n := in.lenOf(a[1], maxLen, "zero_array")
		sl := in.newSlice(t, n, n)
		return VLoc{B: sl.B}
	case "slice.len":
		return u64(in.sliceOf(a[0], name).Len)
	case "slice.cap":
		return u64(in.sliceOf(a[0], name).Cap)
	case "NewSlice":
		t := in.toType(a[0])
		n := in.lenOf(a[1], maxLen, name)
		return in.newSlice(t, n, n)
	case "NewSliceWithCap":
		t := in.toType(a[0])
		c := in.lenOf(a[2], maxLen, name)
		n := in.lenOf(a[1], c, name)
		return in.newSlice(t, n, c)
	case "SliceSingleton":
		b := in.newBlock(1)
		cells := in.flatten(nil, a[0], nil)
		b.Cells = cells
		return VSlice{B: b, Len: 1, Cap: 1, Elem: len(cells)}
	case "SliceGet":
		t := in.toType(a[0])
		sl := in.sliceOf(a[1], name)
		i := in.indexOf(a[2], sl.Len, name)
		return in.loadTy(t, in.elemLoc(sl, t, i))
	case "SliceSet":
		t := in.toType(a[0])
		sl := in.sliceOf(a[1], name)
		i := in.indexOf(a[2], sl.Len, name)
		in.storeTy(t, in.elemLoc(sl, t, i), a[3])
		return VUnit{}
	case "SliceRef":
		t := in.toType(a[0])
		sl := in.sliceOf(a[1], name)
		i := in.indexOf(a[2], sl.Len, name)
		return in.elemLoc(sl, t, i)
	case "SliceSkip":
		sl := in.sliceOf(a[1], name)
		n := in.lenOf(a[2], sl.Len, name)
		if sl.B == nil {
			return sl
		}
		return VSlice{B: sl.B, Off: sl.Off + n, Len: sl.Len - n, Cap: sl.Cap - n, Elem: sl.Elem}
	case "SliceTake":
		sl := in.sliceOf(a[0], name)
		n := in.lenOf(a[1], sl.Cap, name)
		if sl.B == nil {
			return sl
		}
		return VSlice{B: sl.B, Off: sl.Off, Len: n, Cap: sl.Cap, Elem: sl.Elem}
	case "SliceSubslice":
		sl := in.sliceOf(a[1], name)
		hi := in.lenOf(a[3], sl.Cap, name)
		lo := in.lenOf(a[2], hi, name)
		if sl.B == nil {
			return sl
		}
		return VSlice{B: sl.B, Off: sl.Off + lo, Len: hi - lo, Cap: sl.Cap - lo, Elem: sl.Elem}
	case "SliceAppend":
		t := in.toType(a[0])
		sl := in.sliceOf(a[1], name)
		return in.appendVals(t, sl, []Val{a[2]})
	case "SliceAppendSlice":
		t := in.toType(a[0])
		sl := in.sliceOf(a[1], name)
		return in.appendVals(t, sl, in.sliceVals(in.sliceOf(a[2], name), t))
	case "SliceCopy":
		t := in.toType(a[0])
		dst, src := in.sliceOf(a[1], name), in.sliceOf(a[2], name)
		n := dst.Len
		if src.Len < n {
			n = src.Len
		}
		vals := in.sliceVals(VSlice{B: src.B, Off: src.Off, Len: n, Cap: n}, t)
		for i, v := range vals {
			in.storeTy(t, in.elemLoc(dst, t, i), v)
		}
		return u64(n)
	case "NewMap":
		in.nextID++
		return VMap{&MapObj{ID: in.nextID, VT: in.toType(a[1])}}
	case "MapGet":
		mo := in.mapOf(a[0], name)
		i := in.findKey(mo, a[1])
		if i < 0 {
			if mo == nil {
				in.unknown("MapGet on a nil map")
			}
			return VPair{in.zero(mo.VT), VBool{s.False}}
		}
		return VPair{mo.Vals[i], VBool{s.True}}
	case "MapInsert":
		mo := in.mapOf(a[0], name)
		if mo == nil {
			in.stuck("MapInsert into a nil map")
		}
		if i := in.findKey(mo, a[1]); i >= 0 {
			mo.Vals[i] = a[2]
		} else {
			mo.Keys = append(mo.Keys, a[1])
			mo.Vals = append(mo.Vals, a[2])
		}
		return VUnit{}
	case "MapDelete":
		mo := in.mapOf(a[0], name)
		if i := in.findKey(mo, a[1]); i >= 0 {
			mo.Keys = append(append([]Val{}, mo.Keys[:i]...), mo.Keys[i+1:]...)
			mo.Vals = append(append([]Val{}, mo.Vals[:i]...), mo.Vals[i+1:]...)
		}
		return VUnit{}
	case "MapLen":
		mo := in.mapOf(a[0], name)
		if mo == nil {
			return u64(0)
		}
		return u64(len(mo.Keys))
	case "MapClear":
		mo := in.mapOf(a[0], name)
		if mo != nil {
			mo.Keys, mo.Vals = nil, nil
		}
		return VUnit{}
	case "MapIter":
		mo := in.mapOf(a[0], name)
		if mo == nil {
			return VUnit{}
		}
		// iteration order is unspecified; the generators only emit order-insensitive bodies
		keys := append([]Val{}, mo.Keys...)
		for _, k := range keys {
			if i := in.findKeyExact(mo, k); i >= 0 {
				in.Apply(a[1], []Val{k, mo.Vals[i]})
			}
		}
		return VUnit{}
	case "StringLength":
		st, ok := a[0].(VStr)
		if !ok {
			in.stuck("StringLength of a non-string")
		}
		return u64(len(st.S.B))
	case "StringToBytes":
		st, ok := a[0].(VStr)
		if !ok {
			in.stuck("StringToBytes of a non-string")
		}
		b := in.newBlock(len(st.S.B))
		for i, t := range st.S.B {
			b.Cells[i] = VInt{t}
		}
		return VSlice{B: b, Len: len(st.S.B), Cap: len(st.S.B), Elem: 1}
	case "StringFromBytes":
		sl := in.sliceOf(a[0], name)
		var bs []*engine.Term
		for _, v := range in.sliceVals(sl, baseTypes["byteT"]) {
			bs = append(bs, in.intOf(v, 8, name))
		}
		return VStr{engine.Str{B: bs}}
	case "uint64_to_string":
		return VStr{in.M.FormatUint(in.intOf(a[0], 64, name))}
	case "UInt64Put", "UInt32Put":
		w := 8
		if name == "UInt32Put" {
			w = 4
		}
		sl := in.sliceOf(a[0], name)
		if sl.Len < w {
			in.stuck("%s on a slice shorter than %d bytes", name, w)
		}
		v := in.intOf(a[1], w*8, name)
		for i := 0; i < w; i++ {
			in.storeTy(baseTypes["byteT"], in.elemLoc(sl, baseTypes["byteT"], i), VInt{s.Extract(v, 8*i+7, 8*i)})
		}
		return VUnit{}
	case "UInt64Get", "UInt32Get":
		w := 8
		if name == "UInt32Get" {
			w = 4
		}
		sl := in.sliceOf(a[0], name)
		if sl.Len < w {
			in.stuck("%s on a slice shorter than %d bytes", name, w)
		}
		var r *engine.Term
		for i := w - 1; i >= 0; i-- {
			b := in.intOf(in.loadTy(baseTypes["byteT"], in.elemLoc(sl, baseTypes["byteT"], i)), 8, name)
			if r == nil {
				r = b
			} else {
				r = s.Concat(r, b)
			}
		}
		return VInt{r}
	case "to_u64":
		return VInt{s.ZExt(in.intOf(a[0], 0, name), 64)}
	case "to_u32":
		return VInt{s.ZExt(in.intOf(a[0], 0, name), 32)}
	case "to_u8":
		return VInt{s.ZExt(in.intOf(a[0], 0, name), 8)}
	case "control.impl.Assume":
		c := in.boolOf(a[0], name)
		if !in.M.Branch(c) {
			in.M.End("assume", "GooseLang Assume diverges")
		}
		return VUnit{}
	case "control.impl.Assert":
		c := in.boolOf(a[0], name)
		if !in.M.Branch(c) {
			in.stuck("Assert #false")
		}
		return VUnit{}
	case "control.impl.Exit":
		in.M.End("assume", "Exit")
		return VUnit{}
	case "struct.get#":
		d := a[0].(VDesc).D
		f, _ := a[1].(VStr).S.Concrete()
		sv, ok := a[2].(VStruct)
		if !ok {
			in.stuck("struct.get on a non-struct value")
		}
		for i, n := range d.Fields {
			if n == f && i < len(sv.F) {
				return sv.F[i]
			}
		}
		in.stuck("struct %s has no field %q", d.Name, f)
	case "Fst":
		p, ok := a[0].(VPair)
		if !ok {
			in.stuck("Fst of a non-pair")
		}
		return p.A
	case "Snd":
		p, ok := a[0].(VPair)
		if !ok {
			in.stuck("Snd of a non-pair")
		}
		return p.B
	case "rand.RandomUint64":
		return VInt{in.M.Nondet("glrand", 64)}
	case "time.TimeNow":
		return VInt{in.M.Nondet("glnow", 64)}
	case "time.Sleep", "util.DPrintf":
		return VUnit{}
	}
	if v, ok := in.syncBuiltin(name, a); ok {
		return v
	}
	in.unknown("library function %s is not modelled", name)
	return nil
}

// findKeyExact: identity of stored keys (used while iterating).
func (in *Interp) findKeyExact(mo *MapObj, k Val) int {
	for i, mk := range mo.Keys {
		c := in.valEq(mk, k)
		if c.IsTrue() {
			return i
		}
	}
	return -1
}

func (in *Interp) appendVals(t *Type, sl VSlice, add []Val) Val {
	sz := t.Size()
	if sl.B != nil && sl.Len+len(add) <= sl.Cap {
		for i, v := range add {
			in.storeTy(t, VLoc{B: sl.B, Off: (sl.Off + sl.Len + i) * sz}, v)
		}
		return VSlice{B: sl.B, Off: sl.Off, Len: sl.Len + len(add), Cap: sl.Cap, Elem: sz}
	}
	old := in.sliceVals(sl, t)
	nc := sl.Cap * 2
	if nc < sl.Len+len(add) {
		nc = sl.Len + len(add)
	}
	ns := in.newSlice(t, sl.Len+len(add), nc)
	for i, v := range append(old, add...) {
		in.storeTy(t, in.elemLoc(ns, t, i), v)
	}
	return ns
}

// Exported helpers for the translation-validation driver.
func Show(v Val) string { return show(v) }

func (in *Interp) StructDescByName(name string) *StructDesc { return in.structDesc(name) }
func (in *Interp) NewSliceVal(t *Type, n, c int) VSlice       { return in.newSlice(t, n, c) }
func (in *Interp) SliceStore(sl VSlice, t *Type, i int, v Val) {
	in.storeTy(t, in.elemLoc(sl, t, i), v)
}
func (in *Interp) SliceLoad(sl VSlice, t *Type, i int) Val { return in.loadTy(t, in.elemLoc(sl, t, i)) }
func (in *Interp) AllocVal(t *Type, v Val) VLoc            { return in.alloc(t, v) }
func (in *Interp) LoadVal(t *Type, l VLoc) Val             { return in.loadTy(t, l) }
func (in *Interp) NewMapVal(vt *Type) VMap {
	in.nextID++
	return VMap{&MapObj{ID: in.nextID, VT: vt}}
}
