package gl

import "fmt"

// Issue is a finding of the loader.
type Issue struct {
	Kind string // "duplicate", "use-before-def", "unknown-ident", "global-self-ref"
	Name string
	In   string
	Line int
}

func (i Issue) String() string {
	return fmt.Sprintf("%s: %s in %s (line %d)", i.Kind, i.Name, i.In, i.Line)
}

// LoadFile processes the file top to bottom like Coq: a Gallina identifier must be bound by an
// earlier definition or by the prelude; a second definition of a name is an error.
func LoadFile(f *File) (*Program, []Issue) {
	p := &Program{File: f, Defs: map[string]*Decl{}, Structs: map[string]*StructDesc{}}
	var issues []Issue
	all := map[string]bool{}
	for _, d := range f.Decls {
		if d.Kind == "other" || d.Name == "" {
			continue
		}
		all[d.Name] = true
	}
	for _, d := range f.Decls {
		if d.Kind == "other" || d.Name == "" {
			continue
		}
		if _, dup := p.Defs[d.Name]; dup {
			issues = append(issues, Issue{Kind: "duplicate", Name: d.Name, In: d.Name, Line: d.Line})
			continue
		}
		bound := map[string]bool{}
		for _, tp := range d.TypeParams {
			bound[tp] = true
		}
		seen := map[string]bool{}
		walkIdents(d.Body, func(name string) {
			if seen[name] || bound[name] {
				return
			}
			seen[name] = true
			if _, ok := p.Defs[name]; ok {
				return
			}
			if KnownIdent(name) {
				return
			}
			if name == d.Name {
				// a function mentioning its own global name instead of its rec binder
				issues = append(issues, Issue{Kind: "global-self-ref", Name: name, In: d.Name, Line: d.Line})
				return
			}
			if all[name] {
				issues = append(issues, Issue{Kind: "use-before-def", Name: name, In: d.Name, Line: d.Line})
				return
			}
			issues = append(issues, Issue{Kind: "unknown-ident", Name: name, In: d.Name, Line: d.Line})
		})
		p.Defs[d.Name] = d
		p.Order = append(p.Order, d.Name)
	}
	return p, issues
}

// WalkIdents calls f for every Gallina identifier occurring in e.
func WalkIdents(e Expr, f func(string)) { walkIdents(e, f) }

func walkIdents(e Expr, f func(string)) {
	switch x := e.(type) {
	case nil:
	case *Ident:
		f(x.Name)
	case *App:
		walkIdents(x.Fn, f)
		for _, a := range x.Args {
			walkIdents(a, f)
		}
	case *Tuple:
		for _, a := range x.Elems {
			walkIdents(a, f)
		}
	case *Let:
		walkIdents(x.Rhs, f)
		walkIdents(x.Body, f)
	case *Seq:
		walkIdents(x.A, f)
		walkIdents(x.B, f)
	case *If:
		walkIdents(x.Cond, f)
		walkIdents(x.Then, f)
		walkIdents(x.Else, f)
	case *Lam:
		walkIdents(x.Body, f)
	case *Rec:
		walkIdents(x.Body, f)
	case *BinOp:
		walkIdents(x.X, f)
		walkIdents(x.Y, f)
	case *Not:
		walkIdents(x.X, f)
	case *Load:
		walkIdents(x.Ty, f)
		walkIdents(x.X, f)
	case *Store:
		walkIdents(x.Ty, f)
		walkIdents(x.Dst, f)
		walkIdents(x.X, f)
	case *For:
		walkIdents(x.Cond, f)
		walkIdents(x.Post, f)
		walkIdents(x.Body, f)
	case *FieldList:
		for _, v := range x.Vals {
			walkIdents(v, f)
		}
	case *Scoped:
		walkIdents(x.X, f)
	}
}

// Qualify renames every definition of f to prefix+"."+name and rewrites the references to those
// definitions inside f (used to load an imported package next to the package under validation:
// goose prints a reference to X of package dep as dep.X).
func Qualify(f *File, prefix string) {
	ren := map[string]string{}
	for _, d := range f.Decls {
		if d.Kind == "other" || d.Name == "" {
			continue
		}
		ren[d.Name] = prefix + "." + d.Name
	}
	for _, d := range f.Decls {
		if d.Kind == "other" || d.Name == "" {
			continue
		}
		bound := map[string]bool{}
		for _, tp := range d.TypeParams {
			bound[tp] = true
		}
		renameIdents(d.Body, ren, bound)
		d.Name = ren[d.Name]
	}
}

func renameIdents(e Expr, ren map[string]string, bound map[string]bool) {
	r := func(x Expr) { renameIdents(x, ren, bound) }
	switch x := e.(type) {
	case nil:
	case *Ident:
		if n, ok := ren[x.Name]; ok && !bound[x.Name] {
			x.Name = n
		}
	case *App:
		r(x.Fn)
		for _, a := range x.Args {
			r(a)
		}
	case *Tuple:
		for _, a := range x.Elems {
			r(a)
		}
	case *Let:
		r(x.Rhs)
		r(x.Body)
	case *Seq:
		r(x.A)
		r(x.B)
	case *If:
		r(x.Cond)
		r(x.Then)
		r(x.Else)
	case *Lam:
		r(x.Body)
	case *Rec:
		r(x.Body)
	case *BinOp:
		r(x.X)
		r(x.Y)
	case *Not:
		r(x.X)
	case *Load:
		r(x.Ty)
		r(x.X)
	case *Store:
		r(x.Ty)
		r(x.Dst)
		r(x.X)
	case *For:
		r(x.Cond)
		r(x.Post)
		r(x.Body)
	case *FieldList:
		for _, v := range x.Vals {
			r(v)
		}
	case *Scoped:
		r(x.X)
	}
}
