package gl

// Concurrency of GooseLang (C03): Fork, locks, condition variables and wait groups run on the
// engine's cooperative scheduler; the primitives get the meaning of the Go primitives they model.

type glSched struct{}

func (s *glSched) access(in *Interp, b *Block, off, n int, write bool) {}

type VCond struct{ C *CondObj }
type VWaitGroup struct{ W *WGObj }

type CondObj struct {
	L       *LockObj
	waiters []*condWaiter
}
type condWaiter struct{ woken bool }
type WGObj struct{ n int64 }

func (in *Interp) fork(body Expr, env *Env) {
	in.M.Spawn(func() { in.Eval(body, env) })
}

func (in *Interp) acquire(l *LockObj) {
	in.M.Yield(func() bool { return !l.Held }, "lock.acquire")
	l.Held = true
}

func (in *Interp) release(l *LockObj) {
	if !l.Held {
		in.stuck("lock.release of a free lock")
	}
	l.Held = false
}

func (in *Interp) syncBuiltin(name string, a []Val) (Val, bool) {
	lockOf := func(v Val) *LockObj {
		l, ok := v.(VLock)
		if !ok {
			in.stuck("%s of a non-lock %s", name, show(v))
		}
		return l.L
	}
	condOf := func(v Val) *CondObj {
		c, ok := v.(VCond)
		if !ok {
			in.stuck("%s of a non-condition-variable %s", name, show(v))
		}
		return c.C
	}
	wgOf := func(v Val) *WGObj {
		w, ok := v.(VWaitGroup)
		if !ok {
			in.stuck("%s of a non-waitgroup %s", name, show(v))
		}
		return w.W
	}
	switch name {
	case "lock.new":
		in.nextID++
		return VLock{&LockObj{ID: in.nextID}}, true
	case "lock.acquire":
		in.acquire(lockOf(a[0]))
		return VUnit{}, true
	case "lock.release":
		in.release(lockOf(a[0]))
		return VUnit{}, true
	case "lock.newCond":
		return VCond{&CondObj{L: lockOf(a[0])}}, true
	case "lock.condWait", "lock.condWaitTimeout":
		c := condOf(a[0])
		w := &condWaiter{}
		c.waiters = append(c.waiters, w)
		in.release(c.L)
		if name == "lock.condWaitTimeout" && in.timeouts < 3 {
			// may return at any moment (timeout), or when woken; the number of timeouts per run is bounded
			in.timeouts++
			in.M.Yield(nil, name)
			if !w.woken {
				for i, x := range c.waiters {
					if x == w {
						c.waiters = append(append([]*condWaiter{}, c.waiters[:i]...), c.waiters[i+1:]...)
					}
				}
			}
		} else {
			in.M.Yield(func() bool { return w.woken }, name)
		}
		in.acquire(c.L)
		return VUnit{}, true
	case "lock.condSignal":
		c := condOf(a[0])
		if len(c.waiters) > 0 {
			c.waiters[0].woken = true
			c.waiters = c.waiters[1:]
		}
		return VUnit{}, true
	case "lock.condBroadcast":
		c := condOf(a[0])
		for _, w := range c.waiters {
			w.woken = true
		}
		c.waiters = nil
		return VUnit{}, true
	case "waitgroup.New":
		return VWaitGroup{&WGObj{}}, true
	case "waitgroup.Add":
		w := wgOf(a[0])
		d := in.intOf(a[1], 64, name)
		w.n += int64(in.M.ConcreteInt(d, "waitgroup.Add"))
		return VUnit{}, true
	case "waitgroup.Done":
		w := wgOf(a[0])
		w.n--
		if w.n < 0 {
			in.stuck("waitgroup counter negative")
		}
		return VUnit{}, true
	case "waitgroup.Wait":
		w := wgOf(a[0])
		in.M.Yield(func() bool { return w.n == 0 }, name)
		return VUnit{}, true
	}
	return nil, false
}
