package gl

// Concurrency of GooseLang (C03). The sequential evaluator treats these as unsupported.

type glSched struct{}

func (s *glSched) access(in *Interp, b *Block, off, n int, write bool) {}

func (in *Interp) fork(body Expr, env *Env) {
	in.unknown("Fork (concurrent programs are outside the sequential evaluator)")
}

func (in *Interp) syncBuiltin(name string, a []Val) (Val, bool) {
	switch name {
	case "lock.new":
		in.nextID++
		return VLock{&LockObj{ID: in.nextID}}, true
	case "lock.acquire":
		l, ok := a[0].(VLock)
		if !ok {
			in.stuck("lock.acquire of a non-lock")
		}
		if l.L.Held {
			in.M.End("deadlock", "GooseLang: acquire of a held lock in a sequential program")
		}
		l.L.Held = true
		return VUnit{}, true
	case "lock.release":
		l, ok := a[0].(VLock)
		if !ok {
			in.stuck("lock.release of a non-lock")
		}
		if !l.L.Held {
			in.stuck("lock.release of a free lock")
		}
		l.L.Held = false
		return VUnit{}, true
	}
	return nil, false
}
