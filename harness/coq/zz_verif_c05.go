package coq

// C05 (printer kernels) — source text cannot alter the structure of the emitted file.
//
// The real sanitising / pretty-printing code runs on symbolic strings; the oracle is a
// reference Coq lexer written without data-dependent control flow (one symbolic path).

// verifLex runs Coq's comment/string lexing rules over t starting outside everything.
// It returns: the comment depth at the end, whether a string is open at the end, and
// whether the depth returned to zero strictly before the last byte (i.e. the first
// comment closed early).
func verifLex(t string) (depth uint8, inStr bool, closedEarly bool) {
	skip := false
	n := len(t)
	for i := 0; i < n; i++ {
		c := t[i]
		var next byte
		if i+1 < n {
			next = t[i+1]
		}
		active := !skip
		isQ := c == '"'
		open := verifAnd(verifAnd(active, !inStr), verifAnd(c == '(', next == '*'))
		cl := verifAnd(verifAnd(active, !inStr), verifAnd(verifAnd(c == '*', next == ')'), depth > 0))
		inStr = verifIteBool(verifAnd(active, isQ), !inStr, inStr)
		depth = verifIteU8(open, depth+1, verifIteU8(cl, depth-1, depth))
		skip = verifOr(open, cl)
		// position of the byte that completes the token just read
		end := i
		if i+1 < n {
			end = verifIteInt(skip, i+1, i)
		}
		closedEarly = verifOr(closedEarly, verifAnd(verifAnd(cl, depth == 0), end < n-1))
	}
	return
}

func verifCommentOK(label string, text string) {
	depth, inStr, early := verifLex(text)
	verifAssert(label+"/starts-with-open", len(text) >= 2 && text[0] == '(' && text[1] == '*')
	verifAssert(label+"/one-balanced-comment", verifAnd(depth == 0, !early))
	// known finding C05/odd-quotes: an odd number of '"' in the Go text leaves Coq's lexer inside a string
	verifAssert(label+"/no-open-string", !inStr)
}

func verifC05Comment() {
	n := verifChoose(5 + 2*verifTier())
	c := verifNondetString("c", n)
	text := NewComment(c).CoqDecl()
	if string(NewComment(c)) == "" {
		verifAssert("comment/empty-emits-nothing", text == "")
		verifCover("c05/comment/empty")
		return
	}
	verifCommentOK("comment", text)
	verifCover("c05/comment")
}

func verifC05Logging() {
	n := 1 + verifChoose(4+2*verifTier())
	c := verifNondetString("call", n)
	text := LoggingStmt{GoCall: c}.Coq(false)
	verifCommentOK("logging", text)
	verifCover("c05/logging")
}

// a comment printed at a nested indentation level (as inside function bodies)
func verifC05IndentedComment() {
	n := 1 + verifChoose(4)
	c := verifNondetString("c", n)
	var pp buffer
	pp.Indent(2 * (1 + verifChoose(2)))
	pp.AddComment(c)
	text := pp.Build()
	// strip the leading indentation
	k := 0
	for k < len(text) && text[k] == ' ' {
		k++
	}
	verifCommentOK("indented", text[k:])
	verifCover("c05/indented-comment")
}

// the doc comment of a declaration cannot change the definition that follows it
func verifC05DeclComment() {
	n := verifChoose(4 + 2*verifTier())
	c := verifNondetString("doc", n)
	kind := verifChoose(3)
	var with, without string
	switch kind {
	case 0:
		body := IntLiteral{Value: 7}
		with = FuncDecl{Name: "f", ReturnType: TypeIdent("uint64T"), Body: body, Comment: c}.CoqDecl()
		without = FuncDecl{Name: "f", ReturnType: TypeIdent("uint64T"), Body: body}.CoqDecl()
	case 1:
		with = ConstDecl{Name: "c", Type: TypeIdent("uint64T"), Val: IntLiteral{Value: 7}, Comment: c}.CoqDecl()
		without = ConstDecl{Name: "c", Type: TypeIdent("uint64T"), Val: IntLiteral{Value: 7}}.CoqDecl()
	case 2:
		fs := []FieldDecl{{Name: "a", Type: TypeIdent("uint64T")}}
		with = StructDecl{Name: "S", Fields: fs, Comment: c}.CoqDecl()
		without = StructDecl{Name: "S", Fields: fs}.CoqDecl()
	}
	if c == "" {
		verifAssert("declcomment/empty", with == without)
		verifCover("c05/declcomment/empty")
		return
	}
	// the output is: one comment, a newline, then exactly the comment-free definition
	cut := len(with) - len(without)
	verifAssert("declcomment/definition-unchanged", cut >= 1 && with[cut:] == without && with[cut-1] == '\n')
	if cut >= 1 {
		verifCommentOK("declcomment", with[:cut-1])
	}
	verifCover("c05/declcomment")
}

// -typecheck adds lemmas after the definition and leaves the definition itself byte-identical
func verifC05TypecheckFlag() {
	n := verifChoose(3)
	c := verifNondetString("doc", n)
	var with, without string
	if verifChoose(2) == 0 {
		args := []FieldDecl{{Name: "x", Type: TypeIdent("uint64T")}}
		body := IdentExpr("x")
		with = FuncDecl{Name: "f", Args: args, ReturnType: TypeIdent("uint64T"), Body: body, Comment: c, AddTypes: true}.CoqDecl()
		without = FuncDecl{Name: "f", Args: args, ReturnType: TypeIdent("uint64T"), Body: body, Comment: c}.CoqDecl()
		verifAssert("typecheck/func-lemma", len(with) > len(without) &&
			with[len(without):] == "\nTheorem f_t: ⊢ f : (uint64T -> uint64T).\nProof. typecheck. Qed.\nHint Resolve f_t : types.")
	} else {
		with = ConstDecl{Name: "c", Type: TypeIdent("uint64T"), Val: IntLiteral{Value: 7}, Comment: c, AddTypes: true}.CoqDecl()
		without = ConstDecl{Name: "c", Type: TypeIdent("uint64T"), Val: IntLiteral{Value: 7}, Comment: c}.CoqDecl()
		verifAssert("typecheck/const-lemma", len(with) > len(without) &&
			with[len(without):] == "\nTheorem c_t Γ : Γ ⊢ c : uint64T.\nProof. typecheck. Qed.")
	}
	verifAssert("typecheck/definition-unchanged", len(with) >= len(without) && with[:len(without)] == without)
	verifCover("c05/typecheck-flag")
}

func verifC05Binders() {
	verifAssert("binder/anonymous", binder("_") == "<>")
	n := 1 + verifChoose(3)
	s := verifNondetString("id", n)
	for i := 0; i < n; i++ {
		verifAssume(s[i] != '"')
	}
	verifAssume(s != "_")
	q := binder(s)
	verifAssert("binder/quoted", q == "\""+s+"\"")
	_, inStr, _ := verifLex(q)
	verifAssert("binder/one-string-token", !inStr)
	verifCover("c05/binders")
}
