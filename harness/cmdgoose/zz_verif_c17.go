package main

import (
	"bytes"
	"errors"

	"github.com/goose-lang/goose"
	"github.com/goose-lang/goose/internal/coq"
)

// C17 — goose command: exit status, file placement and partial output.
//
// The real translate / writeFileIfChanged / coqFileContents / main run; TranslatePackages
// (package loading + the translator) is replaced by a stub returning symbolic results.

type verifMarker string

func (m verifMarker) CoqDecl() string { return "Definition " + string(m) + " : val := #()." }

var verifFiles []coq.File
var verifErrs []error
var verifPatternErr error
var verifGotTr goose.TranslationConfig
var verifGotDir string
var verifGotPatterns []string
var verifCalls int

func verifStubTranslatePackages(tr goose.TranslationConfig, modDir string, pkgPattern ...string) ([]coq.File, []error, error) {
	verifCalls++
	verifGotTr, verifGotDir, verifGotPatterns = tr, modDir, pkgPattern
	if verifPatternErr != nil {
		return nil, nil, verifPatternErr
	}
	return verifFiles, verifErrs, nil
}

var verifPkgPaths = []string{"example.com/a", "example.com/b-c/d.e", "solo"}
var verifOutPaths = []string{"/out/example_com/a.v", "/out/example_com/b_c/d_e.v", "/out/solo.v"}

const (
	priorAbsent = iota
	priorSame
	priorDifferent
	priorBlocked // a directory sits where the file should go: the write must fail
	priorStates
)

func verifC17Translate() {
	n := 1 + verifChoose(2+verifTier())
	ignore := verifChoose(2) == 1
	verifFiles, verifErrs, verifPatternErr = nil, nil, nil
	var which, prior []int
	var failed []bool
	var expect [][]byte
	used := make([]bool, len(verifPkgPaths))
	anyErr := false
	anyBlocked := false
	for i := 0; i < n; i++ {
		k := verifChoose(len(verifPkgPaths))
		verifAssume(!used[k]) // distinct packages have distinct paths
		used[k] = true
		f := coq.File{PkgPath: verifPkgPaths[k], GoPackage: "p", ImportHeader: "From Perennial.goose_lang Require Import ffi.disk_prelude."}
		nd := verifChoose(3)
		for d := 0; d < nd; d++ {
			f.Decls = append(f.Decls, verifMarker([]string{"m0", "m1"}[d]))
		}
		fails := verifChoose(2) == 1
		var err error
		if fails {
			err = errors.New("conversion failed")
			anyErr = true
		}
		verifFiles = append(verifFiles, f)
		verifErrs = append(verifErrs, err)
		which = append(which, k)
		failed = append(failed, fails)
		var wb bytes.Buffer
		f.Write(&wb)
		want := wb.Bytes()
		expect = append(expect, want)
		p := verifChoose(priorStates)
		prior = append(prior, p)
		switch p {
		case priorBlocked:
			verifKernelMkdir("/out")
			verifKernelMkdir("/out/example_com")
			verifKernelMkdir("/out/example_com/b_c")
			verifKernelMkdir(verifOutPaths[k])
			if !(fails && !ignore) {
				anyBlocked = true
			}
		case priorSame:
			verifKernelMkdir("/out")
			verifKernelMkdir("/out/example_com")
			verifKernelMkdir("/out/example_com/b_c")
			verifKernelPlantFile(verifOutPaths[k], want, uint64(len(want)))
		case priorDifferent:
			verifKernelMkdir("/out")
			verifKernelMkdir("/out/example_com")
			verifKernelMkdir("/out/example_com/b_c")
			// same length as the new contents (so only a real comparison can tell them apart), or shorter
			oldLen := len(want)
			if verifChoose(2) == 1 {
				oldLen = 3
			}
			old := verifNondetBytes("old", oldLen)
			if oldLen == len(want) {
				verifAssume(!verifBytesEq(old, want))
			}
			verifKernelPlantFile(verifOutPaths[k], old, uint64(oldLen))
		}
	}
	verifResetOutput()
	// the command is driven through main (flags and arguments), not through its internal functions
	verifSetFlagBool("typecheck", false)
	verifSetFlagBool("source-comments", false)
	verifSetFlagBool("skip-interfaces", false)
	verifSetFlagBool("ignore-errors", ignore)
	verifSetFlagString("out", "/out")
	verifSetFlagString("dir", ".")
	verifSetArgs("./...")
	code := verifCatchExit(main)
	verifAssert("exit/zero-iff-all-translated-and-written", verifSuccess(code) == verifAnd(!anyErr, !anyBlocked))
	verifAssert("exit/one-on-error", verifSuccess(code) || code == 1)
	log := verifWriteLog()
	for i := 0; i < n; i++ {
		path := verifOutPaths[which[i]]
		if prior[i] == priorBlocked || anyBlocked {
			continue // a failed write ends the run (exit 1); later packages are not required to be written
		}
		got, ok := verifKernelFile(path)
		wrote := verifContains(log, "writefile:"+path)
		if failed[i] && !ignore {
			verifAssert("failed/nothing-written", !wrote)
			verifAssert("failed/prior-state-kept", ok == (prior[i] != priorAbsent))
		} else {
			verifAssert("translated/file-at-coq-path", ok)
			verifAssert("translated/exact-contents", verifBytesEq(got, expect[i]))
			verifAssert("translated/rewritten-iff-changed", wrote == (prior[i] != priorSame))
			if failed[i] {
				verifCover("c17/partial-output")
			}
		}
	}
	verifAssert("loader/called-once", verifCalls >= 1)
	verifCover("c17/translate")
}

// verifSuccess: the process ends with status 0 (returning from main or calling os.Exit(0))
func verifSuccess(code int) bool { return code == -1 || code == 0 }

func verifContains(s, sub string) bool {
	for i := 0; i+len(sub) <= len(s); i++ {
		if s[i:i+len(sub)] == sub {
			return true
		}
	}
	return false
}

func verifC17PatternError() {
	verifFiles, verifErrs = nil, nil
	verifPatternErr = errors.New("patterns matched no packages")
	verifResetOutput()
	verifSetFlagBool("typecheck", false)
	verifSetFlagBool("source-comments", false)
	verifSetFlagBool("skip-interfaces", false)
	verifSetFlagBool("ignore-errors", verifChoose(2) == 1)
	verifSetFlagString("out", "/out")
	verifSetFlagString("dir", ".")
	verifSetArgs("./nothing")
	code := verifCatchExit(main)
	verifAssert("pattern-error/exit-one", code == 1)
	verifAssert("pattern-error/no-writes", verifWriteLog() == "")
	verifCover("c17/pattern-error")
}

// main: flags reach the translator unchanged
func verifC17Flags() {
	verifFiles, verifErrs, verifPatternErr = nil, nil, nil
	tc, sc, si, ig := verifNondetBool("typecheck"), verifNondetBool("srccomments"), verifNondetBool("skipif"), verifNondetBool("ignore")
	verifSetFlagBool("typecheck", tc)
	verifSetFlagBool("source-comments", sc)
	verifSetFlagBool("skip-interfaces", si)
	verifSetFlagBool("ignore-errors", ig)
	verifSetFlagString("out", "/out")
	verifSetFlagString("dir", "/mod")
	verifSetArgs("./a", "./b/...")
	verifCalls = 0
	code := verifCatchExit(main)
	verifAssert("flags/exit-zero-on-empty-success", verifSuccess(code))
	verifAssert("flags/loader-called-once", verifCalls == 1)
	verifAssert("flags/typecheck", verifGotTr.TypeCheck == tc)
	verifAssert("flags/source-comments", verifGotTr.AddSourceFileComments == sc)
	verifAssert("flags/skip-interfaces", verifGotTr.SkipInterfaces == si)
	verifAssert("flags/dir", verifGotDir == "/mod")
	verifAssert("flags/patterns", len(verifGotPatterns) == 2 && verifGotPatterns[0] == "./a" && verifGotPatterns[1] == "./b/...")
	verifCover("c17/flags")
}
