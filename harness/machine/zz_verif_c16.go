package machine

import "sync"

// C16 — remaining machine primitives.

func verifC16ToString() {
	x := verifNondetU64("x")
	s := UInt64ToString(x)
	n := len(s)
	verifAssert("tostring/nonempty", n >= 1 && n <= 20)
	var v uint64
	for i := 0; i < n; i++ {
		c := s[i]
		verifAssert("tostring/digits-only", verifAnd(c >= '0', c <= '9'))
		v = v*10 + uint64(c-'0')
	}
	verifAssert("tostring/no-leading-zero", verifOr(n == 1, s[0] != '0'))
	verifAssert("tostring/value-roundtrips", v == x)
	verifCover("c16/tostring")
}

// injectivity on the part the solver can see directly: equal renderings ⇒ equal values
func verifC16ToStringInjective() {
	x := verifNondetU64("x")
	y := verifNondetU64("y")
	verifAssume(x != y)
	sx := UInt64ToString(x)
	sy := UInt64ToString(y)
	verifAssert("tostring/injective", sx != sy)
	verifCover("c16/tostring-inj")
}

func verifC16MapClearU64() {
	verifMapOrder(true)
	n := verifChoose(5 + 2*verifTier())
	m := make(map[uint64]uint64)
	for i := 0; i < n; i++ {
		m[verifNondetU64("k")] = verifNondetU64("v")
	}
	alias := m
	MapClear(m)
	verifAssert("mapclear/empty", len(m) == 0)
	verifAssert("mapclear/callers-map", len(alias) == 0)
	k := verifNondetU64("k2")
	_, present := m[k]
	verifAssert("mapclear/no-key-left", !present)
	v := verifNondetU64("v2")
	m[k] = v
	got, ok := m[k]
	verifAssert("mapclear/usable", verifAnd(ok, got == v))
	verifAssert("mapclear/usable-len", len(m) == 1)
	verifCover("c16/mapclear/u64")
}

type verifNamedMap map[string][]byte

func verifC16MapClearStr() {
	verifMapOrder(true)
	n := verifChoose(5 + verifTier())
	m := make(verifNamedMap)
	for i := 0; i < n; i++ {
		m[verifNondetString("k", 1+i%2)] = verifNondetBytes("v", 2)
	}
	MapClear(m)
	verifAssert("mapclear/empty", len(m) == 0)
	k := verifNondetString("k2", 1)
	_, present := m[k]
	verifAssert("mapclear/no-key-left", !present)
	m[k] = []byte{1}
	verifAssert("mapclear/usable-len", len(m) == 1)
	verifCover("c16/mapclear/str")
}

func verifC16AssumeAssert() {
	c := verifNondetBool("c")
	p1 := verifTry(func() { Assume(c) })
	verifAssert("assume/panics-iff-false", p1 == !c)
	p2 := verifTry(func() { Assert(c) })
	verifAssert("assert/panics-iff-false", p2 == !c)
	verifCover("c16/assume-assert")
}

// WaitTimeout must delegate exactly once, with the caller's cond and the unscaled timeout.
var verifWTCalls int
var verifWTCond *sync.Cond
var verifWTTimeout uint64

func verifStubWaitTimeout(cond *sync.Cond, timeoutMs uint64) {
	verifWTCalls++
	verifWTCond = cond
	verifWTTimeout = timeoutMs
}

func verifC16WaitTimeoutDelegates() {
	var mu sync.Mutex
	c := sync.NewCond(&mu)
	t := verifNondetU64("timeout")
	verifWTCalls = 0
	mu.Lock()
	// nobody signals: the call must come back (through the timeout) for every timeout value
	dead := verifDeadlocks(func() { WaitTimeout(c, t) })
	verifAssert("waittimeout/returns-without-signal", !dead)
	if verifWTCalls == 0 {
		// an implementation that does not delegate to the primitive package is judged by its behaviour only
		verifCover("c16/waittimeout/not-delegating")
		return
	}
	verifAssert("waittimeout/delegates-once", verifWTCalls == 1)
	verifAssert("waittimeout/same-cond", verifWTCond == c)
	verifAssert("waittimeout/unscaled-timeout", verifWTTimeout == t)
	mu.Unlock()
	verifCover("c16/waittimeout/delegate")
}

// The real body (no stub) under the scheduler: timers fire at a nondeterministic but eventual moment.
// (a) no signaller, another goroutine already waiting on the same cond: the caller still returns,
// holding the lock; (b) with a signaller it returns holding the lock on every schedule.
func verifC16WaitTimeoutReal() {
	mu := new(sync.Mutex)
	c := sync.NewCond(mu)
	t := verifNondetU64("timeout")
	if verifNative() && t > 50 {
		t = 50 // replay: keep the native wait short
	}
	scenario := verifChoose(3)
	if scenario == 1 { // an earlier waiter on the same condition variable
		go func() {
			mu.Lock()
			c.Wait()
			mu.Unlock()
		}()
		verifYield()
	}
	if scenario == 2 { // a signaller
		go func() {
			mu.Lock()
			c.Signal()
			mu.Unlock()
		}()
	}
	mu.Lock()
	dead := verifDeadlocks(func() { WaitTimeout(c, t) })
	verifAssert("waittimeout-real/returns", !dead)
	if !dead {
		// the caller holds the lock again: TryLock must fail, Unlock must succeed
		verifAssert("waittimeout-real/lock-held-on-return", !mu.TryLock())
		mu.Unlock()
	}
	verifCover("c16/waittimeout/real")
}
