package machine

// C15 — integer encoding is little-endian, framed and invertible.

func verifC15Put64() {
	n := verifChoose(26 + 23*verifTier()) // buffer length 0..25 (quick) / 0..48 (thorough)
	buf := verifNondetBytes("buf", n)
	old := verifClone(buf)
	v := verifNondetU64("v")
	panicked := verifTry(func() { UInt64Put(buf, v) })
	verifAssert("put64/refused-iff-short", panicked == (n < 8))
	if panicked {
		verifAssert("put64/short-unchanged", verifBytesEq(buf, old))
		verifCover("c15/put64/short")
		return
	}
	for i := 0; i < 8; i++ {
		verifAssert("put64/le-byte", buf[i] == byte(v>>(8*uint(i))))
	}
	for i := 8; i < n; i++ {
		verifAssert("put64/frame", buf[i] == old[i])
	}
	got := UInt64Get(buf)
	verifAssert("put64/get-inverts", got == v)
	verifCover("c15/put64/ok")
}

func verifC15Get64() {
	n := verifChoose(26 + 23*verifTier())
	a := verifNondetBytes("a", n)
	b := verifNondetBytes("b", n)
	a0 := verifClone(a)
	var ra, rb uint64
	pa := verifTry(func() { ra = UInt64Get(a) })
	verifAssert("get64/refused-iff-short", pa == (n < 8))
	verifAssert("get64/pure", verifBytesEq(a, a0))
	if pa {
		verifCover("c15/get64/short")
		return
	}
	// reads only the frame: buffers agreeing on the first 8 bytes give equal results
	for i := 0; i < 8; i++ {
		verifAssume(a[i] == b[i])
	}
	rb = UInt64Get(b)
	verifAssert("get64/reads-only-frame", ra == rb)
	// little-endian value
	var want uint64
	for i := 0; i < 8; i++ {
		want |= uint64(a[i]) << (8 * uint(i))
	}
	verifAssert("get64/le-value", ra == want)
	// Put inverts Get on the frame
	c := verifNondetBytes("c", n)
	UInt64Put(c, ra)
	for i := 0; i < 8; i++ {
		verifAssert("get64/put-inverts", c[i] == a[i])
	}
	verifCover("c15/get64/ok")
}

func verifC15Put32() {
	n := verifChoose(26 + 23*verifTier())
	buf := verifNondetBytes("buf", n)
	old := verifClone(buf)
	v := verifNondetU32("v")
	panicked := verifTry(func() { UInt32Put(buf, v) })
	verifAssert("put32/refused-iff-short", panicked == (n < 4))
	if panicked {
		verifAssert("put32/short-unchanged", verifBytesEq(buf, old))
		verifCover("c15/put32/short")
		return
	}
	for i := 0; i < 4; i++ {
		verifAssert("put32/le-byte", buf[i] == byte(v>>(8*uint(i))))
	}
	for i := 4; i < n; i++ {
		verifAssert("put32/frame", buf[i] == old[i])
	}
	verifAssert("put32/get-inverts", UInt32Get(buf) == v)
	verifCover("c15/put32/ok")
}

func verifC15Get32() {
	n := verifChoose(26 + 23*verifTier())
	a := verifNondetBytes("a", n)
	b := verifNondetBytes("b", n)
	a0 := verifClone(a)
	var ra, rb uint32
	pa := verifTry(func() { ra = UInt32Get(a) })
	verifAssert("get32/refused-iff-short", pa == (n < 4))
	verifAssert("get32/pure", verifBytesEq(a, a0))
	if pa {
		verifCover("c15/get32/short")
		return
	}
	for i := 0; i < 4; i++ {
		verifAssume(a[i] == b[i])
	}
	rb = UInt32Get(b)
	verifAssert("get32/reads-only-frame", ra == rb)
	var want uint32
	for i := 0; i < 4; i++ {
		want |= uint32(a[i]) << (8 * uint(i))
	}
	verifAssert("get32/le-value", ra == want)
	c := verifNondetBytes("c", n)
	UInt32Put(c, ra)
	for i := 0; i < 4; i++ {
		verifAssert("get32/put-inverts", c[i] == a[i])
	}
	verifCover("c15/get32/ok")
}

// verifC15Windows: the buffer is a window big[off:off+n] of a larger allocation (spare capacity
// behind it, data in front of it): the length — not the capacity — decides whether the call is
// refused, and nothing outside the first 8 / 4 bytes of the window changes.
func verifC15Windows() {
	total := 24
	big := verifNondetBytes("big", total)
	old := verifClone(big)
	off := verifChoose(9)
	n := verifChoose(13)
	w := big[off : off+n]
	width := 8
	op := verifChoose(4)
	if op >= 2 {
		width = 4
	}
	var got64 uint64
	var got32 uint32
	v64 := verifNondetU64("v")
	v32 := verifNondetU32("w")
	panicked := verifTry(func() {
		switch op {
		case 0:
			UInt64Put(w, v64)
		case 1:
			got64 = UInt64Get(w)
		case 2:
			UInt32Put(w, v32)
		case 3:
			got32 = UInt32Get(w)
		}
	})
	verifAssert("window/refused-iff-len-short", panicked == (n < width))
	for i := 0; i < total; i++ {
		inFrame := !panicked && (op == 0 || op == 2) && i >= off && i < off+width
		if !inFrame {
			verifAssert("window/outside-untouched", big[i] == old[i])
		}
	}
	if !panicked {
		switch op {
		case 0:
			for i := 0; i < 8; i++ {
				verifAssert("window/put64-le", big[off+i] == byte(v64>>(8*uint(i))))
			}
		case 1:
			var want uint64
			for i := 0; i < 8; i++ {
				want |= uint64(old[off+i]) << (8 * uint(i))
			}
			verifAssert("window/get64-le", got64 == want)
		case 2:
			for i := 0; i < 4; i++ {
				verifAssert("window/put32-le", big[off+i] == byte(v32>>(8*uint(i))))
			}
		case 3:
			var want uint32
			for i := 0; i < 4; i++ {
				want |= uint32(old[off+i]) << (8 * uint(i))
			}
			verifAssert("window/get32-le", got32 == want)
		}
	}
	verifCover("c15/window")
}
