package main

import "strings"

// C18 — test_gen emits exactly one Go and one Coq test per test function.
//
// The real main() runs twice (-go, -coq) over the same symbolic directory; the real
// regular-expression constants are matched by the engine's symbolic backtracker; the
// oracle below is the property's rule, written independently of the regexps.

// branch-free character classes (one symbolic condition each)
func verifIsSpace(c byte) bool {
	return verifOr(verifOr(c == ' ', c == '\t'), verifOr(c == '\n', verifOr(c == '\f', c == '\r')))
}
func verifIsAlnum(c byte) bool {
	return verifOr(verifAnd(c >= '0', c <= '9'), verifOr(verifAnd(c >= 'A', c <= 'Z'), verifAnd(c >= 'a', c <= 'z')))
}

// verifHeader: line is a top-level header `func (failing_)?test<alnum+>(` at column 0.
func verifHeader(line string) (ok bool, failing bool, name string) {
	if !strings.HasPrefix(line, "func") || len(line) < 6 || !verifIsSpace(line[4]) {
		return
	}
	rest := line[5:]
	if strings.HasPrefix(rest, "failing_") {
		failing = true
		rest = rest[8:]
	}
	if !strings.HasPrefix(rest, "test") {
		return false, false, ""
	}
	rest = rest[4:]
	k := 0
	for k < len(rest) && verifIsAlnum(rest[k]) {
		k++
	}
	if k == 0 || k >= len(rest) || rest[k] != '(' {
		return false, false, ""
	}
	return true, failing, rest[:k]
}

func verifSkipped(name string) bool {
	return strings.HasSuffix(name, "~") || strings.HasSuffix(name, ".gold.v") || strings.HasSuffix(name, "_test.go")
}

func verifRun(mode string) (string, int) {
	verifResetOutput()
	verifSetFlagBool("go", mode == "go")
	verifSetFlagBool("coq", mode == "coq")
	verifSetFlagString("out", "-")
	verifSetArgs("/pkg")
	crashed := false
	code := verifCatchExit(func() { crashed = verifTry(main) })
	verifAssert("exit/"+mode+"-mode-does-not-crash", !crashed)
	return verifStdout(), code
}

func verifC18(nfiles, nlines, nameLen, lineLen int) {
	var names, contents []string
	var lines [][]string
	for f := 0; f < nfiles; f++ {
		name := verifNondetString("name", nameLen)
		for i := 0; i < nameLen; i++ {
			verifAssume(name[i] != '/')
			verifAssume(name[i] != 0)
		}
		verifAssume(name[0] != '.') // not ".", "..", nor a hidden file the Go tool ignores
		for _, other := range names {
			verifAssume(name != other)
		}
		names = append(names, name)
		var ls []string
		content := ""
		for l := 0; l < nlines; l++ {
			line := verifNondetString("line", lineLen)
			for i := 0; i < lineLen; i++ {
				verifAssume(line[i] != '\n')
			}
			verifAssume(line[lineLen-1] != '\r')
			ls = append(ls, line)
			content += line + "\n"
		}
		lines = append(lines, ls)
		contents = append(contents, content)
	}
	verifSetDir("/pkg", names, contents)
	verifC18Compare(names, lines)
}

// verifC18Compare runs both generators on the directory set up by the caller and compares their
// output with the property's rule applied to the given lines.
func verifC18Compare(names []string, lines [][]string) {
	nfiles := len(names)

	goOut, goCode := verifRun("go")
	coqOut, coqCode := verifRun("coq")
	verifAssert("exit/go-mode-succeeds", goCode == -1)
	verifAssert("exit/coq-mode-succeeds", coqCode == -1)

	// files in name order
	order := make([]int, nfiles)
	for i := range order {
		order[i] = i
	}
	for i := 1; i < nfiles; i++ {
		for j := i; j > 0 && names[order[j]] < names[order[j-1]]; j-- {
			order[j], order[j-1] = order[j-1], order[j]
		}
	}
	wantGo := goHeader
	wantCoq := coqHeader
	ntests := 0
	for _, f := range order {
		if verifSkipped(names[f]) {
			continue
		}
		wantCoq += "(* " + names[f] + " *)\n"
		for _, line := range lines[f] {
			ok, failing, nm := verifHeader(line)
			if !ok {
				continue
			}
			ntests++
			pre := ""
			if failing {
				pre = "failing_"
				wantCoq += "Fail Example test" + nm + "_ok : failing_test" + nm + " #() ~~> #true := t.\n"
			} else {
				wantCoq += "Example test" + nm + "_ok : test" + nm + " #() ~~> #true := t.\n"
			}
			wantGo += "func (suite *GoTestSuite) Test" + nm + "() {\n\td := disk.NewMemDisk(30)\n\tdisk.Init(d)\n\tsuite.Equal(true, " + pre + "test" + nm + "())\n}\n\n"
		}
		wantCoq += "\n"
	}
	wantGo += goFooter
	// known finding id C18/go-mode-skip: -go does not skip _test.go / .gold.v files
	verifAssert("go/exactly-the-test-functions-in-order", goOut == wantGo)
	verifAssert("coq/exactly-the-test-functions-in-order", coqOut == wantCoq)
	if ntests > 0 {
		verifCover("c18/some-test")
	}
	verifCover("c18/run")
}

// a source line at the limit of bufio.Scanner's default buffer (64 KiB) followed by a test function:
// the generators must still see the function (or fail loudly), in both modes alike
func verifC18LongLine() {
	k := verifChoose(5)
	n := []int{65535, 65536, 70000, 4096, 8192}[k]
	long := make([]byte, n)
	for i := range long {
		long[i] = 'x'
	}
	long[0], long[1] = '/', '/'
	tail := ""
	if k >= 3 {
		// text that looks like a header starts exactly where a 4096-byte (8192-byte) buffer ends
		tail = "func testPhantom() bool {"
	}
	content := "func testA() bool {\n" + string(long) + tail + "\nfunc failing_testB() bool {\n"
	verifSetDir("/pkg", []string{"a.go"}, []string{content})
	goOut, goCode := verifRun("go")
	coqOut, coqCode := verifRun("coq")
	loud := goCode != -1 && coqCode != -1 // both refuse the input with a non-zero status
	wantGo := goHeader + "func (suite *GoTestSuite) TestA() {\n\td := disk.NewMemDisk(30)\n\tdisk.Init(d)\n\tsuite.Equal(true, testA())\n}\n\n" +
		"func (suite *GoTestSuite) TestB() {\n\td := disk.NewMemDisk(30)\n\tdisk.Init(d)\n\tsuite.Equal(true, failing_testB())\n}\n\n" + goFooter
	wantCoq := coqHeader + "(* a.go *)\nExample testA_ok : testA #() ~~> #true := t.\nFail Example testB_ok : failing_testB #() ~~> #true := t.\n\n"
	verifAssert("longline/go-complete-or-refused", verifOr(loud, goOut == wantGo))
	verifAssert("longline/coq-complete-or-refused", verifOr(loud, coqOut == wantCoq))
	verifCover("c18/longline")
}

// verifC18Scenarios: larger concrete directories (file-name collation, many functions, long names,
// CRLF in the middle of a file, near-miss headers); one symbolic byte per scenario keeps a branch open.
func verifC18Scenarios() {
	var names []string
	var lines [][]string
	add := func(name string, ls ...string) {
		names = append(names, name)
		lines = append(lines, ls)
	}
	switch verifChoose(3) {
	case 0: // names that sort differently under case-insensitive or natural-number collation
		add("b.go", "func testLowerB() bool {")
		add("B.go", "func testUpperB() bool {")
		add("a10.go", "func testTen() bool {")
		add("a9.go", "func testNine() bool {")
		add("_x.go", "func testUnderscore() bool {")
		add("Z.go", "func failing_testZ() bool {")
	case 1: // near misses and unusual but valid headers
		long := "testAVeryLongTestFunctionNameThatGoesOnAndOn0123456789Z"
		add("m.go",
			"package semantics", "",
			"func "+long+"() bool {",
			"func test9lives() bool {",
			"func failing_test0() bool {",
			"func\ttestTab() bool {",
			"func testCr() bool {\r",
			"\treturn true\r",
			"}\r",
			"func (b *box) testMethod() bool {",
			"// func testCommented() bool {",
			"\tfunc testIndented() bool {",
			"func testUnder_score() bool {",
			"func test() bool {",
			"func testSpace () bool {",
			"func Testupper() bool {",
			"func failing_testLast() bool { return false }")
	case 2: // many test functions in one file
		var ls []string
		for i := 0; i < 130; i++ {
			ls = append(ls, "func testN"+verifItoa(i)+"() bool {", "\treturn true", "}", "")
		}
		add("many.go", ls...)
	}
	var contents []string
	for _, ls := range lines {
		c := ""
		for _, l := range ls {
			c += l + "\n"
		}
		contents = append(contents, c)
	}
	verifSetDir("/pkg", names, contents)
	verifC18Compare(names, lines)
	verifCover("c18/scenarios")
}

func verifItoa(i int) string {
	if i == 0 {
		return "0"
	}
	s := ""
	for i > 0 {
		s = string(rune('0'+i%10)) + s
		i /= 10
	}
	return s
}

func verifC18OneFile()  { verifC18(1, 1+verifTier(), 9, 20) }
func verifC18TwoFiles() { verifC18(2, 1, 9, 12+7*verifTier()) }

// wrong invocations are refused with status 1 and no output
func verifC18Usage() {
	verifResetOutput()
	g, c := verifChoose(2) == 1, verifChoose(2) == 1
	verifAssume(g == c)
	verifSetFlagBool("go", g)
	verifSetFlagBool("coq", c)
	verifSetFlagString("out", "-")
	verifSetArgs("/pkg")
	verifSetDir("/pkg", nil, nil)
	code := verifCatchExit(main)
	verifAssert("usage/both-or-neither-refused", code == 1 && verifStdout() == "")
	verifCover("c18/usage")
}
