package disk

// C11 — persistence across reopen; I/O failures are never silent.

// (a) reopen: every block equals the last value written.
func verifC11Reopen() {
	n := verifChoose(4)
	path := verifPath("disk.img")
	d, err := NewFileDisk(path, uint64(n))
	verifAssume(err == nil)
	model := make([][]byte, n)
	for i := 0; i < n; i++ {
		model[i] = make([]byte, BlockSize)
		if verifChoose(2) == 1 {
			b := verifNondetBytes("w", int(BlockSize))
			d.Write(uint64(i), b)
			model[i] = verifClone(b)
		}
	}
	if verifChoose(2) == 1 {
		d.Barrier()
	}
	d.Close()
	d2, err2 := NewFileDisk(path, uint64(n))
	verifAssert("reopen/ok", err2 == nil)
	verifAssume(err2 == nil)
	verifAssert("reopen/size", d2.Size() == uint64(n))
	for i := 0; i < n; i++ {
		buf := verifNondetBytes("dirty", int(BlockSize))
		d2.ReadTo(uint64(i), buf)
		verifAssert("reopen/block", verifBytesEq(buf, model[i]))
	}
	d2.Close()
	verifCover("c11/reopen")
}

// (b) prior image of any length: exactly n blocks afterwards, retained blocks preserved, new blocks zero.
func verifC11PriorImage() {
	n := verifChoose(3) // 0..2 blocks requested
	const K = 2*4096 + 1
	path := verifPath("disk.img")
	L := verifNondetU64("L")
	verifAssume(L < 1<<62)
	content := verifNondetBytes("img", K)
	verifKernelPlantFile(path, content, L)
	d, err := NewFileDisk(path, uint64(n))
	verifAssert("prior/open-ok", err == nil)
	verifAssume(err == nil)
	sz, ok := verifKernelFileSize(path)
	// known finding id C11/size-coincidence: an image of exactly numBlocks *bytes* is not resized
	coincidence := verifAnd(L == uint64(n), n != 0)
	verifAssertExcept("prior/backing-length", verifAnd(ok, sz == uint64(n)*BlockSize), "C11/size-coincidence", coincidence)
	verifAssert("prior/size", d.Size() == uint64(n))
	for i := 0; i < n; i++ {
		buf := verifNondetBytes("dirty", int(BlockSize))
		d.ReadTo(uint64(i), buf)
		want := make([]byte, BlockSize)
		for j := 0; j < int(BlockSize); j++ {
			off := uint64(i)*BlockSize + uint64(j)
			want[j] = verifIteU8(off < L, content[off], 0)
		}
		verifAssertExcept("prior/block", verifBytesEq(buf, want), "C11/size-coincidence", coincidence)
	}
	verifCover("c11/prior-image")
}

// (c) single injected failure of any system call surfaces as an error return or a panic.
func verifC11Faults() {
	n := 1 + verifChoose(2)
	path := verifPath("disk.img")
	verifKernelFaults(true)
	var d FileDisk
	var err error
	verifTry(func() { d, err = NewFileDisk(path, uint64(n)) })
	if verifKernelFaulted() != "" {
		verifAssert("fault/open-reports", err != nil)
		verifCover("c11/fault/open")
		return
	}
	verifAssume(err == nil)
	a := uint64(verifChoose(n))
	v := verifNondetBytes("v", int(BlockSize))
	p := verifTry(func() { d.Write(a, v) })
	if verifKernelFaulted() != "" {
		verifAssert("fault/write-panics", p)
		verifCover("c11/fault/write")
		return
	}
	var r Block
	p = verifTry(func() { r = d.Read(a) })
	if verifKernelFaulted() != "" {
		verifAssert("fault/read-panics", p)
		verifCover("c11/fault/read")
		return
	}
	verifAssert("fault/none/read-value", verifBytesEq(r, v))
	p = verifTry(func() { d.Barrier() })
	if verifKernelFaulted() != "" {
		verifAssert("fault/barrier-panics", p)
		verifCover("c11/fault/barrier")
		return
	}
	p = verifTry(func() { d.Close() })
	if verifKernelFaulted() != "" {
		verifAssert("fault/close-panics", p)
		verifCover("c11/fault/close")
		return
	}
	verifCover("c11/fault/none")
}

// (d) Barrier means flushed: after Write; Barrier a crash cannot lose the block.
func verifC11BarrierDurable() {
	n := 1 + verifChoose(2)
	path := verifPath("disk.img")
	d, err := NewFileDisk(path, uint64(n))
	verifAssume(err == nil)
	a := uint64(verifChoose(n))
	v := verifNondetBytes("v", int(BlockSize))
	d.Write(a, v)
	d.Barrier()
	nfsync := verifKernelCount("fsync")
	verifAssert("barrier/issues-fsync", nfsync >= 1)
	// an unflushed second write may or may not survive; the flushed one must
	if verifChoose(2) == 1 {
		b := uint64(verifChoose(n))
		if b != a {
			d.Write(b, verifNondetBytes("w2", int(BlockSize)))
		}
	}
	verifKernelReboot() // power loss: volatile := durable ⊕ prefix of pending writes
	d2, err2 := NewFileDisk(path, uint64(n))
	verifAssert("durable/reopen-ok", err2 == nil)
	verifAssume(err2 == nil)
	verifAssert("durable/block-survives", verifBytesEq(d2.Read(a), v))
	verifCover("c11/barrier-durable")
}

// (c') a persistently failing system call (any errno, including EINTR/EAGAIN) is never swallowed.
func verifC11PersistentFailure() {
	n := 1 + verifChoose(2)
	path := verifPath("disk.img")
	d, err := NewFileDisk(path, uint64(n))
	verifAssume(err == nil)
	a := uint64(verifChoose(n))
	v := verifNondetBytes("v", int(BlockSize))
	d.Write(a, v)
	errno := []int{5, 4, 11, 28}[verifChoose(4)] // EIO, EINTR, EAGAIN, ENOSPC
	switch verifChoose(3) {
	case 0:
		verifKernelFailAlways("fsync", errno)
		p := verifTry(func() { d.Barrier() })
		verifAssert("persistent/barrier-panics", p)
	case 1:
		verifKernelFailAlways("pwrite", errno)
		p := verifTry(func() { d.Write(a, verifNondetBytes("w", int(BlockSize))) })
		verifAssert("persistent/write-panics", p)
		verifKernelFailAlways("", 0)
		verifAssert("persistent/failed-write-not-visible-as-success", verifBytesEq(d.Read(a), v))
	case 2:
		verifKernelFailAlways("pread", errno)
		p := verifTry(func() { d.Read(a) })
		verifAssert("persistent/read-panics", p)
	}
	verifCover("c11/persistent-failure")
}

// (f) generations: open with n1 blocks and write them all, close, reopen SMALLER (n2 ≤ n1), close, reopen
// with n1 blocks again: the blocks below n2 are retained through both reopenings, the re-grown blocks
// read as zero (what was cut off must not come back).
func verifC11Generations() {
	n1 := 1 + verifChoose(2)
	path := verifPath("disk.img")
	d, err := NewFileDisk(path, uint64(n1))
	verifAssume(err == nil)
	model := make([][]byte, n1)
	for i := 0; i < n1; i++ {
		b := verifNondetBytes("w", int(BlockSize))
		d.Write(uint64(i), b)
		model[i] = verifClone(b)
	}
	d.Barrier()
	d.Close()
	n2 := verifChoose(n1 + 1)
	d2, err2 := NewFileDisk(path, uint64(n2))
	verifAssert("gen/shrink-open-ok", err2 == nil)
	verifAssume(err2 == nil)
	verifAssert("gen/shrink-size", d2.Size() == uint64(n2))
	for i := 0; i < n2; i++ {
		verifAssert("gen/shrink-retained", verifBytesEq(d2.Read(uint64(i)), model[i]))
	}
	d2.Close()
	d3, err3 := NewFileDisk(path, uint64(n1))
	verifAssert("gen/regrow-open-ok", err3 == nil)
	verifAssume(err3 == nil)
	verifAssert("gen/regrow-size", d3.Size() == uint64(n1))
	for i := 0; i < n1; i++ {
		want := model[i]
		if i >= n2 {
			want = make([]byte, BlockSize)
		}
		buf := verifNondetBytes("dirty", int(BlockSize))
		d3.ReadTo(uint64(i), buf)
		verifAssert("gen/regrow-block", verifBytesEq(buf, want))
	}
	d3.Close()
	verifCover("c11/generations")
}
