package disk

func verifOpenFile(n int) FileDisk {
	d, err := NewFileDisk(verifPath("disk.img"), uint64(n))
	verifAssert("file/open-ok", err == nil)
	verifAssume(err == nil)
	return d
}

func verifC09FileFresh() { n := verifChoose(4); VerifC09Fresh(verifOpenFile(n), n) }
func verifC09FileStep()  { n := verifChoose(4); VerifC09Step(verifOpenFile(n), n, false) }
func verifC09FileGlobal() {
	n := 1 + verifChoose(2)
	VerifC09Step(verifOpenFile(n), n, true)
}
func verifC09FileTwo() { n := 1 + verifChoose(3); VerifC09Two(verifOpenFile(n), n) }

// the file disk and the memory disk run the same history side by side
func verifC09FileHistory() {
	n := 5 + 3*verifTier()
	VerifC09History(verifOpenFile(n), NewMemDisk(uint64(n)), n, 2+verifTier())
}

func verifC09FileGlobalHistory() {
	VerifC09GlobalHistory(verifOpenFile(2), NewMemDisk(3), 2, 3, 3+verifTier())
}
