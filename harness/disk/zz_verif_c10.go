package disk

import "sync"

// C10 — concurrent disk operations are linearizable per block.
//
// Decided modularly: the lock-discipline verification conditions are discharged per
// method by sequential symbolic execution with the lock monitor, for all arguments and
// on all paths including panics. (1) every access to block bytes happens with d.l held
// in an adequate mode; (2) one critical section per operation; (3) the lock is released
// on every exit; (4) Size touches no shared mutable cell.

func verifC10Op(d Disk, op int, a uint64, buf, v []byte) {
	switch op {
	case 0:
		d.Read(a)
	case 1:
		d.ReadTo(a, buf)
	case 2:
		d.Write(a, v)
	case 3:
		d.Size()
	}
}

func verifC10MemDiscipline() {
	n := 1 + verifChoose(2)
	d := NewMemDisk(uint64(n))
	for i := 0; i < n; i++ {
		d.Write(uint64(i), verifNondetBytes("pre", int(BlockSize)))
	}
	a := verifNondetU64("a")
	op := verifChoose(4)
	buf := verifNondetBytes("buf", int(BlockSize))
	vlen := int(BlockSize)
	if op == 2 {
		vlen = verifPick(int(BlockSize), 1)
	}
	v := verifNondetBytes("v", vlen)

	verifGuardedBy(d)
	verifSharedReach(d)
	if verifGuards() == 0 {
		// no lock anywhere in the disk: a lock-free implementation. The lock-discipline conditions
		// do not apply; verifC10MemConcurrent (scheduler + race check) decides
		verifCover("c10/mem")
		return
	}
	verifMonitor(true)
	panicked := verifTry(func() { verifC10Op(d, op, a, buf, v) })
	verifMonitor(false)

	verifAssert("mem/accesses-protected", verifUnprotected() == 0)
	verifAssert("mem/lock-released-on-every-exit", verifLocksFree())
	inRange := a < uint64(n)
	switch op {
	case 0, 1:
		// (a refused call may take no lock at all)
		verifAssert("mem/one-critical-section", verifSections() <= 1)
		verifAssert("mem/reads-block-under-lock", verifImplies(inRange, verifProtected() > 0))
	case 2:
		if vlen == int(BlockSize) {
			verifAssert("mem/one-critical-section", verifSections() <= 1)
			verifAssert("mem/writes-block-under-lock", verifImplies(inRange, verifProtected() > 0))
		} else {
			verifAssert("mem/bad-buffer-refused-before-touching", verifAnd(panicked, verifProtected() == 0))
		}
	case 3:
		verifAssert("mem/size-touches-no-shared-cell", verifProtected() == 0)
	}
	verifCover("c10/mem")

	if verifNative() { // replay only: the same operation from two goroutines under the race detector
		var wg sync.WaitGroup
		for g := 0; g < 2; g++ {
			wg.Add(1)
			go func() {
				defer wg.Done()
				for k := 0; k < 200; k++ {
					verifTry(func() { verifC10Op(d, op, a, make([]byte, BlockSize), verifClone(v)) })
					verifTry(func() { verifC10Op(d, 2, a%uint64(n), nil, make([]byte, BlockSize)) })
				}
			}()
		}
		wg.Wait()
	}
}

// File-backed disk: no Go-level shared mutable state, one positional syscall per operation,
// distinct addresses map to disjoint byte ranges.
func verifC10FileDiscipline() {
	n := 2 + verifChoose(2)
	d, err := NewFileDisk(verifPath("disk.img"), uint64(n))
	verifAssume(err == nil)
	a := verifNondetU64("a")
	b := verifNondetU64("b")
	verifAssume(a < uint64(n))
	verifAssume(b < uint64(n))
	verifAssume(a != b)
	va := verifNondetBytes("va", int(BlockSize))
	vb := verifNondetBytes("vb", int(BlockSize))
	verifKernelTraceReset()
	d.Write(a, va)
	verifAssert("file/write-is-one-pwrite", verifAnd(verifKernelCount("pwrite") == 1, verifKernelSyscalls() > 0))
	d.Write(b, vb)
	verifKernelTraceReset()
	ra := d.Read(a)
	verifAssert("file/read-is-one-pread", verifKernelCount("pread") == 1)
	rb := d.Read(b)
	verifAssert("file/distinct-addresses-do-not-interfere", verifAnd(verifBytesEq(ra, va), verifBytesEq(rb, vb)))
	// byte ranges [a*4096, a*4096+4096) and [b*4096, …) are disjoint
	oa, ob := a*BlockSize, b*BlockSize
	verifAssert("file/ranges-disjoint", verifOr(oa+BlockSize <= ob, ob+BlockSize <= oa))
	verifAssert("file/no-go-level-shared-state", verifAnd(verifProtected() == 0, verifUnprotected() == 0))
	verifCover("c10/file")
}

// verifC10MemConcurrent: three operations on one memory disk run concurrently under the executor's
// scheduler (every interleaving at synchronisation points: lock operations, atomic operations,
// Pool.Get/Put) with the happens-before race check on every memory cell. Two writers and a reader
// on the same block: the reader sees the initial, the first or the second value in full; the final
// content is one of the two written values; no pair of conflicting plain accesses is unordered.
// Unlike the lock-discipline VCs this does not presuppose that the implementation uses a lock.
func verifC10MemConcurrent() {
	d := NewMemDisk(2)
	init := verifNondetBytes("init", int(BlockSize))
	v1 := verifNondetBytes("v1", int(BlockSize))
	v2 := verifNondetBytes("v2", int(BlockSize))
	a2 := uint64(verifChoose(2)) // the second writer targets the same or the other block
	d.Write(0, init)
	d.Write(0, verifClone(init)) // a replaced block exists before the concurrent phase
	var r Block
	var wg sync.WaitGroup
	wg.Add(2)
	verifRaceDetect(true)
	go func() {
		d.Write(0, v1)
		wg.Done()
	}()
	go func() {
		d.Write(a2, v2)
		wg.Done()
	}()
	r = d.Read(0)
	wg.Wait()
	verifRaceDetect(false)
	verifAssert("conc/no-data-race", verifRaces() == 0)
	okR := verifOr(verifBytesEq(r, init), verifBytesEq(r, v1))
	if a2 == 0 {
		okR = verifOr(okR, verifBytesEq(r, v2))
	}
	verifAssert("conc/read-returns-a-written-value", okR)
	f := d.Read(0)
	okF := verifBytesEq(f, v1)
	if a2 == 0 {
		okF = verifOr(okF, verifBytesEq(f, v2))
	} else {
		verifAssert("conc/other-block", verifBytesEq(d.Read(1), v2))
	}
	verifAssert("conc/final-is-a-written-value", okF)
	verifCover("c10/conc")
}

// verifC10MemSequences: per-goroutine operation SEQUENCES. One goroutine writes v1 then v2 to block
// 0, the main goroutine reads it twice (Read, then ReadTo into a dirty buffer) while a third asks for
// the size. A total order respecting real time and both program orders allows exactly the pairs
// (init,init) (init,v1) (init,v2) (v1,v1) (v1,v2) (v2,v2): a later read never goes back.
func verifC10MemSequences() {
	d := NewMemDisk(2)
	init := verifNondetBytes("init", int(BlockSize))
	v1 := verifNondetBytes("v1", int(BlockSize))
	v2 := verifNondetBytes("v2", int(BlockSize))
	v3 := v2
	deep := verifTier() > 0 // thorough: a third write and a third read
	if deep {
		v3 = verifNondetBytes("v3", int(BlockSize))
	}
	d.Write(0, init)
	var sz uint64
	var wg sync.WaitGroup
	wg.Add(2)
	verifRaceDetect(true)
	go func() {
		d.Write(0, v1)
		d.Write(0, v2)
		if deep {
			d.Write(0, v3)
		}
		wg.Done()
	}()
	go func() {
		sz = d.Size()
		wg.Done()
	}()
	r1 := d.Read(0)
	r2 := verifNondetBytes("dirty", int(BlockSize))
	d.ReadTo(0, r2)
	r3 := r2
	if deep {
		r3 = d.Read(0)
	}
	wg.Wait()
	verifRaceDetect(false)
	verifAssert("seq/no-data-race", verifRaces() == 0)
	verifAssert("seq/size", sz == 2)
	// ranks 0..3 of init, v1, v2, v3 in the single total order of the writes; a read returns one of
	// them and a later read never returns an earlier one (equal contents make several ranks possible:
	// the disjunction ranges over all of them)
	vals := [][]byte{init, v1, v2, v3}
	ok := false
	for a := 0; a < len(vals); a++ {
		for b := a; b < len(vals); b++ {
			for c := b; c < len(vals); c++ {
				ok = verifOr(ok, verifAnd(verifBytesEq(r1, vals[a]), verifAnd(verifBytesEq(r2, vals[b]), verifBytesEq(r3, vals[c]))))
			}
		}
	}
	verifAssert("seq/reads-follow-one-total-order", ok)
	verifAssert("seq/final-is-the-last-write", verifBytesEq(d.Read(0), v3))
	verifCover("c10/sequences")
}

// verifC10FileConcurrent: the file-backed disk under the scheduler with preemption at every system
// call. Distinct addresses never interfere (a writer of block 1 runs against a write+read of block
// 0); operations ordered in real time on one address are observed in that order (a read started
// after a write returned sees it, whatever the other goroutine does).
func verifC10FileConcurrent() {
	d, err := NewFileDisk(verifPath("disk.img"), 3)
	verifAssume(err == nil)
	va := verifNondetBytes("va", int(BlockSize))
	vb := verifNondetBytes("vb", int(BlockSize))
	vc := verifNondetBytes("vc", int(BlockSize))
	var rb Block
	var wg sync.WaitGroup
	wg.Add(1)
	verifKernelPreempt(true)
	verifRaceDetect(true)
	go func() {
		d.Write(1, vb)
		rb = d.Read(1)
		wg.Done()
	}()
	d.Write(0, va)
	ra := d.Read(0) // ordered after the write of va in real time
	d.Write(0, vc)
	wg.Wait()
	verifRaceDetect(false)
	verifKernelPreempt(false)
	verifAssert("fileconc/no-data-race", verifRaces() == 0)
	verifAssert("fileconc/real-time-order-on-one-address", verifBytesEq(ra, va))
	verifAssert("fileconc/other-goroutine-reads-its-own-write", verifBytesEq(rb, vb))
	verifAssert("fileconc/distinct-addresses-do-not-interfere", verifAnd(verifBytesEq(d.Read(0), vc), verifAnd(verifBytesEq(d.Read(1), vb), verifBytesEq(d.Read(2), make([]byte, BlockSize)))))
	verifCover("c10/fileconc")
}
