package disk

// C09 — disks are arrays of independent 4096-byte registers.
//
// One inductive step from an arbitrary reachable state: every block is brought to
// an arbitrary content through the public API (so every reachable state is covered),
// an abstract register array is kept next to it, then one arbitrary operation is
// performed with a fully symbolic address / contents and compared with the model.

// VerifC09Fresh: a fresh disk reads as zero everywhere and refuses out-of-range reads.
func VerifC09Fresh(d Disk, n int) {
	a := verifNondetU64("a")
	var r Block
	panicked := verifTry(func() { r = d.Read(a) })
	verifAssert("fresh/refused-iff-oob", panicked == (a >= uint64(n)))
	if !panicked {
		verifAssert("fresh/len", len(r) == int(BlockSize))
		verifAssert("fresh/zero", verifBytesEq(r, make([]byte, BlockSize)))
	}
	verifAssert("fresh/size", d.Size() == uint64(n))
	verifCover("c09/fresh")
}

func verifPreState(d Disk, n int) [][]byte {
	model := make([][]byte, n)
	for i := 0; i < n; i++ {
		b := verifNondetBytes("pre", int(BlockSize))
		d.Write(uint64(i), b)
		model[i] = verifClone(b)
	}
	return model
}

func verifFrame(d Disk, n int, model [][]byte, label string) {
	for i := 0; i < n; i++ {
		verifAssert(label, verifBytesEq(d.Read(uint64(i)), model[i]))
	}
}

// VerifC09Step performs one arbitrary operation from an arbitrary reachable state.
// useGlobal routes the operation through the package-level wrappers.
func VerifC09Step(d Disk, n int, useGlobal bool) {
	model := verifPreState(d, n)
	if useGlobal {
		Init(d)
	}
	a := verifNondetU64("a")
	inRange := a < uint64(n)
	switch verifChoose(5) {
	case 0: // Read
		var r Block
		panicked := verifTry(func() {
			if useGlobal {
				r = Read(a)
			} else {
				r = d.Read(a)
			}
		})
		verifAssert("read/refused-iff-oob", panicked == !inRange)
		if !panicked {
			verifAssert("read/len", len(r) == int(BlockSize))
			verifAssert("read/value", verifBytesEq(r, model[a]))
			// the returned buffer is caller-owned: a second read is unaffected by changes to the first
			// result, and does not disturb it
			keep := verifClone(r)
			var r2 Block
			if useGlobal {
				r2 = Read(a)
			} else {
				r2 = d.Read(a)
			}
			r2[0] ^= 0xff
			r2[BlockSize-1] ^= 0xff
			verifAssert("read/results-independent", verifBytesEq(r, keep))
			r[1] ^= 0xff
		}
		verifFrame(d, n, model, "read/frame")
		verifCover("c09/read")
	case 1: // ReadTo into a dirty block-sized buffer
		buf := verifNondetBytes("dirty", int(BlockSize))
		old := verifClone(buf)
		panicked := verifTry(func() { d.ReadTo(a, buf) })
		verifAssert("readto/refused-iff-oob", panicked == !inRange)
		if !panicked {
			verifAssert("readto/value", verifBytesEq(buf, model[a]))
			buf[1] ^= 0xff
		} else {
			verifAssert("readto/refused-untouched", verifBytesEq(buf, old))
		}
		verifFrame(d, n, model, "readto/frame")
		verifCover("c09/readto")
	case 2: // Write with a buffer length from the boundary set
		ln := verifPick(int(BlockSize), 0, 1, int(BlockSize)-1, int(BlockSize)+1, 2*int(BlockSize))
		v := verifNondetBytes("v", ln)
		keep := verifClone(v)
		panicked := verifTry(func() {
			if useGlobal {
				Write(a, v)
			} else {
				d.Write(a, v)
			}
		})
		verifAssert("write/refused-iff-bad", panicked == verifOr(!inRange, ln != int(BlockSize)))
		verifAssert("write/arg-untouched", verifBytesEq(v, keep))
		if !panicked {
			model[a] = keep
			// the disk must not retain the caller's buffer
			v[0] ^= 0xff
			v[ln-1] ^= 0xff
		}
		verifFrame(d, n, model, "write/frame")
		verifCover("c09/write")
	case 3: // Size
		var s uint64
		if useGlobal {
			s = Size()
		} else {
			s = d.Size()
		}
		verifAssert("size/constant", s == uint64(n))
		verifFrame(d, n, model, "size/frame")
		verifCover("c09/size")
	case 4: // Barrier
		panicked := verifTry(func() {
			if useGlobal {
				Barrier()
			} else {
				d.Barrier()
			}
		})
		verifAssert("barrier/returns", !panicked)
		verifAssert("barrier/size", d.Size() == uint64(n))
		verifFrame(d, n, model, "barrier/frame")
		verifCover("c09/barrier")
	}
}

// VerifC09Two: a depth-2 history (write then any second write/read), cross-checking the inductive step.
func VerifC09Two(d Disk, n int) {
	model := make([][]byte, n)
	for i := range model {
		model[i] = make([]byte, BlockSize)
	}
	for k := 0; k < 2; k++ {
		a := verifNondetU64("a")
		verifAssume(a < uint64(n))
		v := verifNondetBytes("v", int(BlockSize))
		d.Write(a, v)
		model[a] = verifClone(v)
	}
	verifFrame(d, n, model, "two/frame")
	verifCover("c09/two")
}

// VerifC09History: k arbitrary operations (Read, ReadTo, Write, Barrier) at arbitrary in-range
// addresses of a larger disk from the zero state, each compared with the register model; Mem and
// File run the same script side by side (file == nil: Mem only). Catches state kept outside
// the blocks (caches, batching, reused buffers) that the one-step harness cannot reach.
func VerifC09History(d Disk, e Disk, n, k int) {
	model := make([][]byte, n)
	for i := range model {
		model[i] = make([]byte, BlockSize)
	}
	var held []Block // results of earlier reads, with the contents they had
	var heldWant [][]byte
	for s := 0; s < k; s++ {
		a := uint64(verifChoose(n))
		switch verifChoose(4) {
		case 0:
			r := d.Read(a)
			verifAssert("history/read", verifBytesEq(r, model[a]))
			if e != nil {
				verifAssert("history/read-second-disk", verifBytesEq(e.Read(a), model[a]))
			}
			held = append(held, r)
			heldWant = append(heldWant, verifClone(r))
		case 1:
			buf := verifNondetBytes("dirty", int(BlockSize))
			d.ReadTo(a, buf)
			verifAssert("history/readto", verifBytesEq(buf, model[a]))
			if e != nil {
				buf2 := make([]byte, BlockSize)
				e.ReadTo(a, buf2)
				verifAssert("history/readto-second-disk", verifBytesEq(buf2, model[a]))
			}
		case 2:
			v := verifNondetBytes("v", int(BlockSize))
			model[a] = verifClone(v)
			d.Write(a, v)
			if e != nil {
				e.Write(a, v)
			}
			v[0] ^= 0xff
			v[BlockSize-1] ^= 0xff
		case 3:
			d.Barrier()
			if e != nil {
				e.Barrier()
			}
		}
	}
	for i := range held {
		verifAssert("history/earlier-read-results-unchanged", verifBytesEq(held[i], heldWant[i]))
	}
	verifFrame(d, n, model, "history/frame")
	if e != nil {
		verifFrame(e, n, model, "history/frame-second-disk")
	}
	verifAssert("history/size", d.Size() == uint64(n))
	verifCover("c09/history")
}

func verifC09MemHistory() {
	n := 5 + 3*verifTier()
	VerifC09History(NewMemDisk(uint64(n)), nil, n, 3)
}

func verifC09MemFresh()  { n := verifChoose(4); VerifC09Fresh(NewMemDisk(uint64(n)), n) }
func verifC09MemStep()   { n := verifChoose(4); VerifC09Step(NewMemDisk(uint64(n)), n, false) }
func verifC09MemGlobal() { n := 1 + verifChoose(2); VerifC09Step(NewMemDisk(uint64(n)), n, true) }
func verifC09MemTwo()    { n := 1 + verifChoose(3); VerifC09Two(NewMemDisk(uint64(n)), n) }

// VerifC09GlobalHistory: the package-level wrappers are a pointer to "the installed disk" and nothing
// else. Two disks of different sizes, k arbitrary steps from {Init(d1), Init(d2), Size, Read, Write,
// Barrier} through the wrappers only; after every step the wrappers must behave exactly like the
// currently installed disk and the other disk must be untouched. Catches state kept beside
// implicitDisk (cached sizes, remembered buffers, a stale disk).
func VerifC09GlobalHistory(d1, d2 Disk, n1, n2, k int) {
	ds := [2]Disk{d1, d2}
	ns := [2]int{n1, n2}
	var models [2][][]byte
	for j := 0; j < 2; j++ {
		models[j] = make([][]byte, ns[j])
		for i := range models[j] {
			models[j][i] = make([]byte, BlockSize)
		}
	}
	cur := verifChoose(2)
	Init(ds[cur])
	for s := 0; s < k; s++ {
		switch verifChoose(6) {
		case 0:
			cur = 0
			Init(d1)
		case 1:
			cur = 1
			Init(d2)
		case 2:
			verifAssert("global/size-of-installed-disk", Size() == uint64(ns[cur]))
		case 3:
			a := uint64(verifChoose(ns[cur]))
			verifAssert("global/read-installed-disk", verifBytesEq(Read(a), models[cur][a]))
		case 4:
			// the highest address of the installed disk is the one a stale size gets wrong
			a := uint64(ns[cur] - 1 - verifChoose(2))
			v := verifNondetBytes("v", int(BlockSize))
			models[cur][a] = verifClone(v)
			panicked := verifTry(func() { Write(a, v) })
			verifAssert("global/write-in-range-accepted", !panicked)
		case 5:
			Barrier()
		}
		verifAssert("global/get", Get().Size() == ds[cur].Size())
	}
	verifAssert("global/size-after", Size() == uint64(ns[cur]))
	// one past the end of the installed disk is refused whatever was installed before
	verifAssert("global/oob-refused", verifTry(func() { Read(uint64(ns[cur])) }))
	verifFrame(d1, n1, models[0], "global/frame-first-disk")
	verifFrame(d2, n2, models[1], "global/frame-second-disk")
	verifCover("c09/global-history")
}

func verifC09MemGlobalHistory() {
	VerifC09GlobalHistory(NewMemDisk(3), NewMemDisk(2), 3, 2, 3+verifTier())
}
