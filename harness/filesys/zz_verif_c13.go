package filesys

import "sync"

// C13 — AtomicCreate is all-or-nothing, durable-before-visible, interference-free.

var verifDirs = []string{"d0", "d1"}
var verifNames = []string{"a", "b"}

func verifC13Setup() (DirFs, string) {
	root := verifPath("root")
	verifKernelMkdir(root)
	for _, d := range verifDirs {
		verifKernelMkdir(root + "/" + d)
	}
	return NewDirFs(root), root
}

// sameAs: the file at path has exactly the given state (absent, or present with these bytes).
func verifStateIs(path string, exists bool, want []byte) bool {
	got, ok := verifKernelFile(path)
	if !exists {
		return !ok
	}
	return verifAnd(ok, verifBytesEq(got, want))
}

// (iv) once the call returns the file contains exactly data, whatever an earlier
// interrupted call (for any directory/name) left behind.
func verifC13Leftover() {
	fs, root := verifC13Setup()
	dir0, name0 := verifDirs[verifChoose(2)], verifNames[verifChoose(2)]
	data0 := verifNondetBytes("data0", verifChoose(4))
	verifKernelCrashAt(1 + verifChoose(6))
	crashed := verifCrashed(func() { fs.AtomicCreate(dir0, name0, data0) })
	if crashed {
		verifKernelReboot()
		fs = NewDirFs(root)
	}
	dir, name := verifDirs[verifChoose(2)], verifNames[verifChoose(2)]
	data := verifNondetBytes("data", verifChoose(3))
	p := verifTry(func() { fs.AtomicCreate(dir, name, data) })
	verifAssert("leftover/completes", !p)
	verifAssert("leftover/exact-content", verifStateIs(root+"/"+dir+"/"+name, true, data))
	verifCover("c13/leftover")
}

// (i)+(ii) at every instant and after a crash at any point dir/name is as before or exactly data.
func verifC13CrashPoints() {
	fs, root := verifC13Setup()
	dir, name := "d0", "a"
	path := root + "/" + dir + "/" + name
	oldExists := verifChoose(2) == 1
	var old []byte
	if oldExists {
		old = verifNondetBytes("old", verifChoose(4))
		verifKernelPlantFile(path, old, uint64(len(old)))
	}
	data := verifNondetBytes("data", verifChoose(3))
	verifKernelCrashAt(1 + verifChoose(6))
	crashed := verifCrashed(func() { fs.AtomicCreate(dir, name, data) })
	// the instant just before the crash point (volatile state)
	verifAssert("instant/old-or-new", verifOr(verifStateIs(path, oldExists, old), verifStateIs(path, true, data)))
	if !crashed {
		verifAssert("return/exact-content", verifStateIs(path, true, data))
	}
	verifKernelReboot()
	verifAssert("crash/old-or-new", verifOr(verifStateIs(path, oldExists, old), verifStateIs(path, true, data)))
	if !crashed {
		// durable-before-visible: once the call has returned, whatever survives under the name is the data
		got, ok := verifKernelFile(path)
		verifAssert("crash/returned-call-never-exposes-unflushed-data",
			verifOr(verifStateIs(path, oldExists, old), verifAnd(ok, verifBytesEq(got, data))))
	}
	verifCover("c13/crashpoints")
}

// (iii) a single failing system call makes the call panic and leaves dir/name old-or-new.
func verifC13Faults() {
	fs, root := verifC13Setup()
	dir, name := "d0", "a"
	path := root + "/" + dir + "/" + name
	oldExists := verifChoose(2) == 1
	var old []byte
	if oldExists {
		old = verifNondetBytes("old", verifChoose(3))
		verifKernelPlantFile(path, old, uint64(len(old)))
	}
	data := verifNondetBytes("data", 1+verifChoose(2))
	verifKernelFaults(true)
	p := verifTry(func() { fs.AtomicCreate(dir, name, data) })
	verifKernelFaults(false)
	f := verifKernelFaulted()
	switch f {
	case "":
		verifAssert("fault/none-returns", !p)
		verifAssert("fault/none-content", verifStateIs(path, true, data))
	case "close":
		// a failing close is not in the property's fault list: an implementation may ignore it (the call
		// returns and the file holds data) or report it (panic; the name is old or new)
		if p {
			verifAssert("fault/close-reported-old-or-new", verifOr(verifStateIs(path, oldExists, old), verifStateIs(path, true, data)))
		} else {
			verifAssert("fault/close-content", verifStateIs(path, true, data))
		}
	default:
		verifAssert("fault/panics", p)
		verifAssert("fault/old-or-new", verifOr(verifStateIs(path, oldExists, old), verifStateIs(path, true, data)))
	}
	verifCover("c13/faults")
}

// short writes: write(2) may transfer any non-empty prefix; AtomicCreate must still install exactly
// data (longer data than the other harnesses, so that several partial writes are needed), and a
// crash anywhere in the sequence still leaves old-or-new.
func verifC13ShortWrites() {
	fs, root := verifC13Setup()
	dir, name := "d0", "a"
	path := root + "/" + dir + "/" + name
	old := verifNondetBytes("old", 2)
	verifKernelPlantFile(path, old, 2)
	data := verifNondetBytes("data", 3+verifChoose(3))
	verifKernelShortWrite(true)
	p := verifTry(func() { fs.AtomicCreate(dir, name, data) })
	verifKernelShortWrite(false)
	verifAssert("shortwrite/returns", !p)
	verifAssert("shortwrite/content", verifStateIs(path, true, data))
	verifCover("c13/shortwrite")
}

// (v) calls for different (dir,name) touch disjoint kernel paths; (durability order) fsync precedes rename.
func verifC13Disjoint() {
	fs, root := verifC13Setup()
	// two names of 252 bytes that differ only in their last byte (with the ".tmp" suffix they exceed
	// NAME_MAX: the call may refuse them, but must not make the two calls share a path), and two of
	// 251 bytes (the longest names whose staging name still fits)
	long := verifRepeat("n", 251)
	names := []string{"a", "b", "t.idx", "t.dat", "t", long + "x", long + "y", long[:250] + "p", long[:250] + "q"}
	da, na := verifDirs[verifChoose(2)], names[verifChoose(len(names))]
	db, nb := verifDirs[verifChoose(2)], names[verifChoose(len(names))]
	verifAssume(da != db || na != nb)
	verifKernelTraceReset()
	pa := verifTry(func() { fs.AtomicCreate(da, na, verifNondetBytes("x", 1)) })
	ta := verifKernelTouched()
	tr := verifKernelTrace()
	verifKernelTraceReset()
	pb := verifTry(func() { fs.AtomicCreate(db, nb, verifNondetBytes("y", 1)) })
	tb := verifKernelTouched()
	if !verifNative() {
		verifAssert("disjoint/paths", !verifSharePath(ta, tb))
		verifAssert("disjoint/short-names-accepted", verifOr(len(na) > 251, !pa) && verifOr(len(nb) > 251, !pb))
		if !pa {
			verifAssert("order/fsync-before-rename", verifBefore(tr, "fsync(", "renameat("))
			verifAssert("order/write-before-fsync", verifBefore(tr, "write(", "fsync("))
		}
	}
	mayRefuse := len(na) > 251 || len(nb) > 251 // names whose staging name exceeds NAME_MAX
	_ = root
	verifCover("c13/disjoint")
	if verifNative() { // replay only: the two calls race natively; each must end up with its own data
		for it := 0; it < 600; it++ {
			done := make(chan bool, 2)
			go func() { done <- !verifTry(func() { fs.AtomicCreate(da, na, []byte("AAAA")) }) }()
			go func() { done <- !verifTry(func() { fs.AtomicCreate(db, nb, []byte("BB")) }) }()
			ok1, ok2 := <-done, <-done
			ga, _ := verifKernelFile(root + "/" + da + "/" + na)
			gb, _ := verifKernelFile(root + "/" + db + "/" + nb)
			bad := (ok1 && string(ga) != "AAAA") || (ok2 && string(gb) != "BB")
			if !mayRefuse && (!ok1 || !ok2) {
				bad = true
			}
			if bad {
				verifAssert("disjoint/paths", false)
				return
			}
		}
	}
}

// (iv') natively replayable variant: the leftover temp file is planted directly, at both
// places an implementation may keep it (root/name.tmp and dir/name.tmp).
func verifC13PlantedLeftover() {
	fs, root := verifC13Setup()
	dir, name := verifDirs[verifChoose(2)], verifNames[verifChoose(2)]
	left := verifNondetBytes("left", verifChoose(4))
	verifKernelPlantFile(root+"/"+name+".tmp", left, uint64(len(left)))
	verifKernelPlantFile(root+"/"+dir+"/"+name+".tmp", left, uint64(len(left)))
	data := verifNondetBytes("data", verifChoose(3))
	p := verifTry(func() { fs.AtomicCreate(dir, name, data) })
	verifAssert("planted/completes", !p)
	verifAssert("planted/exact-content", verifStateIs(root+"/"+dir+"/"+name, true, data))
	verifCover("c13/planted-leftover")
}

func verifSplit(s string) []string {
	var out []string
	cur := ""
	for i := 0; i < len(s); i++ {
		if s[i] == ',' {
			out = append(out, cur)
			cur = ""
		} else {
			cur += string(s[i])
		}
	}
	if cur != "" {
		out = append(out, cur)
	}
	return out
}

func verifSharePath(a, b string) bool {
	for _, x := range verifSplit(a) {
		for _, y := range verifSplit(b) {
			if x == y {
				return true
			}
		}
	}
	return false
}

func verifIndex(s, sub string) int {
	for i := 0; i+len(sub) <= len(s); i++ {
		if s[i:i+len(sub)] == sub {
			return i
		}
	}
	return -1
}

// verifBefore: both markers occur and the first occurrence of x precedes that of y.
func verifBefore(tr, x, y string) bool {
	i, j := verifIndex(tr, x), verifIndex(tr, y)
	return i >= 0 && j >= 0 && i < j
}

// MemFs: the new content becomes visible atomically and is a copy.
func verifC13Mem() {
	fs := NewMemFs()
	fs.Mkdir("d0")
	oldExists := verifChoose(2) == 1
	if oldExists {
		fs.AtomicCreate("d0", "a", verifNondetBytes("old", verifChoose(3)))
	}
	data := verifNondetBytes("data", verifChoose(3))
	keep := verifClone(data)
	fs.AtomicCreate("d0", "a", data)
	if len(data) > 0 {
		data[0] ^= 0xff
	}
	f := fs.Open("d0", "a")
	got := fs.ReadAt(f, 0, 8)
	verifAssert("mem/exact-content", verifBytesEq(got, keep))
	verifCover("c13/mem")
}

func verifRepeat(s string, n int) string {
	out := ""
	for i := 0; i < n; i++ {
		out += s
	}
	return out
}

// (v') concurrent creators of the SAME name: whatever the interleaving of their system calls, both
// calls return and dir/name ends up with the complete data of one of them; a reader that opens the
// file afterwards never sees a mixture.
func verifC13SameName() {
	fs, root := verifC13Setup()
	path := root + "/d0/a"
	a := verifNondetBytes("A", 3)
	b := verifNondetBytes("B", 1+verifChoose(2))
	var pa, pb bool
	if !verifNative() {
		var wg sync.WaitGroup
		wg.Add(1)
		verifKernelPreempt(true)
		go func() {
			pa = verifTry(func() { fs.AtomicCreate("d0", "a", a) })
			wg.Done()
		}()
		pb = verifTry(func() { fs.AtomicCreate("d0", "a", b) })
		wg.Wait()
		verifKernelPreempt(false)
		verifAssert("samename/both-calls-return", verifAnd(!pa, !pb))
		verifAssert("samename/complete-data-of-one", verifOr(verifStateIs(path, true, a), verifStateIs(path, true, b)))
		verifCover("c13/samename")
		return
	}
	// native replay: race the two calls for real
	verifCover("c13/samename")
	for it := 0; it < 400; it++ {
		done := make(chan bool, 2)
		go func() { done <- verifTry(func() { fs.AtomicCreate("d0", "a", []byte("AAAAAAAA")) }) }()
		go func() { done <- verifTry(func() { fs.AtomicCreate("d0", "a", []byte("BB")) }) }()
		p1, p2 := <-done, <-done
		got, _ := verifKernelFile(path)
		if p1 || p2 || (string(got) != "AAAAAAAA" && string(got) != "BB") {
			verifAssert("samename/both-calls-return", !(p1 || p2))
			verifAssert("samename/complete-data-of-one", string(got) == "AAAAAAAA" || string(got) == "BB")
			return
		}
	}
}

// (i)+(ii)+(iv) together: a temporary file left behind by an interrupted call (durable, any length up
// to 4, planted at both places an implementation may keep it) AND a crash at any point of the next
// call, or right after it returned: what survives under dir/name is the old file or exactly data —
// never data followed by the tail of the leftover, whatever order the implementation flushes in.
func verifC13CrashWithLeftover() {
	fs, root := verifC13Setup()
	dir, name := "d0", "a"
	path := root + "/" + dir + "/" + name
	// thorough: leftovers up to 7 bytes, data up to 4 bytes, two more crash points
	left := verifNondetBytes("left", 1+verifChoose(4+3*verifTier()))
	verifKernelPlantFile(root+"/"+name+".tmp", left, uint64(len(left)))
	verifKernelPlantFile(path+".tmp", left, uint64(len(left)))
	oldExists := verifChoose(2) == 1
	var old []byte
	if oldExists {
		old = verifNondetBytes("old", verifChoose(3))
		verifKernelPlantFile(path, old, uint64(len(old)))
	}
	data := verifNondetBytes("data", verifChoose(3+2*verifTier()))
	verifKernelCrashAt(1 + verifChoose(8+2*verifTier()))
	crashed := verifCrashed(func() { fs.AtomicCreate(dir, name, data) })
	verifAssert("leftover-crash/instant-old-or-new", verifOr(verifStateIs(path, oldExists, old), verifStateIs(path, true, data)))
	if !crashed {
		verifAssert("leftover-crash/return-exact-content", verifStateIs(path, true, data))
	}
	verifKernelReboot()
	verifAssert("leftover-crash/old-or-new", verifOr(verifStateIs(path, oldExists, old), verifStateIs(path, true, data)))
	verifCover("c13/leftover-crash")
}
