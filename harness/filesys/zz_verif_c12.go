package filesys

// C12 — MemFs ≡ DirFs ≡ reference model on all valid histories (bounded length).

type verifHandle struct {
	mem, dir File
	ref      *verifDesc
}

type verifWorld struct {
	mem   *MemFs
	dirfs DirFs
	ref   *verifRef
	hs    []*verifHandle
	dirs  []string
	names []string
	clash bool
}

func verifNewWorld(ndirs int) *verifWorld {
	w := &verifWorld{mem: NewMemFs(), ref: &verifRef{}}
	root := verifPath("root")
	verifKernelMkdir(root)
	w.dirfs = NewDirFs(root)
	w.dirs = []string{"d0", "d1"}[:ndirs]
	w.names = []string{"a", "b"}
	for _, d := range w.dirs {
		w.mem.Mkdir(d)
		w.dirfs.Mkdir(d)
	}
	return w
}

// assert is verifAssert outside the region of the recorded finding C12/atomiccreate-staging-name:
// once AtomicCreate(d, n) has run while a user file n+".tmp" existed in d (or had an open
// descriptor), DirFs has truncated and renamed that file and the two file systems differ.
func (w *verifWorld) assert(label string, c bool) {
	verifAssertExcept(label, c, "C12/atomiccreate-staging-name", w.clash)
}

func (w *verifWorld) pickDir() string  { return w.dirs[verifChoose(len(w.dirs))] }
func (w *verifWorld) pickName() string { return w.names[verifChoose(len(w.names))] }

func (w *verifWorld) pickHandle(mode int) *verifHandle {
	var cands []*verifHandle
	for _, h := range w.hs {
		if h.ref.mode == mode {
			cands = append(cands, h)
		}
	}
	if len(cands) == 0 {
		verifAssume(false)
	}
	return cands[verifChoose(len(cands))]
}

// step performs one operation on all three systems and compares the observable results.
func (w *verifWorld) step(maxData int) {
	switch verifChoose(9) {
	case 0: // Create
		d, n := w.pickDir(), w.pickName()
		rd, rok := w.ref.create(d, n)
		var mf, df File
		var mok, dok bool
		w.valid("create", func() { mf, mok = w.mem.Create(d, n) }, func() { df, dok = w.dirfs.Create(d, n) })
		w.assert("create/mem-ok", mok == rok)
		w.assert("create/dir-ok", dok == rok)
		if rok {
			w.hs = append(w.hs, &verifHandle{mem: mf, dir: df, ref: rd})
		}
		verifCover("c12/create")
	case 1: // Append
		h := w.pickHandle(1)
		data := verifNondetBytes("data", verifChoose(maxData+1))
		keep := verifClone(data)
		w.ref.appendTo(h.ref, data)
		w.valid("append", func() { w.mem.Append(h.mem, data) }, func() { w.dirfs.Append(h.dir, data) })
		w.assert("append/arg-untouched", verifBytesEq(data, keep))
		if len(data) > 0 { // the implementation must not retain the caller's slice
			data[0] ^= 0xff
		}
		verifCover("c12/append")
	case 2: // Close
		var cands []*verifHandle
		for _, h := range w.hs {
			if h.ref.mode != 0 {
				cands = append(cands, h)
			}
		}
		if len(cands) == 0 {
			verifAssume(false)
		}
		h := cands[verifChoose(len(cands))]
		h.ref.mode = 0
		w.valid("close", func() { w.mem.Close(h.mem) }, func() { w.dirfs.Close(h.dir) })
		verifCover("c12/close")
	case 3: // Open
		d, n := w.pickDir(), w.pickName()
		verifAssume(w.ref.exists(d, n))
		w.open(d, n)
		verifCover("c12/open")
	case 4: // ReadAt with fully symbolic offset and length
		h := w.pickHandle(2)
		w.readAt(h, verifNondetU64("off"), verifNondetU64("len"))
		verifCover("c12/readat")
	case 5: // Delete
		d, n := w.pickDir(), w.pickName()
		verifAssume(w.ref.exists(d, n))
		w.ref.remove(d, n)
		w.valid("delete", func() { w.mem.Delete(d, n) }, func() { w.dirfs.Delete(d, n) })
		verifCover("c12/delete")
	case 6: // Link
		od, on, nd, nn := w.pickDir(), w.pickName(), w.pickDir(), w.pickName()
		verifAssume(w.ref.exists(od, on))
		rok := w.ref.link(od, on, nd, nn)
		var mok, dok bool
		w.valid("link", func() { mok = w.mem.Link(od, on, nd, nn) }, func() { dok = w.dirfs.Link(od, on, nd, nn) })
		w.assert("link/mem-ok", mok == rok)
		w.assert("link/dir-ok", dok == rok)
		verifCover("c12/link")
	case 7: // AtomicCreate
		d, n := w.pickDir(), w.pickName()
		data := verifNondetBytes("adata", verifChoose(maxData+1))
		keep := verifClone(data)
		if w.ref.exists(d, n+".tmp") {
			w.clash = true
		}
		w.ref.atomicCreate(d, n, data)
		w.valid("atomiccreate", func() { w.mem.AtomicCreate(d, n, data) }, func() { w.dirfs.AtomicCreate(d, n, data) })
		w.assert("atomiccreate/arg-untouched", verifBytesEq(data, keep))
		if len(data) > 0 {
			data[0] ^= 0xff
		}
		verifCover("c12/atomiccreate")
	case 8: // List
		w.list(w.pickDir())
		verifCover("c12/list")
	}
}

// valid runs one operation of a valid history on both implementations: neither may panic.
func (w *verifWorld) valid(op string, mem, dir func()) {
	pm := verifTry(mem)
	pd := verifTry(dir)
	w.assert(op+"/mem-accepts-valid-call", !pm)
	w.assert(op+"/dir-accepts-valid-call", !pd)
	verifAssume(verifAnd(!pm, !pd))
}

func (w *verifWorld) open(d, n string) *verifHandle {
	h := &verifHandle{ref: w.ref.open(d, n)}
	w.valid("open", func() { h.mem = w.mem.Open(d, n) }, func() { h.dir = w.dirfs.Open(d, n) })
	w.hs = append(w.hs, h)
	return h
}

func (w *verifWorld) readAt(h *verifHandle, off, length uint64) { w.readAtN(h, off, length, 4) }

func (w *verifWorld) readAtN(h *verifHandle, off, length, maxLen uint64) {
	verifAssume(off < 1<<63) // representable as off_t
	verifAssume(length <= maxLen)
	want := w.ref.readAt(h.ref, off, length)
	var gm, gd []byte
	w.valid("readat", func() { gm = w.mem.ReadAt(h.mem, off, length) }, func() { gd = w.dirfs.ReadAt(h.dir, off, length) })
	w.assert("readat/mem", verifBytesEq(gm, want))
	w.assert("readat/dir", verifBytesEq(gd, want))
	if len(gm) > 0 { // returned slices are caller-owned
		gm[0] ^= 0xff
	}
	if len(gd) > 0 {
		gd[0] ^= 0xff
	}
}

func (w *verifWorld) list(d string) {
	want := verifJoin(w.ref.list(d))
	var lm, ld []string
	w.valid("list", func() { lm = w.mem.List(d) }, func() { ld = w.dirfs.List(d) })
	w.assert("list/mem", verifJoin(verifSorted(lm)) == want)
	w.assert("list/dir", verifJoin(verifSorted(ld)) == want)
}

// observe compares everything still observable: listings, and the full content of every name.
func (w *verifWorld) observe() {
	for _, d := range w.dirs {
		w.list(d)
		for _, n := range w.names {
			if !w.ref.exists(d, n) {
				continue
			}
			h := w.open(d, n)
			total := uint64(len(h.ref.ino.data))
			w.readAtN(h, 0, total+1, total+1)
		}
	}
	// descriptors that are still open for reading keep seeing their (possibly unlinked) file
	for _, h := range w.hs {
		if h.ref.mode == 2 {
			total := uint64(len(h.ref.ino.data))
			w.readAtN(h, 0, total+1, total+1)
		}
	}
}

// scripted operations for the scenario harness (same comparisons as step)
func (w *verifWorld) create(d, n string) *verifHandle {
	rd, rok := w.ref.create(d, n)
	var mf, df File
	var mok, dok bool
	w.valid("create", func() { mf, mok = w.mem.Create(d, n) }, func() { df, dok = w.dirfs.Create(d, n) })
	w.assert("create/mem-ok", mok == rok)
	w.assert("create/dir-ok", dok == rok)
	if !rok {
		return nil
	}
	h := &verifHandle{mem: mf, dir: df, ref: rd}
	w.hs = append(w.hs, h)
	return h
}

func (w *verifWorld) appendTo(h *verifHandle, data []byte) {
	keep := verifClone(data)
	w.ref.appendTo(h.ref, data)
	w.valid("append", func() { w.mem.Append(h.mem, data) }, func() { w.dirfs.Append(h.dir, data) })
	w.assert("append/arg-untouched", verifBytesEq(data, keep))
	if len(data) > 0 {
		data[0] ^= 0xff
	}
}

func (w *verifWorld) closeH(h *verifHandle) {
	h.ref.mode = 0
	w.valid("close", func() { w.mem.Close(h.mem) }, func() { w.dirfs.Close(h.dir) })
}

func (w *verifWorld) del(d, n string) {
	w.ref.remove(d, n)
	w.valid("delete", func() { w.mem.Delete(d, n) }, func() { w.dirfs.Delete(d, n) })
}

func (w *verifWorld) link(od, on, nd, nn string) {
	rok := w.ref.link(od, on, nd, nn)
	var mok, dok bool
	w.valid("link", func() { mok = w.mem.Link(od, on, nd, nn) }, func() { dok = w.dirfs.Link(od, on, nd, nn) })
	w.assert("link/mem-ok", mok == rok)
	w.assert("link/dir-ok", dok == rok)
}

func (w *verifWorld) atomic(d, n string, data []byte) {
	w.ref.atomicCreate(d, n, data)
	w.valid("atomiccreate", func() { w.mem.AtomicCreate(d, n, data) }, func() { w.dirfs.AtomicCreate(d, n, data) })
}

// read of a fixed length at a symbolic offset in [lo, hi]
func (w *verifWorld) readWindow(h *verifHandle, lo, hi, length uint64) {
	off := verifNondetU64("off")
	verifAssume(off >= lo)
	verifAssume(off <= hi)
	w.readAtN(h, off, length, length)
}

// verifC12Scenarios: longer scripted histories with symbolic data and read windows — patterns a
// history of length ≤ 5 over two names does not reach (state kept across many operations,
// descriptor numbers ≥ 4, files longer than a few bytes or than 4096 bytes, many directory entries).
func verifC12Scenarios() {
	w := verifNewWorld(2)
	w.names = []string{"a", "b", "c", "d", "e", "f"}
	switch verifChoose(6) {
	case 0: // delete and re-create under an open read descriptor
		h := w.create("d0", "a")
		w.appendTo(h, verifNondetBytes("x", 3))
		w.closeH(h)
		r1 := w.open("d0", "a")
		w.del("d0", "a")
		h2 := w.create("d0", "a")
		w.appendTo(h2, verifNondetBytes("y", 2))
		w.readWindow(r1, 0, 3, 3)
		w.closeH(h2)
		r2 := w.open("d0", "a")
		w.readWindow(r2, 0, 2, 2)
		w.readWindow(r1, 0, 3, 3)
	case 1: // two links, then the original name goes away
		h := w.create("d0", "a")
		w.appendTo(h, verifNondetBytes("x", 2))
		w.closeH(h)
		w.link("d0", "a", "d1", "b")
		w.link("d0", "a", "d0", "c")
		w.del("d0", "a")
		w.link("d0", "c", "d1", "b") // target exists
		rb := w.open("d1", "b")
		w.readWindow(rb, 0, 2, 2)
		w.del("d1", "b")
		w.list("d0")
		w.list("d1")
		w.readWindow(rb, 0, 2, 2)
	case 2: // descriptor churn: numbers grow past 4, closed ones are never confused with open ones
		h := w.create("d0", "a")
		w.appendTo(h, verifNondetBytes("x", 2))
		w.closeH(h)
		g := w.create("d0", "b")
		w.appendTo(g, verifNondetBytes("y", 1))
		r1 := w.open("d0", "a")
		r2 := w.open("d0", "a")
		r3 := w.open("d0", "a")
		w.closeH(r2)
		w.appendTo(g, verifNondetBytes("z", 1))
		w.closeH(g)
		r4 := w.open("d0", "b")
		r5 := w.open("d0", "a")
		w.closeH(r1)
		w.readWindow(r3, 0, 2, 2)
		w.readWindow(r4, 0, 2, 2)
		w.readAtN(r5, 1, 2, 2)
	case 3: // a file of 9 bytes written in two appends, re-read through a fresh descriptor
		h := w.create("d1", "e")
		w.appendTo(h, verifNondetBytes("x", 5))
		r0 := w.open("d1", "e")
		w.appendTo(h, verifNondetBytes("y", 4))
		w.closeH(h)
		w.readWindow(r0, 3, 6, 9)
		r1 := w.open("d1", "e")
		w.readWindow(r1, 4, 5, 3)
	case 4: // a file longer than 4096 bytes, read across that offset
		h := w.create("d0", "f")
		w.appendTo(h, verifNondetBytes("big", 4094))
		w.appendTo(h, verifNondetBytes("tail", 5))
		r0 := w.open("d0", "f")
		w.readWindow(r0, 4092, 4097, 6)
		w.appendTo(h, verifNondetBytes("more", 4200)) // 8299 bytes: three 4096-byte chunks
		w.closeH(h)
		r := w.open("d0", "f")
		w.readWindow(r, 0, 2, 8297)
		w.readWindow(r, 4090, 4091, 4200)
		w.readAtN(r, 1, 3, 3)
	case 5: // six entries in one directory, one of them removed, one replaced atomically
		for _, n := range w.names {
			h := w.create("d0", n)
			w.appendTo(h, verifNondetBytes("c", 1))
			w.closeH(h)
		}
		w.list("d0")
		w.del("d0", w.names[verifChoose(len(w.names))])
		w.list("d0")
		w.atomic("d0", w.names[verifChoose(len(w.names))], verifNondetBytes("n", 2))
		w.list("d0")
	}
	w.observe()
	verifCover("c12/history")
}

func verifC12History(k, ndirs, maxData int) {
	w := verifNewWorld(ndirs)
	for i := 0; i < k; i++ {
		w.step(maxData)
	}
	w.observe()
	verifCover("c12/history")
}

// names that look like AtomicCreate's staging files, hidden files, and names with extensions
func verifC12OddNames() {
	w := verifNewWorld(1)
	w.names = [][]string{{"a", "a.tmp"}, {".tmp", "b.txt"}, {".a", "a~"}}[verifChoose(3)]
	for i := 0; i < 2; i++ {
		w.step(1)
	}
	w.observe()
	verifCover("c12/history")
}

func verifC12Quick()    { verifC12History(3, 1, 1) }
func verifC12TwoDirs()  { verifC12History(2, 2, 2) }
func verifC12Thorough() { verifC12History(4, 1, 1) }
func verifC12K5()       { verifC12History(5, 1, 1) }
func verifC12TwoDirs3() { verifC12History(3, 2, 2) }

// the kernel hands out directory entries in arbitrary chunks (getdents may return fewer entries
// than fit): List must keep reading until the end of the directory
func verifC12ShortDir() {
	w := verifNewWorld(1)
	w.names = []string{"a", "b", "c", "d"}
	n := 2 + verifChoose(3)
	for _, nm := range w.names[:n] {
		h := w.create("d0", nm)
		w.closeH(h)
	}
	verifKernelShortDir(true)
	w.list("d0")
	w.del("d0", "a")
	w.list("d0")
	verifKernelShortDir(false)
	verifCover("c12/list")
}
