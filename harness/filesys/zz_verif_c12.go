package filesys

// C12 — MemFs ≡ DirFs ≡ reference model on all valid histories (bounded length).

type verifHandle struct {
	mem, dir File
	ref      *verifDesc
}

type verifWorld struct {
	mem   *MemFs
	dirfs DirFs
	ref   *verifRef
	hs    []*verifHandle
	dirs  []string
	names []string
	clash bool
}

func verifNewWorld(ndirs int) *verifWorld {
	w := &verifWorld{mem: NewMemFs(), ref: &verifRef{}}
	root := verifPath("root")
	verifKernelMkdir(root)
	w.dirfs = NewDirFs(root)
	w.dirs = []string{"d0", "d1"}[:ndirs]
	w.names = []string{"a", "b"}
	for _, d := range w.dirs {
		w.mem.Mkdir(d)
		w.dirfs.Mkdir(d)
	}
	return w
}

// assert is verifAssert outside the region of the recorded finding C12/atomiccreate-staging-name:
// once AtomicCreate(d, n) has run while a user file n+".tmp" existed in d (or had an open
// descriptor), DirFs has truncated and renamed that file and the two file systems differ.
func (w *verifWorld) assert(label string, c bool) {
	verifAssertExcept(label, c, "C12/atomiccreate-staging-name", w.clash)
}

func (w *verifWorld) pickDir() string  { return w.dirs[verifChoose(len(w.dirs))] }
func (w *verifWorld) pickName() string { return w.names[verifChoose(len(w.names))] }

func (w *verifWorld) pickHandle(mode int) *verifHandle {
	var cands []*verifHandle
	for _, h := range w.hs {
		if h.ref.mode == mode {
			cands = append(cands, h)
		}
	}
	if len(cands) == 0 {
		verifAssume(false)
	}
	return cands[verifChoose(len(cands))]
}

// step performs one operation on all three systems and compares the observable results.
func (w *verifWorld) step(maxData int) {
	switch verifChoose(9) {
	case 0: // Create
		d, n := w.pickDir(), w.pickName()
		rd, rok := w.ref.create(d, n)
		var mf, df File
		var mok, dok bool
		w.valid("create", func() { mf, mok = w.mem.Create(d, n) }, func() { df, dok = w.dirfs.Create(d, n) })
		w.assert("create/mem-ok", mok == rok)
		w.assert("create/dir-ok", dok == rok)
		if rok {
			w.hs = append(w.hs, &verifHandle{mem: mf, dir: df, ref: rd})
		}
		verifCover("c12/create")
	case 1: // Append
		h := w.pickHandle(1)
		data := verifNondetBytes("data", verifChoose(maxData+1))
		keep := verifClone(data)
		w.ref.appendTo(h.ref, data)
		w.valid("append", func() { w.mem.Append(h.mem, data) }, func() { w.dirfs.Append(h.dir, data) })
		w.assert("append/arg-untouched", verifBytesEq(data, keep))
		if len(data) > 0 { // the implementation must not retain the caller's slice
			data[0] ^= 0xff
		}
		verifCover("c12/append")
	case 2: // Close
		var cands []*verifHandle
		for _, h := range w.hs {
			if h.ref.mode != 0 {
				cands = append(cands, h)
			}
		}
		if len(cands) == 0 {
			verifAssume(false)
		}
		h := cands[verifChoose(len(cands))]
		h.ref.mode = 0
		w.valid("close", func() { w.mem.Close(h.mem) }, func() { w.dirfs.Close(h.dir) })
		verifCover("c12/close")
	case 3: // Open
		d, n := w.pickDir(), w.pickName()
		verifAssume(w.ref.exists(d, n))
		w.open(d, n)
		verifCover("c12/open")
	case 4: // ReadAt with fully symbolic offset and length
		h := w.pickHandle(2)
		w.readAt(h, verifNondetU64("off"), verifNondetU64("len"))
		verifCover("c12/readat")
	case 5: // Delete
		d, n := w.pickDir(), w.pickName()
		verifAssume(w.ref.exists(d, n))
		w.ref.remove(d, n)
		w.valid("delete", func() { w.mem.Delete(d, n) }, func() { w.dirfs.Delete(d, n) })
		verifCover("c12/delete")
	case 6: // Link
		od, on, nd, nn := w.pickDir(), w.pickName(), w.pickDir(), w.pickName()
		verifAssume(w.ref.exists(od, on))
		rok := w.ref.link(od, on, nd, nn)
		var mok, dok bool
		w.valid("link", func() { mok = w.mem.Link(od, on, nd, nn) }, func() { dok = w.dirfs.Link(od, on, nd, nn) })
		w.assert("link/mem-ok", mok == rok)
		w.assert("link/dir-ok", dok == rok)
		verifCover("c12/link")
	case 7: // AtomicCreate
		d, n := w.pickDir(), w.pickName()
		data := verifNondetBytes("adata", verifChoose(maxData+1))
		keep := verifClone(data)
		if w.ref.exists(d, n+".tmp") {
			w.clash = true
		}
		w.ref.atomicCreate(d, n, data)
		w.valid("atomiccreate", func() { w.mem.AtomicCreate(d, n, data) }, func() { w.dirfs.AtomicCreate(d, n, data) })
		w.assert("atomiccreate/arg-untouched", verifBytesEq(data, keep))
		if len(data) > 0 {
			data[0] ^= 0xff
		}
		verifCover("c12/atomiccreate")
	case 8: // List
		w.list(w.pickDir())
		verifCover("c12/list")
	}
}

// valid runs one operation of a valid history on both implementations: neither may panic.
func (w *verifWorld) valid(op string, mem, dir func()) {
	pm := verifTry(mem)
	pd := verifTry(dir)
	w.assert(op+"/mem-accepts-valid-call", !pm)
	w.assert(op+"/dir-accepts-valid-call", !pd)
	verifAssume(verifAnd(!pm, !pd))
}

func (w *verifWorld) open(d, n string) *verifHandle {
	h := &verifHandle{ref: w.ref.open(d, n)}
	w.valid("open", func() { h.mem = w.mem.Open(d, n) }, func() { h.dir = w.dirfs.Open(d, n) })
	w.hs = append(w.hs, h)
	return h
}

func (w *verifWorld) readAt(h *verifHandle, off, length uint64) {
	verifAssume(off < 1<<63) // representable as off_t
	verifAssume(length <= 4)
	want := w.ref.readAt(h.ref, off, length)
	var gm, gd []byte
	w.valid("readat", func() { gm = w.mem.ReadAt(h.mem, off, length) }, func() { gd = w.dirfs.ReadAt(h.dir, off, length) })
	w.assert("readat/mem", verifBytesEq(gm, want))
	w.assert("readat/dir", verifBytesEq(gd, want))
	if len(gm) > 0 { // returned slices are caller-owned
		gm[0] ^= 0xff
	}
	if len(gd) > 0 {
		gd[0] ^= 0xff
	}
}

func (w *verifWorld) list(d string) {
	want := verifJoin(w.ref.list(d))
	var lm, ld []string
	w.valid("list", func() { lm = w.mem.List(d) }, func() { ld = w.dirfs.List(d) })
	w.assert("list/mem", verifJoin(verifSorted(lm)) == want)
	w.assert("list/dir", verifJoin(verifSorted(ld)) == want)
}

// observe compares everything still observable: listings, and the full content of every name.
func (w *verifWorld) observe() {
	for _, d := range w.dirs {
		w.list(d)
		for _, n := range w.names {
			if !w.ref.exists(d, n) {
				continue
			}
			h := w.open(d, n)
			total := uint64(len(h.ref.ino.data))
			w.readAt(h, 0, total+1)
		}
	}
	// descriptors that are still open for reading keep seeing their (possibly unlinked) file
	for _, h := range w.hs {
		if h.ref.mode == 2 {
			total := uint64(len(h.ref.ino.data))
			w.readAt(h, 0, total+1)
		}
	}
}

func verifC12History(k, ndirs, maxData int) {
	w := verifNewWorld(ndirs)
	for i := 0; i < k; i++ {
		w.step(maxData)
	}
	w.observe()
	verifCover("c12/history")
}

// names that look like AtomicCreate's staging files, hidden files, and names with extensions
func verifC12OddNames() {
	w := verifNewWorld(1)
	w.names = [][]string{{"a", "a.tmp"}, {".tmp", "b.txt"}, {".a", "a~"}}[verifChoose(3)]
	for i := 0; i < 2; i++ {
		w.step(1)
	}
	w.observe()
	verifCover("c12/history")
}

func verifC12Quick()    { verifC12History(3, 1, 1) }
func verifC12TwoDirs()  { verifC12History(2, 2, 2) }
func verifC12Thorough() { verifC12History(4, 1, 1) }
func verifC12K5()       { verifC12History(5, 1, 1) }
func verifC12TwoDirs3() { verifC12History(3, 2, 2) }
