package filesys

// Reference model of the Filesys interface (C12): independent descriptors, hard links
// share an inode, deleted files stay readable through open descriptors, ReadAt returns
// exactly the existing bytes of [offset, offset+length), no aliasing, List = exact name set.

type verifInode struct{ data []byte }

type verifDesc struct {
	ino  *verifInode
	mode int // 0 closed, 1 append, 2 read
}

type verifEntry struct {
	dir, name string
	ino       *verifInode
}

type verifRef struct {
	entries []verifEntry
	descs   []*verifDesc
}

func (r *verifRef) find(dir, name string) int {
	for i, e := range r.entries {
		if e.dir == dir && e.name == name {
			return i
		}
	}
	return -1
}

func (r *verifRef) exists(dir, name string) bool { return r.find(dir, name) >= 0 }

func (r *verifRef) create(dir, name string) (*verifDesc, bool) {
	if r.exists(dir, name) {
		return nil, false
	}
	ino := &verifInode{}
	r.entries = append(r.entries, verifEntry{dir, name, ino})
	d := &verifDesc{ino: ino, mode: 1}
	r.descs = append(r.descs, d)
	return d, true
}

func (r *verifRef) open(dir, name string) *verifDesc {
	d := &verifDesc{ino: r.entries[r.find(dir, name)].ino, mode: 2}
	r.descs = append(r.descs, d)
	return d
}

func (r *verifRef) appendTo(d *verifDesc, data []byte) {
	d.ino.data = append(verifClone(d.ino.data), data...)
}

func (r *verifRef) readAt(d *verifDesc, off, length uint64) []byte {
	n := uint64(len(d.ino.data))
	if off >= n {
		return nil
	}
	end := off + length
	if end > n || end < off {
		end = n
	}
	return verifClone(d.ino.data[off:end])
}

func (r *verifRef) remove(dir, name string) {
	i := r.find(dir, name)
	r.entries = append(append([]verifEntry{}, r.entries[:i]...), r.entries[i+1:]...)
}

func (r *verifRef) atomicCreate(dir, name string, data []byte) {
	if i := r.find(dir, name); i >= 0 {
		r.remove(dir, name)
	}
	r.entries = append(r.entries, verifEntry{dir, name, &verifInode{data: verifClone(data)}})
}

func (r *verifRef) link(od, on, nd, nn string) bool {
	if r.exists(nd, nn) {
		return false
	}
	r.entries = append(r.entries, verifEntry{nd, nn, r.entries[r.find(od, on)].ino})
	return true
}

func (r *verifRef) list(dir string) []string {
	var out []string
	for _, e := range r.entries {
		if e.dir == dir {
			out = append(out, e.name)
		}
	}
	return verifSorted(out)
}

func verifSorted(in []string) []string {
	out := append([]string{}, in...)
	for i := 1; i < len(out); i++ {
		for j := i; j > 0 && out[j] < out[j-1]; j-- {
			out[j], out[j-1] = out[j-1], out[j]
		}
	}
	return out
}

func verifJoin(ss []string) string {
	r := ""
	for _, s := range ss {
		r += s + ","
	}
	return r
}
