package filesys

import "sync"

// C14 — filesystem operations are linearizable under concurrency (modular: lock-discipline VCs).

func verifC14MemOp(fs *MemFs, op int, fa, fr File, data []byte, off, length uint64, dir, name string) {
	switch op {
	case 0:
		fs.Create(dir, name)
	case 1:
		fs.Append(fa, data)
	case 2:
		fs.Close(fr)
	case 3:
		fs.Open(dir, name)
	case 4:
		fs.ReadAt(fr, off, length)
	case 5:
		fs.Delete(dir, name)
	case 6:
		fs.AtomicCreate(dir, name, data)
	case 7:
		fs.Link("d0", "a", dir, name)
	case 8:
		fs.List(dir)
	case 9:
		fs.Mkdir(dir)
	case 10: // misuse: append through a read descriptor, read through an append descriptor
		fs.Append(fr, data)
	case 11:
		fs.ReadAt(fa, off, length)
	case 12:
		fs.Close(File(77))
	}
}

func verifC14MemDiscipline() {
	fs := NewMemFs()
	fs.Mkdir("d0")
	fs.AtomicCreate("d0", "a", verifNondetBytes("a", 2))
	fa, _ := fs.Create("d0", "b")
	fs.Append(fa, verifNondetBytes("b", 1))
	fr := fs.Open("d0", "a")

	op := verifChoose(13)
	dir := []string{"d0", "nodir"}[verifChoose(2)]
	name := []string{"a", "b", "c"}[verifChoose(3)]
	data := verifNondetBytes("data", verifChoose(3))
	off := verifNondetU64("off")
	length := verifNondetU64("len")
	verifAssume(length <= 3)

	verifGuardedBy(fs)
	verifSharedReach(fs)
	verifMonitor(true)
	verifTry(func() { verifC14MemOp(fs, op, fa, fr, data, off, length, dir, name) })
	verifMonitor(false)

	verifAssert("mem/accesses-protected", verifUnprotected() == 0)
	verifAssert("mem/lock-released-on-every-exit", verifLocksFree())
	verifAssert("mem/one-critical-section", verifSections() <= 1)
	verifCover("c14/mem")

	if verifNative() { // replay only: the operation races with itself and with a writer under -race
		var wg sync.WaitGroup
		for g := 0; g < 2; g++ {
			wg.Add(1)
			go func() {
				defer wg.Done()
				for k := 0; k < 100; k++ {
					verifTry(func() { verifC14MemOp(fs, op, fa, fr, verifClone(data), off, length, dir, name) })
					verifTry(func() { fs.AtomicCreate("d0", "z", []byte{1}) })
				}
			}()
		}
		wg.Wait()
	}
}

// descriptor numbers handed out are distinct from all descriptors currently open
func verifC14MemDistinctFds() {
	fs := NewMemFs()
	fs.Mkdir("d0")
	fs.AtomicCreate("d0", "a", nil)
	var open []File
	for i := 0; i < 4; i++ {
		switch verifChoose(3) {
		case 0:
			f, ok := fs.Create("d0", []string{"b", "c"}[verifChoose(2)])
			if ok {
				for _, g := range open {
					verifAssert("mem/descriptors-distinct", f != g)
				}
				open = append(open, f)
			}
		case 1:
			f := fs.Open("d0", "a")
			for _, g := range open {
				verifAssert("mem/descriptors-distinct", f != g)
			}
			open = append(open, f)
		case 2:
			if len(open) > 0 {
				k := verifChoose(len(open))
				fs.Close(open[k])
				open = append(append([]File{}, open[:k]...), open[k+1:]...)
			}
		}
	}
	verifCover("c14/mem-fds")
}

// DirFs: every operation except AtomicCreate and List is exactly one system call;
// creation is exclusive in the kernel (O_CREAT|O_EXCL); no Go-level shared mutable state.
func verifC14DirSingleSyscall() {
	fs, root := verifC13Setup()
	_ = root
	fs.AtomicCreate("d0", "a", verifNondetBytes("a", 2))
	fa, _ := fs.Create("d0", "b")
	fr := fs.Open("d0", "a")
	name := []string{"a", "b", "c"}[verifChoose(3)]
	op := verifChoose(7)
	verifKernelTraceReset()
	n0 := verifKernelSyscalls()
	p0 := verifKernelCount("pread")
	var want string
	verifTry(func() {
		switch op {
		case 0:
			fs.Create("d0", name)
			want = "openat("
		case 1:
			fs.Append(fa, verifNondetBytes("d", 1+verifChoose(2)))
			want = "write("
		case 2:
			fs.Close(fr)
			want = "close("
		case 3:
			fs.Open("d0", name)
			want = "openat("
		case 4:
			fs.ReadAt(fr, verifNondetU64("off")%4, 2)
			want = "pread("
		case 5:
			fs.Delete("d0", name)
			want = "unlinkat("
		case 6:
			fs.Link("d0", "a", "d1", name)
			want = "linkat("
		}
	})
	tr := verifKernelTrace()
	if op == 4 {
		// files only grow and their bytes never change, so a ReadAt made of several preads (a loop
		// for short reads) still returns a prefix-consistent snapshot: any number of preads, nothing else
		verifAssert("dir/readat-only-preads", verifKernelSyscalls()-n0 >= 1 && verifKernelSyscalls()-n0 == verifKernelCount("pread")-p0)
	} else {
		// exactly one call that can change or observe what other operations see (closes, fstats and
		// read-only opens of directories for a path lookup do not count)
		if op == 2 { // Close is itself a close
			verifAssert("dir/exactly-one-syscall", verifKernelSyscalls()-n0 == 1)
		} else {
			verifAssert("dir/exactly-one-syscall", verifKernelEffectful() == 1)
		}
	}
	verifAssert("dir/the-expected-syscall", verifIndex(tr, want) >= 0)
	if op == 0 {
		// 0xc1 = O_CREAT|O_EXCL|O_WRONLY: exactly-once creation is the kernel's
		verifAssert("dir/create-is-exclusive", verifIndex(tr, "0xc1") > 0)
	}
	verifAssert("dir/no-go-level-shared-state", verifAnd(verifProtected() == 0, verifUnprotected() == 0))
	verifCover("c14/dir")
}

func verifHas(l []string, n string) bool {
	for _, x := range l {
		if x == n {
			return true
		}
	}
	return false
}

// verifC14DirConcurrent: DirFs operations of two threads interleaved at every system call (and at
// every Go synchronisation operation the implementation may use), with the happens-before race
// check on Go-level state. The results must be explained by some order of the operations that
// respects what had already returned: a List issued after a Create returned shows the file; of two
// Creates of one name exactly one wins; a reader racing with AtomicCreate or Delete sees the old or
// the new content as a whole.
func verifC14DirConcurrent() {
	fs, root := verifC13Setup()
	_ = root
	old := verifNondetBytes("old", 2)
	fs.AtomicCreate("d0", "a", old)
	var wg sync.WaitGroup
	wg.Add(1)
	verifKernelPreempt(true)
	verifRaceDetect(true)
	switch verifChoose(4) {
	case 0:
		var l1, l2 []string
		go func() {
			l1 = fs.List("d0")
			wg.Done()
		}()
		f, ok := fs.Create("d0", "x")
		if ok {
			fs.Close(f)
		}
		l2 = fs.List("d0")
		wg.Wait()
		verifAssert("dirconc/list-after-create-shows-the-file", verifHas(l2, "x") && verifHas(l2, "a"))
		verifAssert("dirconc/concurrent-list-shows-older-files", verifHas(l1, "a"))
	case 1:
		var ok1, ok2 bool
		go func() {
			var f File
			f, ok1 = fs.Create("d0", "x")
			if ok1 {
				fs.Close(f)
			}
			wg.Done()
		}()
		var g File
		g, ok2 = fs.Create("d0", "x")
		if ok2 {
			fs.Close(g)
		}
		wg.Wait()
		verifAssert("dirconc/create-exactly-one-wins", ok1 != ok2)
	case 2:
		nw := verifNondetBytes("new", 3)
		var got []byte
		go func() {
			r := fs.Open("d0", "a")
			got = fs.ReadAt(r, 0, 4)
			fs.Close(r)
			wg.Done()
		}()
		fs.AtomicCreate("d0", "a", nw)
		wg.Wait()
		verifAssert("dirconc/reader-sees-old-or-new", verifOr(verifBytesEq(got, old), verifBytesEq(got, nw)))
	case 3:
		var got []byte
		var missing bool
		go func() {
			missing = verifTry(func() {
				r := fs.Open("d0", "a")
				got = fs.ReadAt(r, 0, 4)
				fs.Close(r)
			})
			wg.Done()
		}()
		fs.Delete("d0", "a")
		wg.Wait()
		verifAssert("dirconc/reader-sees-old-or-nothing", verifOr(missing, verifBytesEq(got, old)))
	}
	verifRaceDetect(false)
	verifKernelPreempt(false)
	verifAssert("dirconc/no-data-race", verifRaces() == 0)
	verifCover("c14/dirconc")
}

// verifC14MemConcurrent: two MemFs operations run concurrently under the scheduler (every
// interleaving at synchronisation points) with the happens-before race check; the results must be
// explained by one of the two sequential orders. Unlike the lock-discipline conditions this does
// not presuppose how the implementation synchronises.
func verifC14MemConcurrent() {
	fs := NewMemFs()
	fs.Mkdir("d0")
	fs.Mkdir("d1")
	old := verifNondetBytes("old", 2)
	fs.AtomicCreate("d0", "a", old)
	fb, _ := fs.Create("d0", "b")
	var wg sync.WaitGroup
	wg.Add(1)
	verifRaceDetect(true)
	switch verifChoose(8) {
	case 7: // a link into another directory against a replacement of its source, observed by a listing
		nw := verifNondetBytes("new", 3)
		var ok bool
		go func() {
			ok = fs.Link("d0", "a", "d1", "c")
			wg.Done()
		}()
		fs.AtomicCreate("d0", "a", nw)
		l := fs.List("d1")
		wg.Wait()
		verifAssert("conc/link-succeeds", ok)
		r := fs.Open("d1", "c")
		got := fs.ReadAt(r, 0, 4)
		verifAssert("conc/link-target-is-old-or-new", verifOr(verifBytesEq(got, old), verifBytesEq(got, nw)))
		// not yet listed after the replacement had returned ⇒ the link took effect later ⇒ it links the new file
		verifAssert("conc/link-takes-effect-at-one-point", verifOr(verifHas(l, "c"), verifBytesEq(got, nw)))
	case 0: // two creates of one name: exactly one wins
		var ok1, ok2 bool
		go func() {
			_, ok1 = fs.Create("d0", "x")
			wg.Done()
		}()
		_, ok2 = fs.Create("d0", "x")
		wg.Wait()
		verifAssert("conc/create-exactly-one-wins", ok1 != ok2)
	case 1: // two opens: distinct descriptors, both usable
		var f1, f2 File
		go func() {
			f1 = fs.Open("d0", "a")
			wg.Done()
		}()
		f2 = fs.Open("d0", "a")
		wg.Wait()
		verifAssert("conc/descriptors-distinct", f1 != f2)
		verifAssert("conc/both-descriptors-read", verifAnd(verifBytesEq(fs.ReadAt(f1, 0, 2), old), verifBytesEq(fs.ReadAt(f2, 0, 2), old)))
	case 2: // append while another descriptor of the same file is read: a prefix of the final content
		x := verifNondetBytes("x", 2)
		r := fs.Open("d0", "b")
		var got []byte
		go func() {
			got = fs.ReadAt(r, 0, 4)
			wg.Done()
		}()
		fs.Append(fb, x)
		wg.Wait()
		verifAssert("conc/reader-sees-a-prefix", verifOr(len(got) == 0, verifBytesEq(got, x)))
		verifAssert("conc/append-complete", verifBytesEq(fs.ReadAt(r, 0, 4), x))
	case 3: // create and list: the listing is the one before or the one after
		var l []string
		go func() {
			l = fs.List("d0")
			wg.Done()
		}()
		fs.Create("d0", "x")
		wg.Wait()
		verifAssert("conc/list-is-before-or-after", verifHas(l, "a") && verifHas(l, "b") && (len(l) == 2 || (len(l) == 3 && verifHas(l, "x"))))
	case 4: // atomic create against a reader of the same name: old or new as a whole
		nw := verifNondetBytes("new", 3)
		var got []byte
		go func() {
			r := fs.Open("d0", "a")
			got = fs.ReadAt(r, 0, 4)
			wg.Done()
		}()
		fs.AtomicCreate("d0", "a", nw)
		wg.Wait()
		verifAssert("conc/reader-sees-old-or-new", verifOr(verifBytesEq(got, old), verifBytesEq(got, nw)))
	case 5: // delete against open+read: the reader fails to open, or reads the whole old content
		var got []byte
		var missing bool
		go func() {
			missing = verifTry(func() {
				r := fs.Open("d0", "a")
				got = fs.ReadAt(r, 0, 4)
			})
			wg.Done()
		}()
		fs.Delete("d0", "a")
		wg.Wait()
		verifAssert("conc/reader-sees-old-or-nothing", verifOr(missing, verifBytesEq(got, old)))
	case 6: // two appends through two descriptors of different files and a link: independent
		x := verifNondetBytes("x", 1)
		var ok bool
		go func() {
			ok = fs.Link("d0", "a", "d0", "c")
			wg.Done()
		}()
		fs.Append(fb, x)
		wg.Wait()
		verifAssert("conc/link-succeeds", ok)
		r := fs.Open("d0", "c")
		verifAssert("conc/link-content", verifBytesEq(fs.ReadAt(r, 0, 4), old))
		rb := fs.Open("d0", "b")
		verifAssert("conc/append-content", verifBytesEq(fs.ReadAt(rb, 0, 4), x))
	}
	verifRaceDetect(false)
	verifAssert("conc/no-data-race", verifRaces() == 0)
	verifCover("c14/memconc")
}

// verifC14MemSequences: per-goroutine operation SEQUENCES on MemFs. One goroutine appends x1 then x2
// to d0/b and then deletes d0/a; the main goroutine reads d0/b twice through its own descriptor and
// lists the directory in between; a third goroutine links d0/b to d1/c. One total order respecting
// real time: each read is "", x1 or x1x2 and the second is not shorter than the first; a listing that
// no longer shows a implies both appends are visible afterwards; the link, once made, names the
// same file (its content follows the appends).
func verifC14MemSequences() {
	fs := NewMemFs()
	fs.Mkdir("d0")
	fs.Mkdir("d1")
	fs.AtomicCreate("d0", "a", []byte{1})
	fb, _ := fs.Create("d0", "b")
	x1 := verifNondetBytes("x1", 2)
	x2 := verifNondetBytes("x2", 1)
	deep := verifTier() > 0 // thorough: a third append and a third read
	var x3 []byte
	if deep {
		x3 = verifNondetBytes("x3", 2)
	}
	r := fs.Open("d0", "b")
	var linked bool
	var wg sync.WaitGroup
	wg.Add(2)
	verifRaceDetect(true)
	go func() {
		fs.Append(fb, x1)
		fs.Append(fb, x2)
		if deep {
			fs.Append(fb, x3)
		}
		fs.Delete("d0", "a")
		wg.Done()
	}()
	go func() {
		linked = fs.Link("d0", "b", "d1", "c")
		wg.Done()
	}()
	g1 := fs.ReadAt(r, 0, 8)
	l := fs.List("d0")
	g2 := fs.ReadAt(r, 0, 8)
	g3 := g2
	if deep {
		g3 = fs.ReadAt(r, 0, 8)
	}
	wg.Wait()
	verifRaceDetect(false)
	verifAssert("seq/no-data-race", verifRaces() == 0)
	x12 := append(verifClone(x1), x2...)
	all := append(verifClone(x12), x3...)
	isPrefix := func(g []byte) bool {
		return verifOr(len(g) == 0, verifOr(verifBytesEq(g, x1), verifOr(verifBytesEq(g, x12), verifBytesEq(g, all))))
	}
	verifAssert("seq/reads-are-whole-append-prefixes", verifAnd(isPrefix(g1), verifAnd(isPrefix(g2), isPrefix(g3))))
	verifAssert("seq/second-read-not-shorter", len(g2) >= len(g1) && len(g3) >= len(g2))
	verifAssert("seq/list-always-shows-b", verifHas(l, "b"))
	// Delete(a) is program-ordered after both appends: a listing without a is followed by full reads
	verifAssert("seq/delete-observed-implies-appends-observed", verifOr(verifHas(l, "a"), verifBytesEq(g2, all)))
	verifAssert("seq/link-succeeds", linked)
	c := fs.Open("d1", "c")
	verifAssert("seq/link-names-the-same-file", verifBytesEq(fs.ReadAt(c, 0, 8), all))
	verifAssert("seq/final-listing", !verifHas(fs.List("d0"), "a"))
	verifCover("c14/sequences")
}

// verifC14DirSequences: the same per-goroutine sequences on DirFs, preempted at every system call.
func verifC14DirSequences() {
	fs, _ := verifC13Setup()
	fs.AtomicCreate("d0", "a", []byte{1})
	fb, okb := fs.Create("d0", "b")
	verifAssume(okb)
	x1 := verifNondetBytes("x1", 2)
	x2 := verifNondetBytes("x2", 1)
	r := fs.Open("d0", "b")
	var wg sync.WaitGroup
	wg.Add(1)
	verifKernelPreempt(true)
	verifRaceDetect(true)
	go func() {
		fs.Append(fb, x1)
		fs.Append(fb, x2)
		fs.Delete("d0", "a")
		wg.Done()
	}()
	g1 := fs.ReadAt(r, 0, 8)
	l := fs.List("d0")
	g2 := fs.ReadAt(r, 0, 8)
	wg.Wait()
	verifRaceDetect(false)
	verifKernelPreempt(false)
	verifAssert("dirseq/no-data-race", verifRaces() == 0)
	all := append(verifClone(x1), x2...)
	isPrefix := func(g []byte) bool {
		return verifOr(len(g) == 0, verifOr(verifBytesEq(g, x1), verifBytesEq(g, all)))
	}
	verifAssert("dirseq/reads-are-whole-append-prefixes", verifAnd(isPrefix(g1), isPrefix(g2)))
	verifAssert("dirseq/second-read-not-shorter", len(g2) >= len(g1))
	verifAssert("dirseq/list-always-shows-b", verifHas(l, "b"))
	verifAssert("dirseq/delete-observed-implies-appends-observed", verifOr(verifHas(l, "a"), verifBytesEq(g2, all)))
	verifAssert("dirseq/final-content", verifBytesEq(fs.ReadAt(r, 0, 8), all))
	verifAssert("dirseq/final-listing", !verifHas(fs.List("d0"), "a"))
	verifCover("c14/dirsequences")
}
