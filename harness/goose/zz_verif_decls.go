package goose

import (
	"go/ast"
	"go/token"
	"strconv"

	"github.com/goose-lang/goose/internal/coq"
	"golang.org/x/tools/go/packages"
)

// Shared kernel harness for C04 / C06 / C07: the real Ctx.Decls (+ declsOrError, depTracker,
// errorReporter.prefixed, MultipleErrors) runs over dummy declaration nodes; Ctx.maybeDecls —
// the AST translator proper — is replaced by a stub that reports, for node i, the names,
// dependencies and outcome dictated by a symbolic structure.

type verifMarkerDecl struct{ id int }

func (m verifMarkerDecl) CoqDecl() string { return "Definition d" + strconv.Itoa(m.id) + " : val := #()." }

type verifForeign struct{ id int }

const (
	verifOK = iota
	verifUnsupported
	verifTodo
	verifFuture
	verifNope
	verifNoExample
	verifForeignPanic
	verifOutcomes
)

var verifCategory = []string{"", "unsupported", "todo", "future", "impossible(go)", "impossible(no-examples)", ""}

type verifPlan struct {
	n       int
	edge    [][]bool // edge[i][j]: declaration i mentions declaration j
	extern  []bool   // i also mentions a name no declaration provides
	outcome []int
	calls   []int // how often the stub was asked for node i
}

var verifCur *verifPlan

func verifNode(i int) *ast.GenDecl {
	return &ast.GenDecl{TokPos: token.Pos(100*i + 1), Tok: token.VAR, Rparen: token.Pos(100*i + 49)}
}

func verifNodeID(d ast.Decl) int { return (int(d.Pos()) - 1) / 100 }

func verifStubMaybeDecls(ctx Ctx, d ast.Decl) []coq.Decl {
	p := verifCur
	i := verifNodeID(d)
	p.calls[i]++
	ctx.dep.addName("d" + strconv.Itoa(i))
	for j := 0; j < p.n; j++ {
		if p.edge[i][j] {
			ctx.dep.addDep("d" + strconv.Itoa(j))
		}
	}
	if p.extern[i] {
		ctx.dep.addDep("external")
	}
	switch p.outcome[i] {
	case verifUnsupported:
		ctx.unsupported(d, "feature %d", i)
	case verifTodo:
		ctx.todo(d, "feature %d", i)
	case verifFuture:
		ctx.futureWork(d, "feature %d", i)
	case verifNope:
		ctx.nope(d, "feature %d", i)
	case verifNoExample:
		ctx.noExample(d, "feature %d", i)
	case verifForeignPanic:
		panic(verifForeign{i})
	}
	return []coq.Decl{verifMarkerDecl{i}}
}

// verifBuild lays n declarations out over nf files; split[i] is the file of declaration i.
func verifBuild(n, nf int, split []int) []NamedFile {
	names := []string{"a.go", "b.go", "c.go"}
	fs := make([]NamedFile, nf)
	for f := 0; f < nf; f++ {
		fs[f] = NamedFile{Path: "/src/" + names[f], Ast: &ast.File{}}
	}
	for i := 0; i < n; i++ {
		f := fs[split[i]].Ast
		f.Decls = append(f.Decls, verifNode(i))
	}
	return fs
}

func verifNewCtx() Ctx {
	return Ctx{errorReporter: newErrorReporter(token.NewFileSet())}
}

func verifMarkers(decls []coq.Decl) []int {
	var out []int
	for _, d := range decls {
		if m, ok := d.(verifMarkerDecl); ok {
			out = append(out, m.id)
		}
	}
	return out
}

func verifAcyclic(p *verifPlan) bool {
	// Kahn-style: repeatedly remove nodes without outgoing edges to remaining nodes
	alive := make([]bool, p.n)
	for i := range alive {
		alive[i] = true
	}
	for round := 0; round < p.n; round++ {
		for i := 0; i < p.n; i++ {
			if !alive[i] {
				continue
			}
			leaf := true
			for j := 0; j < p.n; j++ {
				if alive[j] && p.edge[i][j] {
					leaf = false
				}
			}
			if leaf {
				alive[i] = false
			}
		}
	}
	for _, a := range alive {
		if a {
			return false
		}
	}
	return true
}

func verifSymbolicPlan(n int, withFailures bool) (*verifPlan, int, []int) {
	p := &verifPlan{n: n, edge: make([][]bool, n), extern: make([]bool, n), outcome: make([]int, n), calls: make([]int, n)}
	for i := 0; i < n; i++ {
		p.edge[i] = make([]bool, n)
		for j := 0; j < n; j++ {
			if i != j {
				p.edge[i][j] = verifChoose(2) == 1
			}
		}
	}
	p.extern[0] = verifChoose(2) == 1
	if withFailures {
		for i := 0; i < n; i++ {
			p.outcome[i] = verifChoose(verifOutcomes)
		}
	}
	nf := 1 + verifChoose(2)
	split := make([]int, n)
	for i := 0; i < n; i++ {
		split[i] = verifChoose(nf)
	}
	return p, nf, split
}

// C04 kernel: each declaration exactly once; dependencies first whenever the graph is acyclic.
func verifC04Order() {
	n := 2 + verifChoose(2+verifTier())
	p, nf, split := verifSymbolicPlan(n, false)
	verifCur = p
	ctx := verifNewCtx()
	_, decls, errs := ctx.Decls(verifBuild(n, nf, split)...)
	verifAssert("order/no-errors", len(errs) == 0)
	ms := verifMarkers(decls)
	pos := make([]int, n)
	cnt := make([]int, n)
	for k, id := range ms {
		pos[id] = k
		cnt[id]++
	}
	for i := 0; i < n; i++ {
		verifAssert("order/each-declaration-exactly-once", cnt[i] == 1)
		verifAssert("order/translated-once", p.calls[i] == 1)
	}
	if verifAcyclic(p) {
		for i := 0; i < n; i++ {
			for j := 0; j < n; j++ {
				if p.edge[i][j] {
					verifAssert("order/definition-before-use", pos[j] < pos[i])
				}
			}
		}
		verifCover("c04/order/acyclic")
	} else {
		verifCover("c04/order/cyclic")
	}
}

// C07 kernel: errors are contained per declaration, aggregated in order, structured and located.
func verifC07Containment() {
	n := 1 + verifChoose(2+verifTier())
	p, nf, split := verifSymbolicPlan(n, true)
	// keep the dependency dimension small here: it is C04's subject
	verifCur = p
	ctx := verifNewCtx()
	fs := verifBuild(n, nf, split)
	var decls []coq.Decl
	var errs []error
	var foreign interface{}
	func() {
		defer func() { foreign = recover() }()
		_, decls, errs = ctx.Decls(fs...)
	}()
	// expected: source order = files in order, declarations in order
	var order []int
	for f := 0; f < nf; f++ {
		for i := 0; i < n; i++ {
			if split[i] == f {
				order = append(order, i)
			}
		}
	}
	firstForeign := -1
	for _, i := range order {
		if p.outcome[i] == verifForeignPanic {
			firstForeign = i
			break
		}
	}
	if firstForeign >= 0 {
		fv, ok := foreign.(verifForeign)
		verifAssert("errors/foreign-panic-not-swallowed", ok && fv.id == firstForeign)
		verifCover("c07/foreign")
		return
	}
	verifAssert("errors/no-panic-escapes", foreign == nil)
	var failing []int
	for _, i := range order {
		if p.outcome[i] != verifOK {
			failing = append(failing, i)
		}
	}
	verifAssert("errors/one-per-failing-declaration", len(errs) == len(failing))
	if len(errs) == len(failing) {
		for k, i := range failing {
			ce, ok := errs[k].(*ConversionError)
			verifAssert("errors/structured", ok)
			if ok {
				verifAssert("errors/documented-category", ce.Category == verifCategory[p.outcome[i]])
				verifAssert("errors/position-inside-declaration", ce.Pos == token.Pos(100*i+1) && ce.End == token.Pos(100*i+50))
				verifAssert("errors/message", ce.Message == "feature "+strconv.Itoa(i))
			}
		}
	}
	ms := verifMarkers(decls)
	for i := 0; i < n; i++ {
		c := 0
		for _, id := range ms {
			if id == i {
				c++
			}
		}
		if p.outcome[i] == verifOK {
			verifAssert("errors/other-declarations-still-translated", c == 1)
		} else {
			verifAssert("errors/failing-declaration-not-emitted", c == 0)
		}
	}
	if len(errs) > 0 {
		msg := MultipleErrors(errs).Error()
		verifAssert("errors/summary-counts", len(msg) > 0 && msg[len(msg)-len(" errors"):] == " errors")
	}
	verifCover("c07/contained")
}

// C06 kernel: the ordering kernels are functions of their input (run twice under independently
// chosen map-iteration orders, and on permuted file lists).
func verifC06Deterministic() {
	verifMapOrder(true)
	n := 2 + verifChoose(2)
	p, nf, split := verifSymbolicPlan(n, false)
	verifCur = p
	fs := verifBuild(n, nf, split)
	_, d1, _ := verifNewCtx().Decls(fs...)
	_, d2, _ := verifNewCtx().Decls(fs...)
	verifAssert("determinism/decls-same-length", len(d1) == len(d2))
	if len(d1) == len(d2) {
		for i := range d1 {
			verifAssert("determinism/decls-same-bytes", d1[i].CoqDecl() == d2[i].CoqDecl())
		}
	}
	verifCover("c06/decls")
}

func verifC06SortedFiles() {
	names := []string{"/p/b.go", "/p/a.go", "/p/c_test.go"}
	asts := []*ast.File{{}, {}, {}}
	// a permutation of the three inputs
	perm := [][]int{{0, 1, 2}, {0, 2, 1}, {1, 0, 2}, {1, 2, 0}, {2, 0, 1}, {2, 1, 0}}[verifChoose(6)]
	var pn []string
	var pa []*ast.File
	for _, k := range perm {
		pn = append(pn, names[k])
		pa = append(pa, asts[k])
	}
	out := sortedFiles(pn, pa)
	verifAssert("determinism/files-sorted", len(out) == 3 && out[0].Path == names[1] && out[1].Path == names[0] && out[2].Path == names[2])
	verifAssert("determinism/files-keep-their-ast", out[0].Ast == asts[1] && out[1].Ast == asts[0] && out[2].Ast == asts[2])
	verifCover("c06/sortedfiles")
}

// symbolic file names: order depends only on the names
func verifC06SortedFilesSym() {
	a := verifNondetString("a", 2)
	b := verifNondetString("b", 2)
	verifAssume(a != b)
	fa, fb := &ast.File{}, &ast.File{}
	o1 := sortedFiles([]string{a, b}, []*ast.File{fa, fb})
	o2 := sortedFiles([]string{b, a}, []*ast.File{fb, fa})
	verifAssert("determinism/input-order-irrelevant", o1[0].Path == o2[0].Path && o1[1].Path == o2[1].Path && o1[0].Ast == o2[0].Ast)
	verifAssert("determinism/ascending", o1[0].Path < o1[1].Path)
	verifCover("c06/sortedfiles-sym")
}

// C06 (ii): the real TranslatePackages workers (goroutine per package, wait group) run under the
// scheduler with a happens-before race check; packages.Load is replaced by a stub that returns
// minimal packages, so translatePackage → NewPkgCtx → getFfi → sortedFiles → Decls → ffiHeaderFooter
// really run in each worker.
var verifLoadPkgs []*packages.Package

func verifStubLoad(cfg *packages.Config, patterns ...string) ([]*packages.Package, error) {
	return verifLoadPkgs, nil
}

func verifMiniPkg(path string, broken bool) *packages.Package {
	p := &packages.Package{ID: path, PkgPath: path, Name: "p", Fset: token.NewFileSet(), Imports: map[string]*packages.Package{}}
	if broken {
		p.Errors = []packages.Error{{Msg: "type error in " + path}}
	}
	return p
}

func verifC06Workers() {
	n := 2 + verifChoose(2)
	verifLoadPkgs = nil
	paths := []string{"example.com/a", "example.com/b", "example.com/c"}
	for i := 0; i < n; i++ {
		verifLoadPkgs = append(verifLoadPkgs, verifMiniPkg(paths[i], verifChoose(2) == 1))
	}
	tr := TranslationConfig{}
	// sequential reference results
	var wantFiles []coq.File
	var wantErr []bool
	for _, p := range verifLoadPkgs {
		f, err := tr.translatePackage(p)
		wantFiles = append(wantFiles, f)
		wantErr = append(wantErr, err != nil)
	}
	verifRaceDetect(true)
	files, errs, perr := tr.TranslatePackages(".", "./...")
	verifRaceDetect(false)
	verifAssert("workers/no-data-race", verifRaces() == 0)
	verifAssert("workers/no-pattern-error", perr == nil)
	verifAssert("workers/one-slot-per-package", len(files) == n && len(errs) == n)
	if len(files) == n && len(errs) == n {
		for i := 0; i < n; i++ {
			verifAssert("workers/error-belongs-to-its-package", (errs[i] != nil) == wantErr[i])
			verifAssert("workers/result-independent-of-schedule", files[i].PkgPath == wantFiles[i].PkgPath && files[i].ImportHeader == wantFiles[i].ImportHeader)
		}
	}
	verifCover("c06/workers")
}
