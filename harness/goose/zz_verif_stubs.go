package goose

import "go/ast"

// stub for errorReporter.printGo (go/printer is outside what the harnesses need)
func verifStubPrintGo(r errorReporter, n ast.Node) string { return "<go code>" }
