package goose

import (
	"go/ast"
	"go/constant"
	"go/token"
	"go/types"

	"github.com/goose-lang/goose/internal/coq"
)

// C05 (translator side) — text from Go string literals / panic messages is either rejected
// or reaches the output as exactly one Coq string with the same content.

func verifLitCtx(v string) (Ctx, *ast.BasicLit) {
	lit := &ast.BasicLit{Kind: token.STRING, Value: "\"...\""}
	info := &types.Info{Types: map[ast.Expr]types.TypeAndValue{
		lit: {Value: constant.MakeString(v)},
	}}
	ctx := Ctx{info: info, errorReporter: newErrorReporter(token.NewFileSet()), dep: &depTracker{}}
	return ctx, lit
}

func verifC05StringLiteralE2E() {
	n := verifChoose(4 + 2*verifTier())
	v := verifNondetString("v", n)
	ctx, lit := verifLitCtx(v)
	var e coq.Expr
	rejected := verifTry(func() { e = ctx.basicLiteral(lit) })
	if rejected {
		verifCover("c05/strlit/rejected")
		return
	}
	got := coq.FuncDecl{Name: "f", ReturnType: coq.TypeIdent("stringT"), Body: e}.CoqDecl()
	want := "Definition f: val :=\n  rec: \"f\" <> :=\n    #(str\"" + v + "\")."
	verifAssert("strlit/rejected-or-preserved", got == want)
	for i := 0; i < n; i++ {
		verifAssert("strlit/no-quote-reaches-output", v[i] != '"')
	}
	verifCover("c05/strlit/accepted")
}

func verifC05PanicMessageE2E() {
	n := verifChoose(4 + 2*verifTier())
	v := verifNondetString("msg", n)
	ctx, lit := verifLitCtx(v)
	fun := &ast.Ident{Name: "panic"}
	ctx.info.Uses = map[*ast.Ident]types.Object{fun: types.Universe.Lookup("panic")}
	call := &ast.CallExpr{Fun: fun, Args: []ast.Expr{lit}}
	var e coq.Expr
	rejected := verifTry(func() { e = ctx.callExpr(call) })
	if rejected {
		verifCover("c05/panicmsg/rejected")
		return
	}
	got := coq.FuncDecl{Name: "f", ReturnType: coq.TypeIdent("unitT"), Body: e}.CoqDecl()
	want := "Definition f: val :=\n  rec: \"f\" <> :=\n    Panic \"" + v + "\"."
	verifAssert("panicmsg/rejected-or-preserved", got == want)
	for i := 0; i < n; i++ {
		verifAssert("panicmsg/no-quote-reaches-output", v[i] != '"')
	}
	verifCover("c05/panicmsg/accepted")
}
