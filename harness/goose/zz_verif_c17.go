package goose

import "golang.org/x/tools/go/packages"

// C17 (library side) — loader configuration.
func verifC17PackageConfig() {
	dir := verifNondetString("dir", 3)
	cfg := newPackageConfig(dir)
	verifAssert("config/dir", cfg.Dir == dir)
	verifAssert("config/goose-build-tag", len(cfg.BuildFlags) == 2 && cfg.BuildFlags[0] == "-tags" && cfg.BuildFlags[1] == "goose")
	need := packages.NeedName | packages.NeedCompiledGoFiles | packages.NeedImports | packages.NeedTypes | packages.NeedSyntax | packages.NeedTypesInfo
	verifAssert("config/mode", cfg.Mode&need == need)
	verifAssert("config/no-tests-no-overlay", !cfg.Tests && len(cfg.Overlay) == 0 && len(cfg.Env) == 0)
	verifCover("c17/config")
}
