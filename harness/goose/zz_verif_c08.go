package goose

import (
	"go/ast"
	"go/token"
	"strconv"
	"strings"

	"github.com/goose-lang/goose/internal/coq"
	"golang.org/x/tools/go/packages"
)

// C08 (translator side) — FFI selection over import graphs, header/footer, import declarations.

var verifPathPool = []string{
	"github.com/goose-lang/goose/machine/disk",       // ffi disk
	"github.com/goose-lang/goose/machine/async_disk", // ffi async_disk
	"github.com/mit-pdos/gokv/grove_ffi",             // ffi grove
	"github.com/goose-lang/primitive/disk",           // ffi disk (second spelling)
	"github.com/goose-lang/primitive/async_disk",     // ffi async_disk (second spelling)
	"github.com/goose-lang/goose/machine",            // builtin, no ffi
	"github.com/tchajed/marshal",                     // plain
}

var verifFfiOf = []string{"disk", "async_disk", "grove", "disk", "async_disk", "", ""}

// oracle: FFI names reachable from node i by a walk that does not descend below FFI packages
func verifReach(i int, kind []int, edge [][]bool, seen []bool, found map[string]bool) {
	if seen[i] {
		return
	}
	seen[i] = true
	if i > 0 {
		if f := verifFfiOf[kind[i]]; f != "" {
			found[f] = true
			return
		}
	}
	for j := range edge[i] {
		if edge[i][j] {
			verifReach(j, kind, edge, seen, found)
		}
	}
}

func verifC08GetFfi() {
	nn := 3 + verifTier() // nodes besides the root
	kind := make([]int, nn+1)
	pkgs := make([]*packages.Package, nn+1)
	pkgs[0] = &packages.Package{ID: "root", PkgPath: "example.com/root", Imports: map[string]*packages.Package{}}
	for i := 1; i <= nn; i++ {
		kind[i] = verifChoose(len(verifPathPool))
		// distinct packages must have distinct paths
		for j := 1; j < i; j++ {
			verifAssume(kind[j] != kind[i])
		}
		pkgs[i] = &packages.Package{ID: verifPathPool[kind[i]], PkgPath: verifPathPool[kind[i]], Imports: map[string]*packages.Package{}}
	}
	edge := make([][]bool, nn+1)
	for i := 0; i <= nn; i++ {
		edge[i] = make([]bool, nn+1)
		for j := i + 1; j <= nn; j++ { // acyclic by construction
			if verifChoose(2) == 1 {
				edge[i][j] = true
				pkgs[i].Imports[pkgs[j].PkgPath] = pkgs[j]
			}
		}
	}
	found := map[string]bool{}
	verifReach(0, kind, edge, make([]bool, nn+1), found)
	var got string
	refused := verifTry(func() { got = getFfi(pkgs[0]) })
	switch len(found) {
	case 0:
		verifAssert("ffi/none", verifAnd(!refused, got == "none"))
	case 1:
		for f := range found {
			verifAssert("ffi/unique", verifAnd(!refused, got == f))
		}
	default:
		verifAssert("ffi/two-refused", refused)
	}
	verifCover("c08/getffi")
}

func verifC08HeaderFooter() {
	ffis := []string{"none", "disk", "async_disk", "grove"}
	f := ffis[verifChoose(len(ffis))]
	h, ft := ffiHeaderFooter(f)
	if f == "none" {
		verifAssert("header/none-generic-section", strings.HasPrefix(h, "Section code.\nContext `{ext_ty: ext_types}."))
		verifAssert("footer/none-closes-section", ft == "\nEnd code.\n")
	} else {
		verifAssert("header/ffi-prelude", h == "From Perennial.goose_lang Require Import ffi."+f+"_prelude.")
		verifAssert("footer/ffi-empty", ft == "")
	}
	verifCover("c08/headerfooter")
}


var verifImportPaths = []string{
	"fmt", "sync", "log",
	"github.com/goose-lang/goose/machine",
	"github.com/goose-lang/goose/machine/disk",
	"github.com/goose-lang/primitive",
	"github.com/tchajed/marshal",
	"gopkg.in/yaml.v3",
	"example.com/x/trusted_lib",
	"example.com/a-b/c.d",
	"example.com/m/trusted_deps/util",
	"example.com/m/nottrusted_x",
}

func verifC08ImportSpecs() {
	ctx := Ctx{errorReporter: newErrorReporter(token.NewFileSet()), dep: &depTracker{}}
	k := 1 + verifChoose(3)
	var specs []ast.Spec
	var idx []int
	renamed := false
	for i := 0; i < k; i++ {
		j := verifChoose(len(verifImportPaths))
		idx = append(idx, j)
		s := &ast.ImportSpec{Path: &ast.BasicLit{Kind: token.STRING, Value: strconv.Quote(verifImportPaths[j])}}
		if i == 0 && verifChoose(2) == 1 {
			s.Name = &ast.Ident{Name: "renamed"}
			renamed = true
		}
		specs = append(specs, s)
	}
	var decls []coq.Decl
	refused := verifTry(func() { decls = ctx.imports(specs) })
	verifAssert("importspec/renamed-refused", refused == renamed)
	if !refused {
		var want []coq.ImportDecl
		for _, j := range idx {
			p := verifImportPaths[j]
			if builtinImports[p] {
				continue
			}
			base := p[strings.LastIndex(p, "/")+1:]
			want = append(want, coq.ImportDecl{Path: p, Trusted: strings.HasPrefix(base, "trusted_")})
		}
		verifAssert("importspec/count", len(decls) == len(want))
		if len(decls) == len(want) {
			for i := range want {
				d, ok := decls[i].(coq.ImportDecl)
				verifAssert("importspec/decl", ok && d == want[i])
			}
		}
	}
	verifCover("c08/importspecs")
}
