module verifharness

go 1.23
