package async_disk

import "github.com/goose-lang/goose/machine/disk"

// C09 through the async_disk package: same implementation, reached by the aliases.

func verifC09AsyncMemFresh() {
	n := verifChoose(3)
	disk.VerifC09Fresh(NewMemDisk(uint64(n)), n)
}

func verifC09AsyncMemStep() {
	n := 1 + verifChoose(2)
	var d Disk = NewMemDisk(uint64(n))
	verifAssert("async/blocksize", BlockSize == 4096)
	disk.VerifC09Step(d, n, false)
}
