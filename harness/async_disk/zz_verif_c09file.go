package async_disk

import "github.com/goose-lang/goose/machine/disk"

func verifC09AsyncFileStep() {
	n := 1 + verifChoose(2)
	d, err := NewFileDisk(verifPath("disk.img"), uint64(n))
	verifAssert("file/open-ok", err == nil)
	verifAssume(err == nil)
	disk.VerifC09Step(d, n, false)
}
