#!/bin/bash
# usage: seedconfirm.sh <seed-dir>
# Confirms a seeded change in a scratch clone of /repo: the demonstration passes on the clean tree, the
# unedited test suite passes with the patch, the demonstration fails with the patch.
export GOFLAGS=-mod=mod GOPROXY=off GOSUMDB=off GOTOOLCHAIN=local
d=$1; id=$(basename $d); wt=/tmp/wt-r4-$id
rm -rf $wt; git clone -q /repo $wt || exit 2
rundemo() {
  if [ -x $d/demo/run.sh ]; then (cd $d/demo && timeout 900 ./run.sh $wt >/tmp/r4v-$id-$1.out 2>&1); return $?; fi
  t=$(ls $d/seed_*_test.go 2>/dev/null | head -1)
  if [ -n "$t" ]; then
    case $id in C09*|C11*) pk=machine/disk;; *) pk=machine/filesys;; esac
    cp $t $wt/$pk/
    if [ -f $d/demo.sh ]; then (timeout 900 bash $d/demo.sh $wt >/tmp/r4v-$id-$1.out 2>&1); rc=$?
    else (cd $wt && timeout 900 go test -vet=off -count=1 -run 'TestSeed' ./$pk/ >/tmp/r4v-$id-$1.out 2>&1); rc=$?; fi
    rm -f $wt/$pk/$(basename $t); return $rc
  fi
  return 99
}
rundemo clean; c=$?
git -C $wt apply $d/patch.diff || { echo "$id: APPLY-FAIL"; rm -rf $wt; exit 1; }
(cd $wt && git status --short | grep '^??' | awk '{print $2}' | sort > /tmp/r4v-$id-new.txt)
if (cd $wt && go build ./... && go test -vet=off -count=1 ./... >/tmp/r4v-$id-suite.out 2>&1); then suite=PASS; else suite=FAIL; fi
(cd $wt && git status --short | grep '^??' | awk '{print $2}' | sort | comm -23 - /tmp/r4v-$id-new.txt | xargs -r rm -rf)
rundemo patched; p=$?
echo "$id: suite-with-patch=$suite demo-clean-rc=$c demo-patched-rc=$p"
rm -rf $wt
