#!/bin/bash
# usage: seedverify3.sh <seed-dir>
# For seeds whose run.sh only prints what goose does (no exit-code convention): runs run.sh on a clean
# scratch worktree and on the patched one and shows the differing lines; also runs the suite with the patch.
export GOFLAGS=-mod=mod GOPROXY=off GOSUMDB=off GOTOOLCHAIN=local
seed=$1
wt=/tmp/wt-V3
git -C /repo worktree remove --force $wt >/dev/null 2>&1
git -C /repo worktree add -q $wt HEAD || exit 2
norm() { sed -e 's#/tmp/[A-Za-z0-9._/-]*#TMP#g' -e 's/[0-9.]*s$//' -e 's/goose.go:[0-9]*/goose.go:N/'; }
(cd $seed && timeout 900 ./run.sh $wt 2>&1 | norm > /tmp/sv3.clean)
(cd $wt && git checkout -q -- . && git clean -fdq)
if ! git -C $wt apply $seed/patch.diff; then echo "$(basename $seed): PATCH-DOES-NOT-APPLY"; git -C /repo worktree remove --force $wt; exit 1; fi
if (cd $wt && go build ./... && go test -vet=off -count=1 ./... >/tmp/seedsuite.out 2>&1); then suite=PASS; else suite=FAIL; fi
(cd $wt && git status --short | grep -v "^ M" | awk '{print $2}' | xargs -r rm -rf)
(cd $seed && timeout 900 ./run.sh $wt 2>&1 | norm > /tmp/sv3.patched)
n=$(diff /tmp/sv3.clean /tmp/sv3.patched | grep -c '^[<>]')
echo "$(basename $seed): suite-with-patch=$suite differing-lines=$n"
diff /tmp/sv3.clean /tmp/sv3.patched | grep '^[<>]' | head -6 | cut -c1-200
git -C /repo worktree remove --force $wt
