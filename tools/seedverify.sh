#!/bin/bash
# usage: seedverify.sh <seed-dir> <pkg-dir-for-go-test-demo|-> 
# Confirms in a scratch worktree: suite passes with the patch; demo fails with it and passes without.
export GOFLAGS=-mod=mod GOPROXY=off GOSUMDB=off GOTOOLCHAIN=local
seed=$1; pkg=$2
wt=/tmp/wt-V
git -C /repo worktree remove --force $wt >/dev/null 2>&1
git -C /repo worktree add -q $wt HEAD || exit 2
res=""
run_demo() { # prints PASS/FAIL
  if [ "$pkg" != "-" ]; then
    cp $seed/*_test.go $wt/$pkg/ 2>/dev/null
    names=$(grep -ho "^func Test[A-Za-z0-9_]*" $seed/*_test.go | sed 's/func //' | paste -sd'|')
    extra=""
    grep -qi "race" $seed/NOTES.md && extra="-race"
    if (cd $wt && timeout 600 go test -vet=off -count=1 $extra -timeout 300s -run "^($names)\$" ./$pkg/ >/tmp/seeddemo.out 2>&1); then echo PASS; else echo FAIL; fi
    rm -f $wt/$pkg/$(basename $(ls $seed/*_test.go | head -1))
  else
    if (cd $seed && timeout 900 ./run.sh $wt >/tmp/seeddemo.out 2>&1); then echo PASS; else echo FAIL; fi
  fi
}
clean=$(run_demo)
(cd $wt && git checkout -q -- . && git clean -fdq)
if ! git -C $wt apply $seed/patch.diff; then echo "$(basename $seed): PATCH-DOES-NOT-APPLY"; git -C /repo worktree remove --force $wt; exit 1; fi
if (cd $wt && go build ./... && go test -vet=off -count=1 ./... >/tmp/seedsuite.out 2>&1); then suite=PASS; else suite=FAIL; fi
patched=$(run_demo)
echo "$(basename $seed): suite-with-patch=$suite demo-clean=$clean demo-patched=$patched"
git -C /repo worktree remove --force $wt
