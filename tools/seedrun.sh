#!/bin/bash
# usage: seedrun.sh <seed-dir> <Cxx> [tier]
# Non-destructive: applies <seed-dir>/patch.diff to a scratch clone of /repo under /tmp, runs the check of
# property Cxx against it (VERIF_REPO), keeps replays and evidence of the run apart (VERIF_REPLAY_ROOT,
# VERIF_EVIDENCE_DIR) and removes everything afterwards. Several can run in parallel:
#   ls -d seeded/C*-* | xargs -P 4 -I{} sh -c 'id=$(basename {}); tools/seedrun.sh /verif/{} ${id%%-*} | head -1'
export GOFLAGS=-mod=mod GOPROXY=off GOSUMDB=off GOTOOLCHAIN=local
d=$1; prop=$2; tier=${3:-quick}
sc=/tmp/sc-$$
rm -rf $sc && git clone -q /repo $sc && git -C $sc apply $d/patch.diff || { echo "$(basename $d): APPLY-FAIL"; exit 2; }
cd /verif
VERIF_REPLAY_ROOT=/tmp/rp-$$ VERIF_EVIDENCE_DIR=/tmp/ev-$$ VERIF_REPO=$sc timeout 3000 ./bin/vcheck run $prop --tier $tier > /tmp/r4-$(basename $d)-$prop.log 2>&1
rc=$?
echo "$(basename $d) $prop tier=$tier rc=$rc viol=$(grep -c '^VIOLATION' /tmp/r4-$(basename $d)-$prop.log) inconcl=$(grep -ci 'inconclusive:' /tmp/r4-$(basename $d)-$prop.log)"
grep -A1 '^VIOLATION' /tmp/r4-$(basename $d)-$prop.log | grep -v '^VIOLATION\|^--' | head -4 | cut -c1-220
rm -rf $sc /tmp/rp-$$ /tmp/ev-$$
