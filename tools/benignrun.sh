#!/bin/bash
# usage: benignrun.sh <benign-dir>
# Non-destructive: applies the behaviour-preserving patch to a scratch clone of /repo and runs the quick
# checks of the properties listed in the NOTES.md line "Properties: Cxx Cyy"; prints QUIET / ALARM / BROKEN.
export GOFLAGS=-mod=mod GOPROXY=off GOSUMDB=off GOTOOLCHAIN=local
d=$1; id=$(basename $d)
props=$(grep -h "^Properties:" $d/NOTES.md | head -1 | sed 's/Properties://')
sc=/tmp/sb-$$
rm -rf $sc && git clone -q /repo $sc && git -C $sc apply $d/patch.diff || { echo "$id: APPLY-FAIL"; rm -rf $sc; exit 2; }
cd /verif
for p in $props; do
  out=$(VERIF_REPLAY_ROOT=/tmp/rb-$$ VERIF_EVIDENCE_DIR=/tmp/eb-$$ VERIF_REPO=$sc timeout 3000 ./bin/vcheck run $p --tier quick 2>/dev/null)
  if echo "$out" | grep -q "^VIOLATION"; then
    echo "ALARM  $id by $p: $(echo "$out" | grep -A1 '^VIOLATION' | grep -v '^VIOLATION\|^--' | head -3 | tr '\n' ' ' | cut -c1-400)"
  elif echo "$out" | grep -q "^OK"; then
    echo "QUIET  $id by $p ($(echo "$out" | grep -c '^INCONCL') inconclusive)"
  else
    echo "BROKEN $id by $p: $(echo "$out" | grep -i 'error' | head -2 | tr '\n' ' ' | cut -c1-300)"
  fi
done
rm -rf $sc /tmp/rb-$$ /tmp/eb-$$
