#!/usr/bin/env python3
"""Regenerates /verif/MANIFEST.json from the table below (kept here so the manifest stays valid and consistent)."""
import json, os
ROOT = os.path.dirname(os.path.dirname(os.path.abspath(__file__)))
BASE = "for m in .; do (cd /repo/$m && GOFLAGS=-mod=mod go test -json -vet=off -count=1 -timeout 25m ./...); done"

CHECKS = {
 "C15": dict(cat="model_checking", ref="§4 C15",
   text="Bounded symbolic execution of the real UInt64Put/Get, UInt32Put/Get and the encoding/binary code they call (from go/ssa): every buffer length 0..16 (0..24 thorough) is forked, all values and all buffer contents are symbolic; each obligation (little-endian bytes, framing, inversion, reads-only-frame, refusal of short buffers without partial writes) is closed by the term rewriter or by z3 (unsat) for every value within the bound. Counterexamples are replayed natively with go test.",
   note="Trusted: go/ssa as Go semantics, the gosym executor/simplifier, z3. Outside the claim: buffers longer than the bound.",
   tech="symbolic execution of go/ssa + SMT (z3), native replay"),
 "C09": dict(cat="model_checking", ref="§4 C09",
   text="Real mem.go/file.go/disk.go and the async_disk aliases are executed symbolically from go/ssa (file disk on a POSIX kernel model). One inductive step from an arbitrary reachable state: every block is set to 4096 symbolic bytes through the public API, then one arbitrary operation (Read/ReadTo/Write/Size/Barrier, via method, global wrapper or async_disk) with a fully symbolic 64-bit address, symbolic contents and write-buffer lengths from a boundary set is compared with a register-array model, including aliasing probes; thorough adds depth-2 histories. The solver decides the address/refusal obligations for all 2^64 addresses; content obligations are closed by the rewriter. Counterexamples replay natively (real kernel).",
   note="Trusted: go/ssa, gosym, z3, kernel model. Assumes every reachable disk state is reachable by one Write per block; n ≤ 3 blocks; ReadTo with block-sized buffers; disks whose byte size exceeds off_t are outside.",
   tech="symbolic execution of go/ssa + SMT, inductive step vs register model, native replay"),
 "C10": dict(cat="model_checking", ref="§4 C10",
   text="Lock-discipline verification conditions discharged per method by sequential symbolic execution with a lock monitor, for all addresses/contents and on all paths including panics: every access to block bytes under d.l in an adequate mode, one critical section per operation, lock released on every exit, Size touches no shared cell; file disk: one positional syscall per operation, disjoint byte ranges for distinct addresses (bit-vector query), no Go-level shared state. Linearizability follows by a trusted meta-theorem; schedules are not enumerated. Discipline violations replay as a two-goroutine test under the race detector.",
   note="Trusted: meta-theorem lock discipline ⇒ race freedom ⇒ atomic sections ⇒ linearizable; kernel atomicity of pread/pwrite; gosym lock monitor.",
   tech="symbolic execution + lock-discipline VCs (modular linearizability), -race replay"),
 "C11": dict(cat="model_checking", ref="§4 C11",
   text="NewFileDisk/ReadTo/Write/Barrier/Close on the kernel model: reopen after arbitrary writes; prior image with a fully symbolic 64-bit length L and symbolic content (the solver ranges over all L — this found the L == numBlocks coincidence, now fixed); every single injected syscall failure must surface as error/panic; Write·Barrier followed by a modelled power loss (arbitrary durable prefix of unflushed writes) must preserve the block.",
   note="Trusted: kernel model incl. durability rules (data durable only via fsync; a prefix of pending writes survives); failing syscalls have no effect; short transfers without errno outside the claim. Fault/crash counterexamples are model-level (not replayable natively), the rest replays natively.",
   tech="symbolic execution on a POSIX kernel model with symbolic file length, fault and crash forks + SMT"),
 "C12": dict(cat="model_checking", ref="§4 C12",
   text="All of mem.go and dir.go (on the kernel model) driven in lock-step with a reference model over every valid history of bounded length from the empty file system (k=3 one directory, k=2 two directories; k=4 thorough), data bytes symbolic, ReadAt offset fully symbolic (<2^63) and length symbolic ≤4, followed by a final observation of listings, contents and open read descriptors; obligations: equal results, no panic on valid calls, no aliasing. Found the MemFs descriptor==inode defect (fixed). Counterexamples replay natively on MemFs and on DirFs over a real temp directory.",
   note="Trusted: kernel model, reference model (harness/filesys/zz_verif_model.go), gosym, z3. Histories longer than the bound, more names/directories, offsets ≥ 2^63 are outside.",
   tech="bounded symbolic execution of histories, differential vs reference model + SMT, native replay"),
 "C13": dict(cat="model_checking", ref="§4 C13",
   text="DirFs.AtomicCreate on the kernel model with crash points, durable-prefix choice and single faults: leftovers produced by really crashing an earlier call at every syscall (and planted leftovers at both candidate locations), every crash point of the call itself with volatile (every instant) and post-reboot observation ∈ {old, data}, each single failing syscall ⇒ panic and old-or-new, fsync-before-rename order, path-disjointness of calls for different (dir,name) (with a native concurrent stress replay); MemFs.AtomicCreate copy/atomic install. Found and fixed: missing O_TRUNC, temp file in root.",
   note="Trusted: crash model (ordered namespace journal, data only via fsync), atomic rename, kernel model. Concurrent creators are not scheduled; interference is decided through disjointness of touched kernel paths. Crash/fault counterexamples are model-level.",
   tech="symbolic execution on kernel model with crash-point / durable-prefix / fault forks + SMT"),
 "C14": dict(cat="model_checking", ref="§4 C14",
   text="MemFs: lock-discipline VCs for all methods (and misuse calls) from a representative pre-history, symbolic data/offset, every path including checkDir/checkMode panics: all accesses to validDirs/inodes/dirents/openFiles and inode bytes under fs.m, one critical section, released on every exit; descriptor distinctness over all 4-step open/close histories. DirFs: exactly one syscall per single-syscall operation, Create passes O_CREAT|O_EXCL, no Go-level shared state. Linearizability by trusted meta-theorem; -race replay.",
   note="Trusted: meta-theorem (lock discipline ⇒ linearizable), kernel atomicity of openat(O_EXCL)/linkat/unlinkat/renameat/write/pread, gosym lock monitor. Schedules not enumerated.",
   tech="symbolic execution + lock-discipline VCs, -race replay"),
 "C16": dict(cat="model_checking", ref="§4 C16",
   text="UInt64ToString for all 2^64 values (fork over the 20 digit counts; digits-only, no leading zero, value round-trip, injectivity decided by z3); MapClear on ≤3 symbolic entries under every iteration order at two instantiations; Assume/Assert for both booleans; WaitTimeout's delegation contract (called once with the caller's cond and unscaled timeout) for all timeouts.",
   note="fmt.Sprintf is an intrinsic (canonical decimal by fresh digit variables): the check decides that the real code formats x itself, not fmt's correctness. Real-time bounds of WaitTimeout are not claimed (primitive.WaitTimeout is stubbed).",
   tech="symbolic execution of go/ssa + SMT (z3), native replay"),
}
NOT_YET = {}
for i in range(1, 19):
    pid = "C%02d" % i
    if pid not in CHECKS:
        NOT_YET[pid] = "check not built yet in this session (engine layer pending); see DESIGN.md §7"

def main():
    checks = []
    for pid, c in sorted(CHECKS.items()):
        checks.append({
            "property_id": pid,
            "quick_cmd": f"./bin/vcheck run {pid} --tier quick",
            "thorough_cmd": f"./bin/vcheck run {pid} --tier thorough",
            "evidence_file": f"/verif/evidence/{pid}.json",
            "replay_cmd_template": "sh {path}/cmd.sh",
            "engine": "gosym",
            "level_claimed": {"category": c["cat"], "text": c["text"], "design_ref": c["ref"]},
            "level_note": c["note"],
            "technique": c["tech"],
        })
    man = {
        "version": 1,
        "setup_cmd": "cd /verif && GOFLAGS=-mod=mod GOPROXY=off GOSUMDB=off GOTOOLCHAIN=local go build -o bin/vcheck ./cmd/vcheck",
        "hooks": {"guard": "verif", "enable": "harnesses are injected by go/packages overlay (-tags verif reserved); no source hooks in /repo",
                  "baseline_off_cmd": BASE, "source_commits": [], "add_only": True},
        "engines": [{"name": "gosym", "path": "/verif/engine", "serves_properties": sorted(CHECKS),
                     "kind_free_text": "symbolic executor over go/ssa with z3 (-in) back end, fall-back z3-new/cvc5; native replay via go test -overlay"}],
        "checks": checks,
        "notes": "All checks rebuild SSA from /repo's working tree on every run; harness sources live in /verif/harness and enter by overlay only.",
        "not_applicable": [{"property_id": k, "reason": v} for k, v in sorted(NOT_YET.items())],
    }
    json.dump(man, open(os.path.join(ROOT, "MANIFEST.json"), "w"), indent=1)
    print("wrote MANIFEST.json with", len(checks), "checks")
main()
