#!/usr/bin/env python3
"""Regenerates /verif/MANIFEST.json from the table below (kept here so the manifest stays valid and consistent)."""
import json, os
ROOT = os.path.dirname(os.path.dirname(os.path.abspath(__file__)))
BASE = "for m in .; do (cd /repo/$m && GOFLAGS=-mod=mod go test -json -vet=off -count=1 -timeout 25m ./...); done"

CHECKS = {
 "C15": dict(cat="model_checking", ref="§4 C15",
   text="Bounded symbolic execution of the real UInt64Put/Get, UInt32Put/Get and the encoding/binary code they call (from go/ssa): every buffer length 0..16 (0..24 thorough) is forked, all values and all buffer contents are symbolic; each obligation (little-endian bytes, framing, inversion, reads-only-frame, refusal of short buffers without partial writes) is closed by the term rewriter or by z3 (unsat) for every value within the bound. Counterexamples are replayed natively with go test.",
   note="Trusted: go/ssa as Go semantics, the gosym executor/simplifier, z3. Outside the claim: buffers longer than the bound.",
   tech="symbolic execution of go/ssa + SMT (z3), native replay"),
 "C09": dict(cat="model_checking", ref="§4 C09",
   text="Real mem.go/file.go/disk.go and the async_disk aliases are executed symbolically from go/ssa (file disk on a POSIX kernel model). One inductive step from an arbitrary reachable state: every block is set to 4096 symbolic bytes through the public API, then one arbitrary operation (Read/ReadTo/Write/Size/Barrier, via method, global wrapper or async_disk) with a fully symbolic 64-bit address, symbolic contents and write-buffer lengths from a boundary set is compared with a register-array model, including aliasing probes; thorough adds depth-2 histories. The solver decides the address/refusal obligations for all 2^64 addresses; content obligations are closed by the rewriter. Counterexamples replay natively (real kernel).",
   note="Trusted: go/ssa, gosym, z3, kernel model. Assumes every reachable disk state is reachable by one Write per block; n ≤ 3 blocks; ReadTo with block-sized buffers; disks whose byte size exceeds off_t are outside.",
   tech="symbolic execution of go/ssa + SMT, inductive step vs register model, native replay"),
 "C10": dict(cat="model_checking", ref="§4 C10",
   text="Lock-discipline verification conditions discharged per method by sequential symbolic execution with a lock monitor, for all addresses/contents and on all paths including panics: every access to block bytes under d.l in an adequate mode, one critical section per operation, lock released on every exit, Size touches no shared cell; file disk: one positional syscall per operation, disjoint byte ranges for distinct addresses (bit-vector query), no Go-level shared state. Linearizability follows by a trusted meta-theorem; schedules are not enumerated. Discipline violations replay as a two-goroutine test under the race detector.",
   note="Trusted: meta-theorem lock discipline ⇒ race freedom ⇒ atomic sections ⇒ linearizable; kernel atomicity of pread/pwrite; gosym lock monitor.",
   tech="symbolic execution + lock-discipline VCs (modular linearizability), -race replay"),
 "C11": dict(cat="model_checking", ref="§4 C11",
   text="NewFileDisk/ReadTo/Write/Barrier/Close on the kernel model: reopen after arbitrary writes; prior image with a fully symbolic 64-bit length L and symbolic content (the solver ranges over all L — this found the L == numBlocks coincidence, now fixed); every single injected syscall failure must surface as error/panic; Write·Barrier followed by a modelled power loss (arbitrary durable prefix of unflushed writes) must preserve the block.",
   note="Trusted: kernel model incl. durability rules (data durable only via fsync; a prefix of pending writes survives); failing syscalls have no effect; short transfers without errno outside the claim. Fault/crash counterexamples are model-level (not replayable natively), the rest replays natively.",
   tech="symbolic execution on a POSIX kernel model with symbolic file length, fault and crash forks + SMT"),
 "C12": dict(cat="model_checking", ref="§4 C12",
   text="All of mem.go and dir.go (on the kernel model) driven in lock-step with a reference model over every valid history of bounded length from the empty file system (k=3 one directory, k=2 two directories; k=4 thorough), data bytes symbolic, ReadAt offset fully symbolic (<2^63) and length symbolic ≤4, followed by a final observation of listings, contents and open read descriptors; obligations: equal results, no panic on valid calls, no aliasing. Found the MemFs descriptor==inode defect (fixed). Counterexamples replay natively on MemFs and on DirFs over a real temp directory.",
   note="Trusted: kernel model, reference model (harness/filesys/zz_verif_model.go), gosym, z3. Histories longer than the bound, more names/directories, offsets ≥ 2^63 are outside.",
   tech="bounded symbolic execution of histories, differential vs reference model + SMT, native replay"),
 "C13": dict(cat="model_checking", ref="§4 C13",
   text="DirFs.AtomicCreate on the kernel model with crash points, durable-prefix choice and single faults: leftovers produced by really crashing an earlier call at every syscall (and planted leftovers at both candidate locations), every crash point of the call itself with volatile (every instant) and post-reboot observation ∈ {old, data}, each single failing syscall ⇒ panic and old-or-new, fsync-before-rename order, path-disjointness of calls for different (dir,name) (with a native concurrent stress replay); MemFs.AtomicCreate copy/atomic install. Found and fixed: missing O_TRUNC, temp file in root.",
   note="Trusted: crash model (ordered namespace journal, data only via fsync), atomic rename, kernel model. Concurrent creators are not scheduled; interference is decided through disjointness of touched kernel paths. Crash/fault counterexamples are model-level.",
   tech="symbolic execution on kernel model with crash-point / durable-prefix / fault forks + SMT"),
 "C14": dict(cat="model_checking", ref="§4 C14",
   text="MemFs: lock-discipline VCs for all methods (and misuse calls) from a representative pre-history, symbolic data/offset, every path including checkDir/checkMode panics: all accesses to validDirs/inodes/dirents/openFiles and inode bytes under fs.m, one critical section, released on every exit; descriptor distinctness over all 4-step open/close histories. DirFs: exactly one syscall per single-syscall operation, Create passes O_CREAT|O_EXCL, no Go-level shared state. Linearizability by trusted meta-theorem; -race replay.",
   note="Trusted: meta-theorem (lock discipline ⇒ linearizable), kernel atomicity of openat(O_EXCL)/linkat/unlinkat/renameat/write/pread, gosym lock monitor. Schedules not enumerated.",
   tech="symbolic execution + lock-discipline VCs, -race replay"),
 "C16": dict(cat="model_checking", ref="§4 C16",
   text="UInt64ToString for all 2^64 values (fork over the 20 digit counts; digits-only, no leading zero, value round-trip decided by z3; injectivity in thorough); MapClear on ≤3 symbolic entries under every iteration order at two instantiations; Assume/Assert for both booleans; WaitTimeout: (a) contract of the delegate (called once with the caller's cond and unscaled timeout, returns for every timeout when nobody signals — a non-delegating implementation is judged by behaviour only), (b) the REAL body of primitive.WaitTimeout (goroutine + select on a timer that fires at a nondeterministic but eventual moment) explored under the scheduler over all schedules in three scenarios (no signaller, an earlier waiter on the same cond, a signaller): it always returns and holds the lock on return.",
   note="fmt.Sprintf/strconv are intrinsics (canonical decimal by fresh digit variables): the check decides that the real code formats x itself with a decimal verb. Real-time bounds of WaitTimeout ('no later than', 'promptly') are not expressible and not claimed.",
   tech="symbolic execution of go/ssa + SMT (z3), native replay"),
 "C04": dict(cat="model_checking", ref="§4 C04",
   text="Two parts. (1) Ordering/emission kernel: the real Ctx.Decls (depTracker, DFS closure, declsOrError) runs over dummy declaration nodes with Ctx.maybeDecls replaced by a stub reporting names and dependencies dictated by a symbolic structure: every directed dependency relation on N ≤ 3/4 declarations (cycles included), an unresolvable dependency, every split over ≤ 2 files; each declaration is translated and emitted exactly once and, for acyclic relations, every dependency precedes its dependant. (2) Reference-site recording and naming: a corpus of 29 reference kinds (calls, methods on value/pointer, method values, struct literals, new, field reads/writes/refs through pointers, deref load/store, types in signatures/vars/slices/maps/fields, named types, aliases, constants, globals, function values, recursion, name collisions) × 4 layouts (user first, provider first, two files in both name orders) plus the C01 corpus is translated by the real goose; a Coq-scoping loader applied to the emitted file decides defined-before-use (cyclic dependencies exempt), distinct names and self reference through the rec binder; a declaration census requires every Go declaration to appear under its documented name. Found and fixed: no dependency recorded at struct.storeF/store/load/fieldRef/alloc sites; known finding: T__m name collision.",
   note="maybeDecls is stubbed in the kernel part; reference-site recording is decided for the corpus's reference kinds only. Trusted: gosym, z3, the GooseLang parser/loader.",
   tech="symbolic execution with function override over all dependency graphs + Coq-scoping loader on a generated corpus translated by the real goose"),
 "C05": dict(cat="model_checking", ref="§4 C05",
   text="Printer kernels on symbolic text: the real AddComment / CommentDecl / LoggingStmt / FuncDecl / ConstDecl / StructDecl printing, and the real basicLiteral / panic-message guards driven with a symbolic constant, run on every byte string up to the bound; the oracle is a reference Coq lexer (nested comments, strings inside comments) evaluated as one symbolic path, and z3 decides 'exactly one balanced comment, no open string' and 'rejected or preserved byte-for-byte'; -typecheck/comment flags leave the definition bytes unchanged. Found and fixed: odd quotes in comments, newline in string literals, quotes in panic messages.",
   note="Text ≤ 4 (quick) / 6 (thorough) bytes; Coq's lexing rules as encoded by the reference lexer are trusted; expression-nesting/precedence is part of the C01 translation validation, not of this kernel.",
   tech="symbolic execution of go/ssa on symbolic strings + SMT, reference-lexer oracle, native replay"),
 "C06": dict(cat="model_checking", ref="§4 C06",
   text="Partial. (a) Ordering kernels are functions of their input: Decls run twice under independently chosen map-iteration orders (map order is an explicit nondeterministic choice of the executor) gives identical bytes; sortedFiles is permutation-invariant on concrete and fully symbolic file names. (b) The real TranslatePackages worker skeleton (goroutine per package, wait group; packages.Load stubbed to 2–3 minimal packages so translatePackage → NewPkgCtx → getFfi → sortedFiles → Decls → ffiHeaderFooter really run in each worker) is explored under the cooperative scheduler over all schedules with a vector-clock happens-before race check on every memory cell: no data race, slot i belongs to package i, results equal the sequential ones. (c) Auxiliary, NOT solver-decided: the real goose binary translates three inter-dependent packages alone, together, in both orders and repeatedly; all emitted files must be byte-identical.",
   note="NOT claimed: determinism of the whole tool for arbitrary packages, GOMAXPROCS, go/packages; state shared below maybeDecls is reached only by the auxiliary differential (c).",
   tech="symbolic execution with nondeterministic map order; scheduler exploration with happens-before race check; auxiliary differential on the real binary"),
 "C07": dict(cat="model_checking", ref="§4 C07",
   text="Partial. (1) Error containment and aggregation kernel: real declsOrError / Decls / errorReporter.prefixed / MultipleErrors over a symbolic failure pattern (each declaration ok, one of the five documented categories, or a foreign panic): exactly one structured, located error per failing declaration in source order with its own category and Pos/End, every other declaration still emitted, foreign panics not swallowed. (2) Totality on the generated corpora: the real goose runs on the C02 look-alike catalogue and the C01 corpus (~500 declarations incl. generics, channels, float constants, iota groups); goose must exit 0/1 (a crash is isolated to one declaration by splitting the package), every declaration must be emitted under its documented name or covered by an error, and every error must have a documented category and a position inside a declaration. Found and fixed: nil-scope crash on methods of instantiated generic types.",
   note="NOT claimed: that the translator never panics on arbitrary type-correct Go (totality over programs is not encodable); claimed on the kernel and on the enumerated corpora.",
   tech="symbolic execution with function override over failure patterns + declaration census on corpora translated by the real goose"),
 "C08": dict(cat="model_checking", ref="§4 C08",
   text="pathToCoqPath / ImportToPath / ImportDecl.CoqDecl on every valid import path up to 4 (6) symbolic bytes (z3 decides the byte-wise '.'/'-'→'_' mapping and the logical path); PrintImports on import multisets; File.Write layout; the real getFfi on every acyclic import graph of root+3 (4) packages over a pool containing all five FFI keys against the 'walk stops at FFI' oracle; ffiHeaderFooter; Ctx.imports on import specs (renamed ⇒ refused, builtin ⇒ nothing, trusted_* ⇒ trusted). Found and fixed: Require line used the unmapped last segment.",
   note="bytealg kernels are intrinsics; go/printer stubbed for error text. A package reaching two FFIs makes getFfi panic: counted as 'refused' here.",
   tech="symbolic execution of go/ssa on symbolic strings / import graphs + SMT, native replay"),
 "C17": dict(cat="model_checking", ref="§4 C17",
   text="Real translate / writeFileIfChanged / coqFileContents / main flag wiring with TranslatePackages replaced by a stub returning symbolic results: ≤ 2 (3) packages succeeding or failing, -ignore-errors on/off, each target absent / identical / different; obligations: exit status 0 iff all translated, file at the Coq path with exactly File.Write's bytes, nothing written for failed packages unless -ignore-errors, no write call when bytes are identical, pattern error ⇒ exit 1 and no writes, flags/-dir/patterns reach the loader unchanged, newPackageConfig carries Dir, the goose build tag and the six Need bits.",
   note="go/packages' pattern and build-tag resolution is outside; os/flag are intrinsics over the kernel model. Counterexamples are model-level.",
   tech="symbolic execution of go/ssa with function override on a file-system model"),
 "C18": dict(cat="model_checking", ref="§4 C18",
   text="The real main of cmd/test_gen runs in -go and -coq mode over the same symbolic directory (file names of 9 symbolic bytes, lines of 12–20 symbolic bytes); the two real regexp constants are compiled by regexp/syntax and matched by a symbolic leftmost-first backtracker; both outputs are compared byte-for-byte with the output predicted by an independent oracle (header rule + skip rule), so 'one test per test function, in order, nothing else, both generators agree, failing_ ⇒ Fail' is decided for every byte content within the bound. Counterexamples are materialised on disk and replayed with the real binary. Found and fixed: -go did not skip _test.go/.gold.v.",
   note="flag/os/bufio are intrinsics; compilation of the generated Go file is not checked; lines/names of other lengths are outside the bound.",
   tech="symbolic execution of go/ssa with symbolic regexp matcher + SMT, replay with the real binary"),
 "C01": dict(cat="translation_validation", ref="§4 C01",
   text="Translation validation: a generated corpus of subset programs (one translation rule or rule×context per function; compositions and if-trees in thorough) plus grammar-derived programs with fixed seeds (160 functions in quick, 1600 in thorough: nested control flow, loops, bindings, stores, helper calls; program sampled, inputs symbolic) is translated by the real goose binary built from the working tree; the emitted .v is parsed and loaded by a GooseLang model; for every function the Go SSA and the GooseLang definition are evaluated on the same symbolic arguments (all values of uint64/uint32/byte/bool, short strings, slices incl. nil and spare capacity, pointers to structs, maps) and z3 is asked for an argument vector on which goose rejected the program, GooseLang is stuck, or result / reachable state differ. The program dimension is enumerated, the input dimension is decided by the solver. Found: byte(x) not truncated and non-tail bare blocks leaking bindings (fixed); x++ on 32/8-bit variables and loop variables leaking after the loop (known findings pinned by gold files).",
   note="Trusted: the GooseLang model in gl/ (Perennial is not in the sandbox; calibrated: agrees with Go on all 89 non-failing semantics tests and disagrees on exactly the 7 failing_ ones), go/ssa, gosym, z3. Outside: programs outside the generator's grammar, larger aggregates, argument side effects, paths on which Go panics.",
   tech="translation validation: symbolic execution of Go SSA vs GooseLang evaluator + SMT (z3)"),
 "C02": dict(cat="translation_validation", ref="§4 C02",
   text="Same pipeline on a catalogue of ~130 out-of-subset / look-alike constructs (assignment operators, operators, slice forms, literals, statement kinds, control-flow shapes, integer types, interface uses, extra builtin arguments, user functions named like builtins), one per host function, plus random subset programs with one of 47 out-of-subset constructs injected at a random statement position (150 in quick, 1500 in thorough, fixed seeds); per declaration the obligation is the property's disjunction: goose reports a conversion error located in that declaration, or the emitted definition is equivalent to Go on all inputs within the C01 bounds; a goose crash or malformed output satisfies neither (a crashing package is split to isolate the declaration). Found and fixed 8 defects (builtins recognised by spelling, multi-argument append, string slicing crash, copy from string, variadic calls, interface{} printed as a Definition, comma-ok type assertion, parameterless method values); 1 known finding.",
   note="As C01. User packages named like FFI packages are not covered (the emitted text is identical; only Coq's name resolution differs).",
   tech="translation validation: symbolic execution of Go SSA vs GooseLang evaluator + SMT (z3)"),
 "C03": dict(cat="translation_validation", ref="§4 C03",
   text="18 race-free concurrent templates and 10 concurrent look-alikes (rejected, or the same relation) (spawn+join, captured variables read and written, mutex counter, last writer wins, condvar hand-off, broadcast to two waiters, two Adds, goroutine bodies ending in if / with trailing statements / a single call, go as last statement of a block, lock protecting two cells, WaitTimeout with a signaller, Sleep) with a symbolic uint64 argument are translated by the real goose. The Go function (from go/ssa) and the emitted GooseLang definition (evaluator with Fork, lock.*, lock.cond*, waitgroup.*) are each explored under a cooperative scheduler over ALL interleavings at synchronisation points; every complete path yields (path condition, result) and z3 decides over the symbolic argument: every Go outcome is a GooseLang outcome; if the Go result is schedule-independent, every complete GooseLang interleaving yields it and none deadlocks or gets stuck. A template goose rejects is a violation.",
   note="Interleavings are ENUMERATED by the executor (sound at synchronisation points for data-race-free programs), ≤ 3 threads, ≤ 20 000 / 200 000 interleavings per side, timed waits may return at any moment (≤ 3 timeouts per run); the primitives' meaning on both sides is the Go meaning (trusted). GooseLang's 'racy access is stuck' rule is not modelled.",
   tech="scheduler exploration of Go SSA and GooseLang evaluator, outcome-set inclusion decided by SMT (z3)"),
}
NOT_YET = {}
for i in range(1, 19):
    pid = "C%02d" % i
    if pid not in CHECKS:
        NOT_YET[pid] = "check not built yet in this session (engine layer pending); see DESIGN.md §7"

def main():
    checks = []
    for pid, c in sorted(CHECKS.items()):
        checks.append({
            "property_id": pid,
            "quick_cmd": f"./bin/vcheck run {pid} --tier quick",
            "thorough_cmd": f"./bin/vcheck run {pid} --tier thorough",
            "evidence_file": f"/verif/evidence/{pid}.json",
            "replay_cmd_template": "sh {path}/cmd.sh",
            "engine": "gosym",
            "level_claimed": {"category": c["cat"], "text": c["text"], "design_ref": c["ref"]},
            "level_note": c["note"],
            "technique": c["tech"],
        })
    man = {
        "version": 1,
        "setup_cmd": "cd /verif && GOFLAGS=-mod=mod GOPROXY=off GOSUMDB=off GOTOOLCHAIN=local go build -o bin/vcheck ./cmd/vcheck",
        "hooks": {"guard": "verif", "enable": "harnesses are injected by go/packages overlay (-tags verif reserved); no source hooks in /repo",
                  "baseline_off_cmd": BASE, "source_commits": [], "add_only": True},
        "engines": [{"name": "gosym", "path": "/verif/engine", "serves_properties": sorted(CHECKS),
                     "kind_free_text": "symbolic executor over go/ssa with z3 (-in) back end, fall-back z3-new/cvc5; native replay via go test -overlay"}],
        "checks": checks,
        "notes": "All checks rebuild SSA from /repo's working tree on every run; harness sources live in /verif/harness and enter by overlay only.",
        "not_applicable": [{"property_id": k, "reason": v} for k, v in sorted(NOT_YET.items())],
    }
    json.dump(man, open(os.path.join(ROOT, "MANIFEST.json"), "w"), indent=1)
    print("wrote MANIFEST.json with", len(checks), "checks")
main()
