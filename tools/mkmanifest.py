#!/usr/bin/env python3
"""Regenerates /verif/MANIFEST.json from the table below (kept here so the manifest stays valid and consistent)."""
import json, os
ROOT = os.path.dirname(os.path.dirname(os.path.abspath(__file__)))
BASE = "for m in .; do (cd /repo/$m && GOFLAGS=-mod=mod go test -json -vet=off -count=1 -timeout 25m ./...); done"

CHECKS = {
 "C15": dict(cat="model_checking", ref="§4 C15",
   text="Bounded symbolic execution of the real UInt64Put/Get, UInt32Put/Get and the encoding/binary code they call (from go/ssa): every buffer length 0..16 (0..24 thorough) is forked, all values and all buffer contents are symbolic; each obligation (little-endian bytes, framing, inversion, reads-only-frame, refusal of short buffers without partial writes) is closed by the term rewriter or by z3 (unsat) for every value within the bound. Counterexamples are replayed natively with go test.",
   note="Trusted: go/ssa as Go semantics, the gosym executor/simplifier, z3. Outside the claim: buffers longer than the bound.",
   tech="symbolic execution of go/ssa + SMT (z3), native replay"),
}
NOT_YET = {}
for i in range(1, 19):
    pid = "C%02d" % i
    if pid not in CHECKS:
        NOT_YET[pid] = "check not built yet in this session (engine layer pending); see DESIGN.md §7"

def main():
    checks = []
    for pid, c in sorted(CHECKS.items()):
        checks.append({
            "property_id": pid,
            "quick_cmd": f"./bin/vcheck run {pid} --tier quick",
            "thorough_cmd": f"./bin/vcheck run {pid} --tier thorough",
            "evidence_file": f"/verif/evidence/{pid}.json",
            "replay_cmd_template": "sh {path}/cmd.sh",
            "engine": "gosym",
            "level_claimed": {"category": c["cat"], "text": c["text"], "design_ref": c["ref"]},
            "level_note": c["note"],
            "technique": c["tech"],
        })
    man = {
        "version": 1,
        "setup_cmd": "cd /verif && GOFLAGS=-mod=mod GOPROXY=off GOSUMDB=off GOTOOLCHAIN=local go build -o bin/vcheck ./cmd/vcheck",
        "hooks": {"guard": "verif", "enable": "harnesses are injected by go/packages overlay (-tags verif reserved); no source hooks in /repo",
                  "baseline_off_cmd": BASE, "source_commits": [], "add_only": True},
        "engines": [{"name": "gosym", "path": "/verif/engine", "serves_properties": sorted(CHECKS),
                     "kind_free_text": "symbolic executor over go/ssa with z3 (-in) back end, fall-back z3-new/cvc5; native replay via go test -overlay"}],
        "checks": checks,
        "notes": "All checks rebuild SSA from /repo's working tree on every run; harness sources live in /verif/harness and enter by overlay only.",
        "not_applicable": [{"property_id": k, "reason": v} for k, v in sorted(NOT_YET.items())],
    }
    json.dump(man, open(os.path.join(ROOT, "MANIFEST.json"), "w"), indent=1)
    print("wrote MANIFEST.json with", len(checks), "checks")
main()
