#!/bin/bash
# usage: benigncheck.sh <benign-dir> <check-id> [more check ids...]
# Applies a behaviour-preserving patch to /repo, runs the quick checks, reverts. Prints QUIET / ALARM per check.
export GOFLAGS=-mod=mod GOPROXY=off GOSUMDB=off GOTOOLCHAIN=local
b=$1; shift
cd /repo || exit 2
if ! git diff --quiet; then echo "REPO DIRTY"; exit 2; fi
if ! git apply "$b/patch.diff"; then echo "PATCH-FAILED $(basename $b)"; exit 2; fi
for c in "$@"; do
  out=$(cd /verif && VERIF_TIER=quick timeout 1800 ./bin/vcheck run $c --tier quick 2>/dev/null)
  if echo "$out" | grep -q "^VIOLATION"; then
    echo "ALARM  $(basename $b) by $c: $(echo "$out" | grep -A1 '^VIOLATION' | grep -v VIOLATION | head -3 | tr '\n' ' ' | cut -c1-300)"
  elif echo "$out" | grep -q "^OK"; then
    echo "QUIET  $(basename $b) by $c $(echo "$out" | grep -c INCONCL) inconclusive"
  else
    echo "BROKEN $(basename $b) by $c: $(echo "$out" | grep 'ERROR' | head -2 | tr '\n' ' ' | cut -c1-300)"
  fi
done
git checkout -- . ; git clean -fdq
