#!/bin/bash
# Runs the quick check of each seeded change's property against /repo with the change applied, then reverts.
# Writes /verif/seeded/RESULTS.md and fills meta.json.detected_by.
cd /verif
out=seeded/RESULTS.md
echo "# Seeded changes vs checks (quick tier unless noted)" > $out
echo >> $out
for d in seeded/C*-*; do
  id=$(basename $d); prop=${id%%-*}
  extra=""
  case $id in C14-*) extra="C12";; esac
  line=$(timeout 2400 tools/seedcheck.sh /verif/$d $prop $extra | tr '\n' ' ')
  echo "- $line" >> $out
  python3 - "$d" "$line" <<'PY'
import json,sys
d,line=sys.argv[1],sys.argv[2]
m=json.load(open(d+'/meta.json'))
m['detected_by']=line.strip()
json.dump(m,open(d+'/meta.json','w'),indent=1)
PY
done
cat $out
