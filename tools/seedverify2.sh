#!/bin/bash
# usage: seedverify2.sh <seed-dir> <style>   style: E (WT env), F (tree arg), DG (script does both trees itself)
export GOFLAGS=-mod=mod GOPROXY=off GOSUMDB=off GOTOOLCHAIN=local
seed=$1; style=$2
wt=/tmp/wt-V
git -C /repo worktree remove --force $wt >/dev/null 2>&1
git -C /repo worktree add -q $wt HEAD || exit 2
demo() {
  case $style in
    E) (cd $seed && WT=$wt timeout 900 ./run.sh >/tmp/seeddemo.out 2>&1) ;;
    F) (cd $seed && timeout 900 ./run.sh $wt >/tmp/seeddemo.out 2>&1) ;;
  esac
}
if [ "$style" = "DG" ]; then
  if (cd $seed && timeout 1200 ./run.sh $wt >/tmp/seeddemo.out 2>&1); then d=HOLDS; else d=DOES-NOT-HOLD; fi
  git -C $wt apply $seed/patch.diff || { echo "$(basename $seed): PATCH-DOES-NOT-APPLY"; exit 1; }
  if (cd $wt && go build ./... && go test -vet=off -count=1 ./... >/tmp/seedsuite.out 2>&1); then suite=PASS; else suite=FAIL; fi
  echo "$(basename $seed): suite-with-patch=$suite demonstration=$d"
else
  if demo; then clean=PASS; else clean=FAIL; fi
  (cd $wt && git checkout -q -- . && git clean -fdq)
  git -C $wt apply $seed/patch.diff || { echo "$(basename $seed): PATCH-DOES-NOT-APPLY"; exit 1; }
  if (cd $wt && go build ./... && go test -vet=off -count=1 ./... >/tmp/seedsuite.out 2>&1); then suite=PASS; else suite=FAIL; fi
  if demo; then patched=PASS; else patched=FAIL; fi
  echo "$(basename $seed): suite-with-patch=$suite demo-clean=$clean demo-patched=$patched"
fi
git -C /repo worktree remove --force $wt
