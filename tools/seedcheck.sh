#!/bin/bash
# usage: seedcheck.sh <seed-dir> <check-id> [more check ids...]
# Applies <seed-dir>/patch.diff to /repo, runs the quick checks, reverts. Prints DETECTED/MISSED per check.
export GOFLAGS=-mod=mod GOPROXY=off GOSUMDB=off GOTOOLCHAIN=local
seed=$1; shift
cd /repo || exit 2
if ! git diff --quiet; then echo "REPO DIRTY"; exit 2; fi
if ! git apply "$seed/patch.diff"; then echo "PATCH-FAILED $seed"; exit 2; fi
for c in "$@"; do
  out=$(cd /verif && VERIF_TIER=${TIER:-quick} timeout 1800 ./bin/vcheck run $c --tier ${TIER:-quick} 2>/dev/null)
  if echo "$out" | grep -q "^VIOLATION"; then
    echo "DETECTED $(basename $seed) by $c: $(echo "$out" | grep -A1 '^VIOLATION' | grep -v VIOLATION | head -2 | tr '\n' ' ' | cut -c1-220)"
  else
    echo "MISSED   $(basename $seed) by $c: $(echo "$out" | grep 'INCONCL\|ERROR' | head -2 | tr '\n' ' ' | cut -c1-200)"
  fi
done
git checkout -- . ; git clean -fdq
