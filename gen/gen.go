// Package gen generates Go packages for translation validation: a grammar of the supported
// Goose subset (C01) and a catalogue of out-of-subset look-alikes (C02).
package gen

import (
	"fmt"
	"go/parser"
	"go/token"
	"sort"
	"strings"

	"verif/tv"
)

type fn struct {
	id     string
	name   string
	src    string
	small  []string
	tags   []string
	reject string
}

type builder struct {
	fns   []fn
	types []string // shared type declarations
	seen  map[string]bool
	n     int
	// alwaysHeader: emit the import header even when no case mentions machine.
	alwaysHeader bool
}

func (b *builder) add(id, src string, opts ...string) {
	// the function name is derived from the id
	name := "F" + sanitize(id)
	if b.seen == nil {
		b.seen = map[string]bool{}
	}
	if b.seen[name] {
		panic("duplicate generated id " + id)
	}
	b.seen[name] = true
	f := fn{id: id, name: name, src: strings.ReplaceAll(src, "FN", name)}
	for _, o := range opts {
		switch {
		case strings.HasPrefix(o, "small:"):
			f.small = append(f.small, strings.Split(o[6:], ",")...)
		case strings.HasPrefix(o, "reject:"):
			f.reject = o[7:]
		case strings.HasPrefix(o, "tag:"):
			f.tags = append(f.tags, o[4:])
		case strings.HasPrefix(o, "name:"):
			f.name = o[5:]
		}
	}
	b.fns = append(b.fns, f)
}

func sanitize(s string) string {
	var sb strings.Builder
	up := true
	for _, r := range s {
		switch {
		case r >= 'a' && r <= 'z' || r >= 'A' && r <= 'Z' || r >= '0' && r <= '9':
			if up && r >= 'a' && r <= 'z' {
				r -= 32
			}
			sb.WriteRune(r)
			up = false
		default:
			up = true
		}
	}
	return sb.String()
}

// packages splits the functions into packages of at most per functions each.
func (b *builder) packages(prefix, header string, per int) []*tv.Package {
	var out []*tv.Package
	for i := 0; i < len(b.fns); i += per {
		j := i + per
		if j > len(b.fns) {
			j = len(b.fns)
		}
		p := &tv.Package{Name: fmt.Sprintf("%s%d", prefix, len(out)), Files: map[string]string{}}
		var sb strings.Builder
		needs := false
		for _, f := range b.fns[i:j] {
			if strings.Contains(f.src, "machine.") {
				needs = true
			}
		}
		prelude := "\n"
		if needs || b.alwaysHeader {
			prelude = header + "\n"
		}
		for _, imp := range []string{"log", "fmt"} {
			for _, f := range b.fns[i:j] {
				if strings.Contains(f.src, imp+".P") && usesPackage(f.src, imp) {
					prelude = "import \"" + imp + "\"\n" + prelude
					break
				}
			}
		}
		for _, t := range b.types {
			prelude += t + "\n"
		}
		p.Prelude = prelude
		sb.WriteString("package " + p.Name + "\n\n" + prelude)
		for _, f := range b.fns[i:j] {
			from := strings.Count(sb.String(), "\n") + 2
			sb.WriteString("\n// " + f.id + "\n" + f.src + "\n")
			to := strings.Count(sb.String(), "\n")
			p.Cases = append(p.Cases, tv.Case{ID: f.id, Func: f.name, Small: f.small, Reject: f.reject, Tags: f.tags,
				File: "gen.go", FromLine: from, ToLine: to, Src: f.src})
		}
		p.Files["gen.go"] = sb.String()
		out = append(out, p)
	}
	return out
}

// usesPackage: src mentions name as an identifier that is not declared in src itself (a package
// qualifier), as opposed to a local variable or parameter that is merely spelled like the package.
func usesPackage(src, name string) bool {
	f, err := parser.ParseFile(token.NewFileSet(), "x.go", "package x\n\n"+src, 0)
	if err != nil {
		return true
	}
	for _, id := range f.Unresolved {
		if id.Name == name {
			return true
		}
	}
	return false
}

type width struct {
	ty   string
	tag  string
	bits int
}

var widths = []width{{"uint64", "u64", 64}, {"uint32", "u32", 32}, {"byte", "u8", 8}}

var arith = []struct{ op, name string }{
	{"+", "add"}, {"-", "sub"}, {"*", "mul"}, {"/", "quo"}, {"%", "rem"},
	{"&", "and"}, {"|", "or"}, {"^", "xor"}, {"<<", "shl"}, {">>", "shr"},
}

var cmps = []struct{ op, name string }{
	{"==", "eq"}, {"!=", "ne"}, {"<", "lt"}, {"<=", "le"}, {">", "gt"}, {">=", "ge"},
}

// Subset generates the C01 corpus. level 0 = quick (rule × context at depth 1), 1 = thorough (adds compositions).
func Subset(level int) []*tv.Package {
	b := &builder{}
	b.types = []string{
		"type Pt struct {\n\tX uint64\n\tY uint64\n}",
		"type Rec struct {\n\tA uint64\n\tB uint32\n\tC byte\n\tD bool\n\tP Pt\n}",
		"type Box struct {\n\tV uint64\n\tS []uint64\n\tN *Pt\n}",
		"type Wrap struct {\n\tR Rec\n\tN uint64\n}",
		"type Num uint64",
		"type Set map[uint64]bool",
		"type Tab map[string]uint64",
		"type List []uint64",
		"type Hook struct {\n\tCb func(uint64) uint64\n\tK uint64\n}",
	}
	genExprs(b, level)
	genLiterals(b)
	genConversions(b, level)
	genStatements(b, level)
	genControl(b, level)
	genScoping(b, level)
	genData(b, level)
	genFuncs(b, level)
	genNamed(b, level)
	genPrims(b, level)
	genComments(b, level)
	genPtrPtr(b, level)
	if level > 0 {
		genCompositions(b)
	}
	return b.packages("sub", `import "github.com/goose-lang/goose/machine"`+"\n", 60)
}

func genExprs(b *builder, level int) {
	for _, w := range widths {
		T := w.ty
		for _, a := range arith {
			// tail return
			b.add(fmt.Sprintf("expr/%s/%s/ret", a.name, w.tag),
				fmt.Sprintf("func FN(x %s, y %s) %s {\n\treturn x %s y\n}", T, T, T, a.op))
			// let rhs then use twice
			b.add(fmt.Sprintf("expr/%s/%s/let", a.name, w.tag),
				fmt.Sprintf("func FN(x %s, y %s) %s {\n\tz := x %s y\n\treturn z + z\n}", T, T, T, a.op))
			if level > 0 {
				// operand is itself compound, on each side
				b.add(fmt.Sprintf("expr/%s/%s/nest-left", a.name, w.tag),
					fmt.Sprintf("func FN(x %s, y %s, z %s) %s {\n\treturn (x - y) %s z\n}", T, T, T, T, a.op))
				b.add(fmt.Sprintf("expr/%s/%s/nest-right", a.name, w.tag),
					fmt.Sprintf("func FN(x %s, y %s, z %s) %s {\n\treturn x %s (y + z)\n}", T, T, T, T, a.op))
				// constant operand
				b.add(fmt.Sprintf("expr/%s/%s/const", a.name, w.tag),
					fmt.Sprintf("func FN(x %s) %s {\n\treturn x %s 3\n}", T, T, a.op))
			}
		}
		for _, c := range cmps {
			b.add(fmt.Sprintf("expr/%s/%s/ret", c.name, w.tag),
				fmt.Sprintf("func FN(x %s, y %s) bool {\n\treturn x %s y\n}", T, T, c.op))
			b.add(fmt.Sprintf("expr/%s/%s/cond", c.name, w.tag),
				fmt.Sprintf("func FN(x %s, y %s) %s {\n\tif x %s y {\n\t\treturn x\n\t}\n\treturn y\n}", T, T, T, c.op))
		}
		b.add("expr/bitnot/"+w.tag, fmt.Sprintf("func FN(x %s) %s {\n\treturn ^x\n}", T, T))
		b.add("expr/callarg/"+w.tag,
			fmt.Sprintf("func FNhelper(a %s, b %s) %s {\n\treturn a - b\n}\n\nfunc FN(x %s, y %s) %s {\n\treturn FNhelper(x+y, y*x)\n}", T, T, T, T, T, T))
		// a constant sub-expression in a typed context (its operands stay untyped for go/types)
		b.add("expr/const-subexpr/"+w.tag, fmt.Sprintf("func FN(x %s) %s {\n\treturn x %% (3 | 1)\n}", T, T))
		b.add("expr/const-shift-mask/"+w.tag, fmt.Sprintf("func FN(x %s) %s {\n\treturn x & (1<<3 - 1)\n}", T, T))
		b.add("expr/literal/"+w.tag, fmt.Sprintf("func FN(x %s) %s {\n\tvar c %s = 200\n\treturn x + c + 7\n}", T, T, T))
	}
	b.add("expr/not", "func FN(p bool) bool {\n\treturn !p\n}")
	b.add("expr/land", "func FN(p bool, q bool) bool {\n\treturn p && q\n}")
	b.add("expr/lor", "func FN(p bool, q bool) bool {\n\treturn p || q\n}")
	b.add("expr/land-shortcircuit", "func FN(x uint64, y uint64) bool {\n\treturn y != 0 && x/y > 1\n}")
	b.add("expr/lor-shortcircuit", "func FN(x uint64, y uint64) bool {\n\treturn y == 0 || x%y == 0\n}")
	b.add("expr/booleq", "func FN(p bool, q bool) bool {\n\treturn p == q\n}")
	b.add("expr/boolne", "func FN(p bool, q bool) bool {\n\treturn p != q\n}")
	b.add("expr/mixed-precedence", "func FN(x uint64, y uint64, z uint64) uint64 {\n\treturn x + y*z - x/(y|1) ^ z&x\n}")
	b.add("expr/cmp-chain", "func FN(x uint64, y uint64, z uint64) bool {\n\treturn x < y && y <= z || x == z\n}")
	b.add("expr/string/concat", "func FN(s string, t string) string {\n\treturn s + t\n}")
	b.add("expr/string/concat3", "func FN(s string, t string) string {\n\treturn s + \"-\" + t + s\n}")
	b.add("expr/string/len", "func FN(s string) uint64 {\n\treturn uint64(len(s))\n}")
	b.add("expr/string/eq", "func FN(s string, t string) bool {\n\treturn s == t\n}")
	b.add("expr/string/ne-literal", "func FN(s string) bool {\n\treturn s != \"ab\"\n}")
	b.add("expr/string/tobytes", "func FN(s string) []byte {\n\treturn []byte(s)\n}")
	b.add("expr/string/frombytes", "func FN(b []byte) string {\n\treturn string(b)\n}")
	b.add("expr/string/roundtrip", "func FN(s string) string {\n\tb := []byte(s)\n\treturn string(b) + s\n}")
	b.add("expr/const/typed", "const FNc uint64 = 41\n\nfunc FN(x uint64) uint64 {\n\treturn x + FNc\n}")
	b.add("expr/const/derived", "const FNa uint64 = 5\nconst FNb uint64 = FNa * 3\n\nfunc FN(x uint64) uint64 {\n\treturn x * FNb\n}")
	b.add("expr/named-type", "func FN(x Num, y Num) Num {\n\treturn x + y*2\n}")
}

// genLiterals: spellings of constants (the value, not the spelling, must arrive).
func genLiterals(b *builder) {
	b.add("expr/lit/hex", "func FN(x uint64) uint64 {\n\treturn x&0xFF + 0x10\n}")
	b.add("expr/lit/hex-upper", "func FN(x uint64) uint64 {\n\treturn x ^ 0XdeadBEEF\n}")
	b.add("expr/lit/octal", "func FN(x uint64) uint64 {\n\treturn x + 0o17 + 017\n}")
	b.add("expr/lit/binary", "func FN(x uint64) uint64 {\n\treturn x | 0b1010\n}")
	b.add("expr/lit/underscores", "func FN(x uint64) uint64 {\n\treturn x + 1_000_000\n}")
	b.add("expr/lit/max-u64", "func FN(x uint64) uint64 {\n\treturn x & 18446744073709551615\n}")
	b.add("expr/lit/max-u32", "func FN(x uint32) uint32 {\n\treturn x & 0xFFFFFFFF\n}")
	b.add("expr/lit/max-u8", "func FN(x byte) byte {\n\treturn x ^ 0xff\n}")
	b.add("expr/lit/leading-zeros", "func FN(x uint64) uint64 {\n\treturn x + 0x0000000000000001\n}")
	b.add("expr/lit/string-escapes", "func FN(s string) string {\n\treturn s + \"a\\tb\\\\c\"\n}")
	b.add("expr/lit/string-hex-escape", "func FN(s string) string {\n\treturn s + \"\\x41\\x7e\"\n}")
	b.add("expr/lit/string-raw", "func FN(s string) string {\n\treturn s + `a\\nb`\n}")
	b.add("expr/lit/string-len-of-escapes", "func FN() uint64 {\n\ts := \"\\t\\\\\"\n\treturn uint64(len(s))\n}")
	b.add("expr/lit/string-non-ascii-len", "func FN() uint64 {\n\ts := \"\\u00e9\"\n\treturn uint64(len(s))\n}")
}

func genConversions(b *builder, level int) {
	for _, from := range widths {
		for _, to := range widths {
			conv := to.ty
			b.add(fmt.Sprintf("conv/%s-to-%s/%s", from.tag, to.tag, conv),
				fmt.Sprintf("func FN(x %s) %s {\n\treturn %s(x)\n}", from.ty, to.ty, conv))
			if to.bits == 8 {
				// the other spelling of the 8-bit type
				b.add(fmt.Sprintf("conv/%s-to-%s/uint8", from.tag, to.tag),
					fmt.Sprintf("func FN(x %s) %s {\n\treturn uint8(x)\n}", from.ty, to.ty))
			}
			if level > 0 {
				b.add(fmt.Sprintf("conv/%s-to-%s/arith", from.tag, to.tag),
					fmt.Sprintf("func FN(x %s, y %s) %s {\n\treturn %s(x+1) + y\n}", from.ty, to.ty, to.ty, conv))
			}
		}
	}
	b.add("conv/len-u64", "func FN(s []uint64) uint64 {\n\treturn uint64(len(s))\n}")
	b.add("conv/len-u32", "func FN(s []byte) uint32 {\n\treturn uint32(len(s))\n}")
	b.add("conv/named-to-base", "func FN(x Num) uint64 {\n\treturn uint64(x) + 1\n}")
	b.add("conv/base-to-named", "func FN(x uint64) Num {\n\treturn Num(x) + 1\n}")
	b.add("conv/narrow-widen", "func FN(x uint64) uint64 {\n\treturn uint64(uint32(x)) + uint64(byte(x>>8))\n}")
	b.add("conv/literal-u8", "func FN(x byte) byte {\n\treturn x + byte(3)\n}")
}

type lval struct {
	name   string
	params string
	setup  string
	lhs    string
	ret    string
	rty    string
}

var lvals = []lval{
	{"var", "x uint64", "\tvar v uint64 = x\n", "v", "v", "uint64"},
	{"ptr-field", "x uint64, p *Pt", "\tp.X = x\n", "p.X", "p.X + p.Y", "uint64"},
	{"var-struct-field", "x uint64", "\tvar s Pt\n\ts.X = x\n", "s.X", "s.X + s.Y", "uint64"},
	{"slice-elem", "x uint64, a []uint64", "\tif uint64(len(a)) == 0 {\n\t\treturn 0\n\t}\n\ta[0] = x\n", "a[0]", "a[0]", "uint64"},
	{"map-elem", "x uint64, m map[uint64]uint64", "\tm[1] = x\n", "m[1]", "m[1]", "uint64"},
	{"deref", "x uint64, q *uint64", "\t*q = x\n", "*q", "*q", "uint64"},
}

func genStatements(b *builder, level int) {
	ops := []struct{ op, name string }{{"=", "assign"}, {"+=", "addassign"}, {"-=", "subassign"}, {"|=", "orassign"}, {"&=", "andassign"}, {"^=", "xorassign"}}
	for _, lv := range lvals {
		for _, op := range ops {
			b.add(fmt.Sprintf("stmt/%s/%s", op.name, lv.name),
				fmt.Sprintf("func FN(%s, y uint64) %s {\n%s\t%s %s y\n\treturn %s\n}", lv.params, lv.rty, lv.setup, lv.lhs, op.op, lv.ret))
		}
	}
	b.add("stmt/inc/var", "func FN(x uint64) uint64 {\n\tvar v uint64 = x\n\tv++\n\tv++\n\treturn v\n}")
	b.add("stmt/dec/var", "func FN(x uint64) uint64 {\n\tvar v = x\n\tv--\n\treturn v\n}")
	b.add("stmt/inc/u32", "func FN(x uint32) uint32 {\n\tvar v uint32 = x\n\tv++\n\treturn v\n}")
	b.add("stmt/inc/u8", "func FN(x byte) byte {\n\tvar v byte = x\n\tv++\n\treturn v\n}")
	b.add("stmt/var-zero", "func FN(x uint64) uint64 {\n\tvar a uint64\n\tvar b bool\n\tvar s string\n\tif b {\n\t\treturn 1\n\t}\n\treturn a + x + uint64(len(s))\n}")
	b.add("stmt/var-bool", "func FN(p bool, q bool) bool {\n\tvar r = p\n\tr = r && q\n\tr = !r\n\treturn r\n}")
	b.add("stmt/define-chain", "func FN(x uint64) uint64 {\n\ta := x + 1\n\tb := a * a\n\tc := b - a\n\treturn c ^ a\n}")
	b.add("stmt/discard", "func FNside(p *uint64) uint64 {\n\t*p = *p + 1\n\treturn 7\n}\n\nfunc FN(q *uint64) uint64 {\n\t_ = FNside(q)\n\tFNside(q)\n\treturn *q\n}")
	b.add("stmt/multi-assign", "func FNtwo(x uint64) (uint64, uint64) {\n\treturn x + 1, x + 2\n}\n\nfunc FN(x uint64) uint64 {\n\tvar a uint64\n\tvar b uint64\n\ta, b = FNtwo(x)\n\treturn a*10 + b\n}")
	b.add("stmt/multi-assign-mixed", "func FNtwo(x uint64) (uint64, bool) {\n\treturn x + 1, x > 5\n}\n\nfunc FN(x uint64, p *Pt) uint64 {\n\tvar ok bool\n\tp.Y, ok = FNtwo(x)\n\tif ok {\n\t\treturn p.Y\n\t}\n\treturn p.X\n}")
}

func genControl(b *builder, level int) {
	// if-trees
	b.add("ctl/if/early-return", "func FN(x uint64) uint64 {\n\tif x > 10 {\n\t\treturn 1\n\t}\n\treturn x + 2\n}")
	b.add("ctl/if/else-return", "func FN(x uint64) uint64 {\n\tif x > 10 {\n\t\treturn 1\n\t} else {\n\t\treturn x + 2\n\t}\n}")
	b.add("ctl/if/elseif", "func FN(x uint64) uint64 {\n\tif x > 10 {\n\t\treturn 1\n\t} else if x > 5 {\n\t\treturn 2\n\t} else {\n\t\treturn 3\n\t}\n}")
	b.add("ctl/if/fallthrough", "func FN(x uint64) uint64 {\n\tvar r uint64 = 0\n\tif x > 10 {\n\t\tr = 5\n\t} else {\n\t\tr = 6\n\t}\n\tr += x\n\treturn r\n}")
	b.add("ctl/if/fallthrough-noelse", "func FN(x uint64) uint64 {\n\tvar r = x\n\tif x > 10 {\n\t\tr = 5\n\t}\n\treturn r + 1\n}")
	b.add("ctl/if/two-early-returns", "func FN(x uint64, y uint64) uint64 {\n\tif x > y {\n\t\treturn 1\n\t}\n\tif x == y {\n\t\treturn 2\n\t}\n\treturn 3\n}")
	b.add("ctl/if/nested-early", "func FN(x uint64, y uint64) uint64 {\n\tif x > 3 {\n\t\tif y > 3 {\n\t\t\treturn 1\n\t\t}\n\t\treturn 2\n\t}\n\treturn 3\n}")
	b.add("ctl/if/nested-tail", "func FN(x uint64, y uint64) uint64 {\n\tif x > 3 {\n\t\tif y > 3 {\n\t\t\treturn 1\n\t\t} else {\n\t\t\treturn 2\n\t\t}\n\t} else {\n\t\tif y > 7 {\n\t\t\treturn 3\n\t\t}\n\t\treturn 4\n\t}\n}")
	b.add("ctl/if/unit-early-return", "func FN(p *Pt, x uint64) {\n\tif x == 0 {\n\t\treturn\n\t}\n\tp.X = x\n}")
	b.add("ctl/if/side-effect-then-return", "func FN(p *Pt, x uint64) uint64 {\n\tif x > 4 {\n\t\tp.X = x\n\t\treturn p.Y\n\t}\n\tp.Y = x\n\treturn p.X\n}")
	b.add("ctl/if/mid-block-then-rest", "func FN(x uint64) uint64 {\n\tvar a = x\n\tif a > 2 {\n\t\ta = a - 2\n\t}\n\tvar b = a\n\tif b > 2 {\n\t\tb = b - 2\n\t} else {\n\t\tb = b + 1\n\t}\n\treturn a + b\n}")
	// loops (loop-controlling argument n is assumed small)
	b.add("ctl/for/three-clause", "func FN(n uint64) uint64 {\n\tvar s uint64 = 0\n\tfor i := uint64(0); i < n; i++ {\n\t\ts += i\n\t}\n\treturn s\n}", "small:n")
	b.add("ctl/for/cond-only", "func FN(n uint64) uint64 {\n\tvar i uint64 = 0\n\tvar s uint64 = 1\n\tfor i < n {\n\t\ts = s * 2\n\t\ti = i + 1\n\t}\n\treturn s\n}", "small:n")
	b.add("ctl/for/infinite-break", "func FN(n uint64) uint64 {\n\tvar i uint64 = 0\n\tfor {\n\t\tif i >= n {\n\t\t\tbreak\n\t\t}\n\t\ti++\n\t}\n\treturn i\n}", "small:n")
	b.add("ctl/for/continue", "func FN(n uint64) uint64 {\n\tvar s uint64 = 0\n\tfor i := uint64(0); i < n; i++ {\n\t\tif i%2 == 0 {\n\t\t\tcontinue\n\t\t}\n\t\ts += i\n\t}\n\treturn s\n}", "small:n")
	b.add("ctl/for/break-else-continue", "func FN(n uint64, k uint64) uint64 {\n\tvar s uint64 = 0\n\tfor i := uint64(0); i < n; i++ {\n\t\tif i == k {\n\t\t\tbreak\n\t\t} else {\n\t\t\ts += 10\n\t\t\tcontinue\n\t\t}\n\t}\n\treturn s\n}", "small:n")
	b.add("ctl/for/nested", "func FN(n uint64, m uint64) uint64 {\n\tvar s uint64 = 0\n\tfor i := uint64(0); i < n; i++ {\n\t\tfor j := uint64(0); j < m; j++ {\n\t\t\ts += i*10 + j\n\t\t}\n\t}\n\treturn s\n}", "small:n,m")
	b.add("ctl/for/nested-break-inner", "func FN(n uint64) uint64 {\n\tvar s uint64 = 0\n\tfor i := uint64(0); i < n; i++ {\n\t\tfor j := uint64(0); ; j++ {\n\t\t\tif j > i {\n\t\t\t\tbreak\n\t\t\t}\n\t\t\ts++\n\t\t}\n\t}\n\treturn s\n}", "small:n")
	b.add("ctl/for/loop-then-rest", "func FN(n uint64) uint64 {\n\tvar s uint64 = 0\n\tfor i := uint64(0); i < n; i++ {\n\t\ts += 2\n\t}\n\tvar t = s * 3\n\treturn t + 1\n}", "small:n")
	b.add("ctl/for/return-after-loop-in-if", "func FN(n uint64) uint64 {\n\tvar s uint64 = 0\n\tfor i := uint64(0); i < n; i++ {\n\t\ts += i\n\t}\n\tif s > 2 {\n\t\treturn s\n\t}\n\treturn 0\n}", "small:n")
	b.add("ctl/range/slice-kv", "func FN(a []uint64) uint64 {\n\tvar s uint64 = 0\n\tfor i, v := range a {\n\t\ts += uint64(i) * v\n\t}\n\treturn s\n}")
	b.add("ctl/range/slice-v", "func FN(a []uint64) uint64 {\n\tvar s uint64 = 0\n\tfor _, v := range a {\n\t\ts += v\n\t}\n\treturn s\n}")
	b.add("ctl/range/slice-k", "func FN(a []byte) uint64 {\n\tvar s uint64 = 0\n\tfor i := range a {\n\t\ts += uint64(i) + 1\n\t}\n\treturn s\n}")
	b.add("ctl/range/slice-bytes", "func FN(a []byte) byte {\n\tvar s byte = 0\n\tfor _, v := range a {\n\t\ts = s ^ v\n\t}\n\treturn s\n}")
	b.add("ctl/range/map-sum", "func FN(m map[uint64]uint64) uint64 {\n\tvar s uint64 = 0\n\tfor k, v := range m {\n\t\ts += k ^ v\n\t}\n\treturn s\n}")
	b.add("ctl/range/map-count", "func FN(m map[uint64]bool) uint64 {\n\tvar c uint64 = 0\n\tfor _, v := range m {\n\t\tif v {\n\t\t\tc++\n\t\t}\n\t}\n\treturn c\n}")
}

func genScoping(b *builder, level int) {
	b.add("scope/shadow-in-then", "func FN(x uint64) uint64 {\n\ty := x + 1\n\tif x > 3 {\n\t\ty := x * 2\n\t\treturn y\n\t}\n\treturn y\n}")
	b.add("scope/shadow-in-else", "func FN(x uint64) uint64 {\n\ty := x + 1\n\tif x > 3 {\n\t\treturn y\n\t} else {\n\t\ty := uint64(9)\n\t\treturn y + x\n\t}\n}")
	b.add("scope/shadow-in-midblock-if", "func FN(x uint64) uint64 {\n\ty := x + 1\n\tvar r uint64 = 0\n\tif x > 3 {\n\t\ty := x * 2\n\t\tr = y\n\t}\n\treturn y + r\n}")
	b.add("scope/shadow-in-loop-body", "func FN(n uint64) uint64 {\n\tv := uint64(100)\n\tvar s uint64 = 0\n\tfor i := uint64(0); i < n; i++ {\n\t\tv := i + 1\n\t\ts += v\n\t}\n\treturn s + v\n}", "small:n")
	b.add("scope/param-shadow", "func FN(x uint64) uint64 {\n\tif x > 2 {\n\t\tx := uint64(5)\n\t\treturn x\n\t}\n\treturn x\n}")
	b.add("scope/var-shadow-var", "func FN(x uint64) uint64 {\n\tvar a = x\n\tif x > 1 {\n\t\tvar a uint64 = 7\n\t\ta += 1\n\t}\n\treturn a\n}")
	b.add("scope/bare-block-tail", "func FN(x uint64) uint64 {\n\ty := x + 1\n\t{\n\t\ty := y * 2\n\t\treturn y\n\t}\n}")
	b.add("scope/bare-block-nontail", "func FN(x uint64) uint64 {\n\ty := x + 1\n\tvar r uint64 = 0\n\t{\n\t\ty := x * 2\n\t\tr = y\n\t}\n\treturn y + r\n}", "tag:bare-block-nontail")
	b.add("scope/bare-block-nontail-noshadow", "func FN(x uint64) uint64 {\n\tvar r uint64 = 0\n\t{\n\t\tt := x * 2\n\t\tr = t\n\t}\n\treturn r + 1\n}")
	b.add("scope/loopvar-hides-outer", "func FN(n uint64) uint64 {\n\ti := uint64(50)\n\tvar s uint64 = 0\n\tfor i := uint64(0); i < n; i++ {\n\t\ts += i\n\t}\n\treturn s + i\n}", "small:n", "tag:loopvar-leak")
	b.add("scope/loopvar-reused-name", "func FN(n uint64) uint64 {\n\tvar s uint64 = 0\n\tfor i := uint64(0); i < n; i++ {\n\t\ts += i\n\t}\n\tfor i := uint64(0); i < n; i++ {\n\t\ts += 2 * i\n\t}\n\treturn s\n}", "small:n")
	b.add("scope/closure-capture-shadow", "func FN(x uint64) uint64 {\n\ty := x + 1\n\tf := func(y uint64) uint64 {\n\t\treturn y * 2\n\t}\n\treturn f(3) + y\n}")
}

func genData(b *builder, level int) {
	b.add("data/struct/literal", "func FN(x uint64, y uint64) Pt {\n\treturn Pt{X: x, Y: y}\n}")
	b.add("data/struct/literal-partial", "func FN(x uint64) Pt {\n\treturn Pt{Y: x}\n}")
	b.add("data/struct/literal-reordered", "func FN(x uint64, y uint64) Pt {\n\treturn Pt{Y: y, X: x}\n}")
	b.add("data/struct/copy-is-independent", "func FN(x uint64) uint64 {\n\tvar a Pt\n\ta.X = x\n\tb := a\n\ta.X = 1\n\treturn b.X\n}")
	b.add("data/struct/nested-field", "func FN(r Rec) uint64 {\n\treturn r.A + uint64(r.B) + uint64(r.C) + r.P.X\n}")
	b.add("data/struct/nested-literal", "func FN(x uint64) Rec {\n\treturn Rec{A: x, P: Pt{X: x + 1}, D: true}\n}")
	// l-values inside struct values nested in a struct: the base of the reference is itself a field
	// reference (never a loaded copy of the enclosing struct)
	b.add("data/struct/nested-field-ref-through-ptr", "func FN(r *Rec, x uint64) uint64 {\n\tq := &r.P.Y\n\t*q = x\n\treturn r.P.Y + r.P.X\n}")
	b.add("data/struct/nested-field-ref-in-var", "func FN(x uint64) uint64 {\n\tvar r Rec\n\tq := &r.P.X\n\t*q = x\n\t*q = *q + 1\n\treturn r.P.X + r.P.Y\n}")
	b.add("data/struct/nested-assign-through-ptr", "func FN(r *Rec, x uint64) uint64 {\n\tr.P.X = x\n\treturn r.P.X + r.A\n}")
	b.add("data/struct/nested-assign-in-var", "func FN(x uint64) uint64 {\n\tvar r Rec\n\tr.P.Y = x\n\tr.A = 2\n\treturn r.P.Y + r.A + r.P.X\n}")
	b.add("data/struct/nested-three-deep", "func FN(w *Wrap, x uint64) uint64 {\n\tw.R.P.X = x\n\tq := &w.R.P.Y\n\t*q = x + 1\n\tw.N = 3\n\treturn w.R.P.X + w.R.P.Y + w.R.A + w.N\n}")
	b.add("data/struct/nested-three-deep-var", "func FN(x uint64) uint64 {\n\tvar w Wrap\n\tw.R.P.X = x\n\tq := &w.R.A\n\t*q = 5\n\treturn w.R.P.X + w.R.A\n}")
	b.add("data/struct/nested-copy-out-is-independent", "func FN(r *Rec, x uint64) uint64 {\n\tp := r.P\n\tr.P.X = x\n\treturn p.X + r.P.X\n}")
	b.add("data/struct/ptr-literal", "func FN(x uint64) uint64 {\n\tp := &Pt{X: x, Y: 2}\n\tp.Y += p.X\n\treturn p.Y\n}")
	b.add("data/struct/new", "func FN(x uint64) uint64 {\n\tp := new(Pt)\n\tp.X = x\n\treturn p.X + p.Y\n}")
	b.add("data/struct/deref-copy", "func FN(p *Pt) Pt {\n\tq := *p\n\tp.X = 99\n\treturn q\n}")
	b.add("data/struct/store-through-ptr", "func FN(p *Pt, x uint64) {\n\t*p = Pt{X: x, Y: x + 1}\n}")
	b.add("data/struct/field-ptr-alias", "func FN(p *Pt, x uint64) uint64 {\n\tq := &p.Y\n\t*q = x\n\treturn p.Y\n}")
	b.add("data/struct/var-field-ptr", "func FN(x uint64) uint64 {\n\tvar s Pt\n\tq := &s.X\n\t*q = x\n\treturn s.X\n}")
	b.add("data/struct/ptr-in-struct", "func FN(bx *Box, x uint64) uint64 {\n\tif bx.N == nil {\n\t\treturn 0\n\t}\n\tbx.N.X = x\n\treturn bx.N.X + bx.V\n}")
	b.add("data/ptr/local", "func FN(x uint64) uint64 {\n\tvar v = x\n\tp := &v\n\t*p = *p + 1\n\treturn v\n}")
	b.add("data/ptr/alias-two", "func FN(x uint64) uint64 {\n\tp := new(uint64)\n\tq := p\n\t*p = x\n\t*q = *q + 5\n\treturn *p\n}")
	b.add("data/ptr/nil-compare", "func FN(p *Pt) uint64 {\n\tif p == nil {\n\t\treturn 0\n\t}\n\treturn p.X\n}")
	b.add("data/ptr/swap-through-ptrs", "func FN(a *uint64, b *uint64) {\n\tt := *a\n\t*a = *b\n\t*b = t\n}")
	b.add("data/slice/make-set-get", "func FN(x uint64) uint64 {\n\ta := make([]uint64, 3)\n\ta[1] = x\n\treturn a[0] + a[1] + uint64(len(a))\n}")
	b.add("data/slice/make-cap", "func FN(x uint64) uint64 {\n\tvar a = make([]uint64, 1, 4)\n\ta = append(a, x)\n\treturn a[1] + uint64(len(a)) + uint64(cap(a))\n}")
	b.add("data/slice/append-nil", "func FN(x uint64, y uint64) []uint64 {\n\tvar a []uint64\n\ta = append(a, x)\n\ta = append(a, y)\n\treturn a\n}")
	b.add("data/slice/append-slice", "func FN(a []uint64, b []uint64) []uint64 {\n\treturn append(a, b...)\n}")
	b.add("data/slice/sub-lo", "func FN(a []uint64) []uint64 {\n\tif uint64(len(a)) < 1 {\n\t\treturn a\n\t}\n\treturn a[1:]\n}")
	b.add("data/slice/sub-hi", "func FN(a []uint64) []uint64 {\n\tif uint64(len(a)) < 1 {\n\t\treturn a\n\t}\n\treturn a[:1]\n}")
	b.add("data/slice/sub-lo-hi", "func FN(a []uint64) []uint64 {\n\tif uint64(len(a)) < 2 {\n\t\treturn a\n\t}\n\treturn a[1:2]\n}")
	b.add("data/slice/sub-aliases", "func FN(a []uint64, x uint64) uint64 {\n\tif uint64(len(a)) < 2 {\n\t\treturn 0\n\t}\n\tb := a[1:]\n\tb[0] = x\n\treturn a[1]\n}")
	b.add("data/slice/copy", "func FN(a []uint64, b []uint64) uint64 {\n\tn := copy(a, b)\n\treturn uint64(n)\n}")
	b.add("data/slice/nil-compare", "func FN(a []uint64) bool {\n\treturn a == nil\n}")
	b.add("data/slice/empty-literal", "func FN() uint64 {\n\ta := []uint64{}\n\treturn uint64(len(a))\n}")
	b.add("data/slice/singleton-literal", "func FN(x uint64) []uint64 {\n\treturn []uint64{x}\n}")
	b.add("data/slice/elem-ptr", "func FN(a []uint64, x uint64) uint64 {\n\tif uint64(len(a)) < 1 {\n\t\treturn 0\n\t}\n\tp := &a[0]\n\t*p = x\n\treturn a[0]\n}")
	b.add("data/slice/of-structs", "func FN(x uint64) uint64 {\n\ta := make([]Pt, 2)\n\ta[1] = Pt{X: x, Y: 1}\n\treturn a[1].X + a[0].Y\n}")
	b.add("data/slice/bytes-set", "func FN(a []byte, x byte) {\n\tif uint64(len(a)) > 0 {\n\t\ta[0] = x + 1\n\t}\n}")
	b.add("data/map/make-insert-get", "func FN(k uint64, v uint64) uint64 {\n\tm := make(map[uint64]uint64)\n\tm[k] = v\n\treturn m[k] + m[k+1]\n}")
	b.add("data/map/comma-ok", "func FN(m map[uint64]uint64, k uint64) uint64 {\n\tv, ok := m[k]\n\tif ok {\n\t\treturn v\n\t}\n\treturn 77\n}")
	b.add("data/map/delete", "func FN(m map[uint64]uint64, k uint64) uint64 {\n\tdelete(m, k)\n\treturn uint64(len(m))\n}")
	b.add("data/map/len", "func FN(m map[uint64]bool) uint64 {\n\treturn uint64(len(m))\n}")
	b.add("data/map/string-key", "func FN(m map[string]uint64, k string) uint64 {\n\tm[k] = m[k] + 1\n\treturn m[k]\n}")
	b.add("data/map/overwrite", "func FN(m map[uint64]uint64, k uint64) {\n\tm[k] = 1\n\tm[k] = 2\n}")
	b.add("data/map/struct-values", "func FN(k uint64, x uint64) uint64 {\n\tm := make(map[uint64]Pt)\n\tm[k] = Pt{X: x}\n\treturn m[k].X + m[k+1].Y\n}")
}

// genPtrPtr: cells that hold pointers to structs (pointer-to-pointer cursors).
func genPtrPtr(b *builder, level int) {
	b.add("data/ptrptr/load-store", "func FN(pp **Pt, n *Pt) uint64 {\n\told := *pp\n\t*pp = n\n\treturn old.X + (*pp).Y\n}")
	b.add("data/ptrptr/swap", "func FN(a **Pt, b **Pt) {\n\tt := *a\n\t*a = *b\n\t*b = t\n}")
	b.add("data/ptrptr/new-cell", "func FN(x uint64) uint64 {\n\tcell := new(*Pt)\n\t*cell = &Pt{X: x, Y: 2}\n\tp := *cell\n\tp.Y = p.Y + 1\n\treturn (*cell).X + (*cell).Y\n}")
	b.add("data/ptrptr/field-through-cell", "func FN(pp **Pt, v uint64) uint64 {\n\t(*pp).X = v\n\tq := &(*pp).Y\n\t*q = v + 1\n\treturn (*pp).X + (*pp).Y\n}")
	b.add("data/ptrptr/sorted-insert", "type FNnode struct {\n\tval  uint64\n\tnext *FNnode\n}\n\nfunc FNinsert(head **FNnode, n *FNnode) {\n\tvar pp **FNnode = head\n\tfor *pp != nil && (*pp).val < n.val {\n\t\tpp = &(*pp).next\n\t}\n\tn.next = *pp\n\t*pp = n\n}\n\nfunc FN(a uint64, b uint64, c uint64) uint64 {\n\thead := new(*FNnode)\n\tFNinsert(head, &FNnode{val: a})\n\tFNinsert(head, &FNnode{val: b})\n\tFNinsert(head, &FNnode{val: c})\n\tfirst := *head\n\treturn first.val*100 + first.next.val*10 + first.next.next.val\n}", "small:a,b,c")
	b.add("data/ptrptr/slice-of-ptrs", "func FN(x uint64) uint64 {\n\ta := make([]*Pt, 2)\n\ta[0] = &Pt{X: x}\n\ta[1] = a[0]\n\ta[1].Y = 5\n\treturn a[0].X + a[0].Y\n}")
	b.add("data/ptrptr/map-of-ptrs", "func FN(k uint64, x uint64) uint64 {\n\tm := make(map[uint64]*Pt)\n\tm[k] = &Pt{X: x}\n\tp := m[k]\n\tp.Y = 7\n\treturn m[k].X + m[k].Y\n}")
}

func genNamed(b *builder, level int) {
	b.add("named/map-make-read", "func FN(k uint64) bool {\n\ts := make(Set)\n\treturn s[k]\n}")
	b.add("named/map-make-commaok", "func FN(k uint64) bool {\n\ts := make(Set)\n\tv, ok := s[k]\n\treturn v || ok\n}")
	b.add("named/map-string-make", "func FN(k string) uint64 {\n\tt := make(Tab)\n\treturn t[k] + uint64(len(t))\n}")
	b.add("named/map-param", "func FN(s Set, k uint64) bool {\n\tv, ok := s[k]\n\treturn v && ok\n}")
	b.add("named/slice-make", "func FN(x uint64) uint64 {\n\tl := make(List, 2)\n\treturn l[0] + l[1] + uint64(len(l)) + x\n}")
	b.add("named/slice-append", "func FN(l List, x uint64) List {\n\treturn append(l, x)\n}")
	b.add("named/slice-sub", "func FN(l List) List {\n\tif uint64(len(l)) < 1 {\n\t\treturn l\n\t}\n\treturn l[1:]\n}")
	b.add("named/slice-take", "func FN(l List) List {\n\tif uint64(len(l)) < 1 {\n\t\treturn l\n\t}\n\treturn l[:1]\n}")
	b.add("named/slice-range", "func FN(l List) uint64 {\n\tvar s uint64 = 0\n\tfor _, v := range l {\n\t\ts += v\n\t}\n\treturn s\n}")
	b.add("named/ptr-nil-return", "func FN(x uint64) *Pt {\n\tif x > 3 {\n\t\treturn nil\n\t}\n\treturn &Pt{X: x}\n}")
	b.add("named/slice-nil-return", "func FN(x uint64) []uint64 {\n\tif x > 3 {\n\t\treturn nil\n\t}\n\treturn []uint64{x}\n}")
	b.add("named/map-commaok-assign", "func FN(m map[uint64]uint64, k uint64) uint64 {\n\tvar v uint64\n\tvar ok bool\n\tv, ok = m[k]\n\tif ok {\n\t\treturn v\n\t}\n\treturn 7\n}")
	b.add("named/func-field-call", "func FNdbl(x uint64) uint64 {\n\treturn x * 2\n}\n\nfunc FN(x uint64) uint64 {\n\th := Hook{Cb: FNdbl, K: 1}\n\treturn h.Cb(x) + h.K\n}")
	b.add("named/func-field-value", "func FNdbl(x uint64) uint64 {\n\treturn x * 2\n}\n\nfunc FN(x uint64) uint64 {\n\th := Hook{Cb: FNdbl, K: 1}\n\tg := h.Cb\n\treturn g(x)\n}")
}

func genFuncs(b *builder, level int) {
	b.add("func/multi-return-2", "func FNtwo(x uint64) (uint64, bool) {\n\treturn x + 1, x > 3\n}\n\nfunc FN(x uint64) uint64 {\n\ta, ok := FNtwo(x)\n\tif ok {\n\t\treturn a\n\t}\n\treturn 0\n}")
	b.add("func/multi-return-3", "func FNthree(x uint64) (uint64, uint64, uint64) {\n\treturn x, x + 1, x + 2\n}\n\nfunc FN(x uint64) uint64 {\n\ta, b, c := FNthree(x)\n\treturn a + 10*b + 100*c\n}")
	b.add("func/multi-return-4", "func FNfour(x uint64) (uint64, bool, uint32, byte) {\n\treturn x, x > 1, uint32(x), byte(3)\n}\n\nfunc FN(x uint64) uint64 {\n\ta, b, c, d := FNfour(x)\n\tif b {\n\t\treturn a + uint64(c) + uint64(d)\n\t}\n\treturn 0\n}")
	b.add("func/return-tuple-direct", "func FN(x uint64, y uint64) (uint64, uint64) {\n\treturn y, x\n}")
	b.add("func/return-tuple-3", "func FN(x uint64) (uint64, bool, string) {\n\treturn x + 1, x == 0, \"ok\"\n}")
	b.add("func/ignore-results", "func FNtwo(x uint64) (uint64, uint64) {\n\treturn x + 1, x + 2\n}\n\nfunc FN(x uint64) uint64 {\n\t_, b := FNtwo(x)\n\ta, _ := FNtwo(b)\n\treturn a\n}")
	b.add("func/closure-basic", "func FN(x uint64) uint64 {\n\tf := func(a uint64) uint64 {\n\t\treturn a + x\n\t}\n\treturn f(1) + f(2)\n}")
	b.add("func/closure-mutates-captured", "func FN(x uint64) uint64 {\n\tvar acc = x\n\tadd := func(a uint64) {\n\t\tacc = acc + a\n\t}\n\tadd(1)\n\tadd(2)\n\treturn acc\n}")
	b.add("func/closure-returned", "func FNmk(x uint64) func(uint64) uint64 {\n\treturn func(a uint64) uint64 {\n\t\treturn a * x\n\t}\n}\n\nfunc FN(x uint64) uint64 {\n\tg := FNmk(x)\n\treturn g(3)\n}")
	b.add("func/recursion", "func FN(n uint64) uint64 {\n\tif n == 0 {\n\t\treturn 1\n\t}\n\treturn n * FN(n-1)\n}", "small:n")
	b.add("func/mutual-recursion", "func FNodd(n uint64) bool {\n\tif n == 0 {\n\t\treturn false\n\t}\n\treturn FN(n - 1)\n}\n\nfunc FN(n uint64) bool {\n\tif n == 0 {\n\t\treturn true\n\t}\n\treturn FNodd(n - 1)\n}", "small:n")
	b.add("func/method-value-recv", "func (p Pt) FNsum() uint64 {\n\treturn p.X + p.Y\n}\n\nfunc FN(p Pt) uint64 {\n\treturn p.FNsum()\n}")
	b.add("func/method-ptr-recv", "func (p *Pt) FNbump(d uint64) {\n\tp.X = p.X + d\n}\n\nfunc FN(p *Pt, d uint64) uint64 {\n\tp.FNbump(d)\n\tp.FNbump(1)\n\treturn p.X\n}")
	b.add("func/method-on-var", "func (p *Pt) FNset(v uint64) {\n\tp.Y = v\n}\n\nfunc FN(v uint64) uint64 {\n\tp := new(Pt)\n\tp.FNset(v)\n\treturn p.Y\n}")
	b.add("func/unit-function", "func FNeffect(p *uint64) {\n\t*p = 3\n}\n\nfunc FN(p *uint64) uint64 {\n\tFNeffect(p)\n\treturn *p\n}")
	b.add("func/first-class", "func FNapply(f func(uint64) uint64, x uint64) uint64 {\n\treturn f(f(x))\n}\n\nfunc FNinc(x uint64) uint64 {\n\treturn x + 1\n}\n\nfunc FN(x uint64) uint64 {\n\treturn FNapply(FNinc, x)\n}")
}

// genComments: doc comments whose lines look like Coq sentences, and string literals made of
// parentheses and comment delimiters in positions where the printer decides about grouping.
func genComments(b *builder, level int) {
	for i, ln := range []string{"Definition of terms: none.", "Definition of terms: some.", "End code.", "Section code.", "Proof. Qed.", "Notation x := y.", "Definition FN: val := #().", "From Goose Require foo."} {
		b.add(fmt.Sprintf("doc/coq-looking-line/%d", i), "// FN has a doc comment with a continuation line:\n// "+ln+"\n// and one more line.\nfunc FN(x uint64) uint64 {\n\treturn x + "+fmt.Sprint(i)+"\n}")
	}
	b.add("doc/same-text-twice/a", "// FN shares its whole comment with another function.\n// Definition shared: yes\nfunc FN(x uint64) uint64 {\n\treturn x + 1\n}")
	b.add("doc/same-text-twice/b", "// FN shares its whole comment with another function.\n// Definition shared: yes\nfunc FN(x uint64) uint64 {\n\treturn x + 2\n}")
	b.add("doc/struct-and-const", "// FNcfg is documented.\n// Definition FNcfg := wrong.\ntype FNcfg struct {\n\tN uint64\n}\n\n// FNk is documented too.\n// Definition FNk := wrong.\nconst FNk uint64 = 3\n\nfunc FN(c FNcfg) uint64 {\n\treturn c.N + FNk\n}")
	b.add("strlit/parens-in-loop-body", "func FN(a []uint64) string {\n\tvar out string = \"\"\n\tfor _, t := range a {\n\t\tif t == 0 {\n\t\t\tout = out + \"(\"\n\t\t}\n\t\tif t == 1 {\n\t\t\tout = out + \")\"\n\t\t}\n\t}\n\treturn out\n}")
	b.add("strlit/parens-in-for-body", "func FN(n uint64) string {\n\tvar out string = \"\"\n\tfor i := uint64(0); i < n; i++ {\n\t\tif i == 0 {\n\t\t\tout = out + \"(\"\n\t\t}\n\t\tout = out + \"x\"\n\t\tif i == 1 {\n\t\t\tout = out + \")\"\n\t\t}\n\t}\n\treturn out\n}", "small:n")
	b.add("strlit/parens-in-if-branches", "func FN(x uint64) string {\n\tvar out string = \"(\"\n\tif x > 1 {\n\t\tout = out + \"(\"\n\t\tout = out + \")\"\n\t} else {\n\t\tout = out + \")\"\n\t}\n\treturn out + \")\"\n}")
	b.add("strlit/comment-delimiters", "func FN(s string) string {\n\tt := s + \"(*\"\n\tu := t + \"*)\"\n\treturn u + \"(* x *)\"\n}")
	b.add("strlit/closure-body-parens", "func FN(x uint64) string {\n\tf := func(y uint64) string {\n\t\tif y > x {\n\t\t\treturn \"(\"\n\t\t}\n\t\treturn \")\"\n\t}\n\treturn f(1) + f(3)\n}")
}

func genPrims(b *builder, level int) {
	b.add("prim/random", "func FN(x uint64) uint64 {\n\tr := machine.RandomUint64()\n\treturn r - r + x\n}")
	b.add("prim/timenow", "func FN(x uint64) uint64 {\n\tt := machine.TimeNow()\n\treturn t - t + x\n}")
	b.add("prim/log-printf", "func FN(x uint64) uint64 {\n\tlog.Printf(\"x is %d\", x)\n\treturn x + 1\n}")
	b.add("prim/log-println-mid", "func FN(x uint64) uint64 {\n\tvar v = x\n\tif x > 2 {\n\t\tlog.Println(\"big\")\n\t\tv = 2\n\t}\n\treturn v\n}")
	b.add("prim/fmt-println", "func FN(x uint64) uint64 {\n\tfmt.Println(\"value\", x)\n\treturn x * 2\n}")
	b.add("prim/panic-literal", "func FN(x uint64) uint64 {\n\tif x > 3 {\n\t\tpanic(\"too big\")\n\t}\n\treturn x\n}")
	b.add("prim/panic-nonliteral", "func FN(x uint64, s string) uint64 {\n\tif x > 3 {\n\t\tpanic(s)\n\t}\n\treturn x + 1\n}")
	b.add("prim/string-of-string", "func FN(s string) string {\n\treturn string(s) + \"a\"\n}")
	b.add("func/generic-explicit", "func FNid[T any](v T) T {\n\treturn v\n}\n\nfunc FN(x uint64) uint64 {\n\treturn FNid[uint64](x) + 1\n}")
	b.add("func/generic-implicit", "func FNid[T any](v T) T {\n\treturn v\n}\n\nfunc FN(x uint64, p bool) uint64 {\n\tif FNid(p) {\n\t\treturn FNid(x)\n\t}\n\treturn 0\n}")
	b.add("func/generic-two-params", "func FNfst[A any, B any](a A, b B) A {\n\treturn a\n}\n\nfunc FN(x uint64) uint64 {\n\treturn FNfst[uint64, bool](x, true) + FNfst(x, x)\n}")
	b.add("func/generic-slice", "func FNlen[T any](a []T) uint64 {\n\treturn uint64(len(a))\n}\n\nfunc FN(a []uint64, b []byte) uint64 {\n\treturn FNlen(a)*10 + FNlen(b)\n}")
	b.add("data/array/new", "func FN(x uint64) uint64 {\n\ta := new([3]uint64)\n\t_ = a\n\treturn x\n}")
	b.add("data/map/of-slices", "func FN(k uint64, x uint64) uint64 {\n\tm := make(map[uint64][]uint64)\n\tm[k] = append(m[k], x)\n\treturn uint64(len(m[k])) + uint64(len(m[k+1]))\n}")
	b.add("data/any/param", "func FNany(v interface{}) uint64 {\n\treturn 3\n}\n\nfunc FN(x uint64) uint64 {\n\treturn FNany(x) + x\n}")
	b.add("prim/put-get-64", "func FN(x uint64) uint64 {\n\tb := make([]byte, 8)\n\tmachine.UInt64Put(b, x)\n\treturn machine.UInt64Get(b)\n}")
	b.add("prim/put-bytes-64", "func FN(x uint64) []byte {\n\tb := make([]byte, 8)\n\tmachine.UInt64Put(b, x)\n\treturn b\n}")
	b.add("prim/get-64", "func FN(b []byte) uint64 {\n\tif uint64(len(b)) < 8 {\n\t\treturn 0\n\t}\n\treturn machine.UInt64Get(b)\n}")
	b.add("prim/put-get-32", "func FN(x uint32) uint32 {\n\tb := make([]byte, 4)\n\tmachine.UInt32Put(b, x)\n\treturn machine.UInt32Get(b)\n}")
	b.add("prim/put-frame", "func FN(x uint64) byte {\n\tb := make([]byte, 9)\n\tb[8] = 5\n\tmachine.UInt64Put(b, x)\n\treturn b[8] + b[0]\n}")
	b.add("prim/tostring", "func FN(x uint64) string {\n\treturn machine.UInt64ToString(x)\n}")
	b.add("prim/assume", "func FN(x uint64) uint64 {\n\tmachine.Assume(x < 10)\n\treturn x + 1\n}")
	b.add("prim/assert", "func FN(x uint64) uint64 {\n\tmachine.Assert(x|1 != 0)\n\treturn x\n}")
	b.add("prim/mapclear", "func FN(m map[uint64]uint64) uint64 {\n\tmachine.MapClear(m)\n\treturn uint64(len(m))\n}")
	b.add("prim/linearize", "func FN(x uint64) uint64 {\n\tmachine.Linearize()\n\treturn x\n}")
}

// genCompositions: depth-2 combinations of control shapes with data/l-value forms.
func genCompositions(b *builder) {
	bodies := []struct{ name, stmt string }{
		{"store-field", "p.X = p.X + i"},
		{"store-slice", "a[0] = a[0] + i"},
		{"store-map", "m[i] = i + 1"},
		{"opassign-var", "acc ^= i"},
	}
	shapes := []struct{ name, pre, post string }{
		{"in-for", "for i := uint64(0); i < n; i++ {\n\t\t", "\n\t}"},
		{"in-if", "i := n\n\tif n > 1 {\n\t\t", "\n\t}"},
		{"in-if-else", "i := n + 1\n\tif n > 1 {\n\t\tacc = 5\n\t} else {\n\t\t", "\n\t}"},
		{"in-nested-if", "i := n\n\tif n > 0 {\n\t\tif n > 1 {\n\t\t\t", "\n\t\t}\n\t}"},
	}
	for _, sh := range shapes {
		for _, bd := range bodies {
			src := "func FN(n uint64, p *Pt, a []uint64, m map[uint64]uint64) uint64 {\n\tvar acc uint64 = 1\n\tif uint64(len(a)) == 0 {\n\t\treturn 0\n\t}\n\t" +
				sh.pre + bd.stmt + sh.post + "\n\treturn acc + p.X + a[0] + uint64(len(m))\n}"
			b.add("comp/"+sh.name+"/"+bd.name, src, "small:n")
		}
	}
	// every if-tree of depth 2 with return / fall-through leaves, with and without a remainder
	leaves := []string{"ret", "fall"}
	for _, l1 := range leaves {
		for _, l2 := range leaves {
			for _, l3 := range leaves {
				for _, rem := range []bool{false, true} {
					leaf := func(kind string, v int) string {
						if kind == "ret" {
							return fmt.Sprintf("return %d", v)
						}
						return fmt.Sprintf("r = %d", v)
					}
					// Goose only supports an early return as an if-then without else that always returns;
					// generate the shapes it documents: inner if/else as the tail of the then-branch.
					if l1 == "fall" && (l2 == "ret" || l3 == "ret") && rem {
						continue
					}
					src := "func FN(x uint64, y uint64) uint64 {\n\tvar r uint64 = 0\n\tif x > 1 {\n\t\tif y > 1 {\n\t\t\t" + leaf(l2, 1) + "\n\t\t} else {\n\t\t\t" + leaf(l3, 2) + "\n\t\t}\n"
					if l1 == "ret" {
						src += "\t\treturn r + 10\n"
					}
					src += "\t}\n"
					if rem {
						src += "\tr += 100\n"
					}
					src += "\treturn r\n}"
					name := fmt.Sprintf("comp/iftree/%s-%s-%s-rem%v", l1, l2, l3, rem)
					if l1 == "fall" && (l2 == "ret") != (l3 == "ret") {
						continue // one branch returns, the other falls through, then code follows: not in the subset
					}
					if l1 == "ret" && (l2 == "ret" && l3 == "ret") {
						continue // unreachable code after the inner if
					}
					if l1 == "ret" && (l2 == "ret") != (l3 == "ret") {
						continue // a return in only one arm of an if/else that is followed by code: outside the subset (see Lookalikes)
					}
					b.add(name, src)
				}
			}
		}
	}
}

// IDs lists the ids of a corpus (diagnostics).
func IDs(pkgs []*tv.Package) []string {
	var out []string
	for _, p := range pkgs {
		for _, c := range p.Cases {
			out = append(out, c.ID)
		}
	}
	sort.Strings(out)
	return out
}
