package gen

import (
	"fmt"
	"strings"

	"verif/tv"
)

// Lookalikes generates the C02 catalogue: constructs outside the documented subset (or that merely
// look like supported ones), each inside a host function. For every case the obligation is
// "rejected with a conversion error, or translated to something equivalent".
func Lookalikes(level int) []*tv.Package {
	b := &builder{}
	b.types = []string{
		"type Pt struct {\n\tX uint64\n\tY uint64\n}",
		"type Emb struct {\n\tPt\n\tZ uint64\n}",
		"type Num uint64",
		"type List []uint64",
		"type Shape interface {\n\tArea() uint64\n}",
		"func (p Pt) Area() uint64 {\n\treturn p.X * p.Y\n}",
	}
	add := func(id, src string, opts ...string) {
		b.add(id, src, append(opts, "reject:may")...)
	}
	// assignment operators outside {+= -= |= &= ^=}
	for _, op := range []struct{ op, name string }{{"*=", "mul"}, {"/=", "quo"}, {"%=", "rem"}, {"<<=", "shl"}, {">>=", "shr"}, {"&^=", "andnot"}} {
		add("opassign/"+op.name+"/var", fmt.Sprintf("func FN(x uint64, y uint64) uint64 {\n\tvar v = x\n\tv %s y\n\treturn v\n}", op.op))
		add("opassign/"+op.name+"/field", fmt.Sprintf("func FN(p *Pt, y uint64) uint64 {\n\tp.X %s y\n\treturn p.X\n}", op.op))
	}
	add("binop/andnot", "func FN(x uint64, y uint64) uint64 {\n\treturn x &^ y\n}")
	add("unop/neg", "func FN(x uint64) uint64 {\n\treturn -x\n}")
	add("unop/plus", "func FN(x uint64) uint64 {\n\treturn +x\n}")
	add("slice/three-index", "func FN(a []uint64) uint64 {\n\tif uint64(len(a)) < 2 {\n\t\treturn 0\n\t}\n\tb := a[0:1:2]\n\treturn uint64(cap(b))\n}")
	add("slice/full", "func FN(a []uint64) uint64 {\n\tb := a[:]\n\treturn uint64(len(b))\n}")
	add("slice/multi-literal", "func FN(x uint64) uint64 {\n\ta := []uint64{x, x + 1, 7}\n\treturn a[1] + uint64(len(a))\n}")
	add("slice/keyed-literal", "func FN(x uint64) uint64 {\n\ta := []uint64{2: x}\n\treturn a[2] + uint64(len(a))\n}")
	add("slice/string-literal-elems", "func FN() uint64 {\n\ta := []string{\"a\", \"bc\"}\n\treturn uint64(len(a[1]))\n}")
	add("array/literal", "func FN(x uint64) uint64 {\n\ta := [2]uint64{x, 3}\n\treturn a[0] + a[1]\n}")
	add("array/var", "func FN(x uint64) uint64 {\n\tvar a [3]uint64\n\ta[1] = x\n\treturn a[1] + a[2]\n}")
	add("map/literal", "func FN(x uint64) uint64 {\n\tm := map[uint64]uint64{1: x}\n\treturn m[1]\n}")
	add("map/bool-key", "func FN(p bool) uint64 {\n\tm := make(map[bool]uint64)\n\tm[p] = 3\n\treturn m[true]\n}")
	add("map/struct-key", "func FN(x uint64) uint64 {\n\tm := make(map[Pt]uint64)\n\tm[Pt{X: x}] = 3\n\treturn m[Pt{X: x}]\n}")
	add("map/u32-key", "func FN(x uint32) uint64 {\n\tm := make(map[uint32]uint64)\n\tm[x] = 3\n\treturn m[x]\n}")
	add("init/if", "func FN(x uint64) uint64 {\n\tif y := x + 1; y > 2 {\n\t\treturn y\n\t}\n\treturn 0\n}")
	add("init/switch", "func FN(x uint64) uint64 {\n\tswitch y := x + 1; y {\n\tcase 2:\n\t\treturn 1\n\t}\n\treturn 0\n}")
	add("stmt/switch", "func FN(x uint64) uint64 {\n\tswitch x {\n\tcase 1:\n\t\treturn 10\n\tcase 2:\n\t\treturn 20\n\tdefault:\n\t\treturn 30\n\t}\n}")
	add("stmt/switch-true", "func FN(x uint64) uint64 {\n\tswitch {\n\tcase x > 5:\n\t\treturn 1\n\t}\n\treturn 0\n}")
	add("stmt/defer", "func FN(p *Pt) uint64 {\n\tdefer func() {\n\t\tp.X = 1\n\t}()\n\tp.X = 2\n\treturn p.X\n}")
	add("stmt/goto", "func FN(x uint64) uint64 {\n\tvar v = x\n\tif v > 3 {\n\t\tgoto done\n\t}\n\tv = 9\ndone:\n\treturn v\n}")
	add("stmt/labeled-break", "func FN(n uint64) uint64 {\n\tvar s uint64 = 0\nouter:\n\tfor i := uint64(0); i < n; i++ {\n\t\tfor j := uint64(0); j < n; j++ {\n\t\t\tif j == 1 {\n\t\t\t\tbreak outer\n\t\t\t}\n\t\t\ts++\n\t\t}\n\t}\n\treturn s\n}", "small:n")
	add("stmt/select", "func FN(x uint64) uint64 {\n\tselect {\n\tdefault:\n\t\treturn x\n\t}\n}")
	add("stmt/go-with-args", "func FNw(p *uint64, v uint64) {\n\t*p = v\n}\n\nfunc FN(x uint64) uint64 {\n\tp := new(uint64)\n\tgo FNw(p, x)\n\treturn x\n}")
	add("stmt/field-inc", "func FN(p *Pt) uint64 {\n\tp.X++\n\treturn p.X\n}")
	add("stmt/elem-inc", "func FN(a []uint64) uint64 {\n\tif uint64(len(a)) == 0 {\n\t\treturn 0\n\t}\n\ta[0]++\n\treturn a[0]\n}")
	add("stmt/deref-inc", "func FN(p *uint64) uint64 {\n\t*p++\n\treturn *p\n}")
	add("stmt/swap", "func FN(x uint64, y uint64) uint64 {\n\tvar a = x\n\tvar b = y\n\ta, b = b, a\n\treturn a*3 + b\n}")
	add("stmt/multi-define", "func FN(x uint64) uint64 {\n\ta, b := x, x+1\n\treturn a * b\n}")
	add("stmt/multi-var", "func FN(x uint64) uint64 {\n\tvar a, b uint64\n\ta = x\n\treturn a + b\n}")
	add("stmt/assign-nonvar", "func FN(x uint64) uint64 {\n\tv := x\n\tv = v + 1\n\treturn v\n}")
	add("stmt/assign-param", "func FN(x uint64) uint64 {\n\tx = x + 1\n\treturn x\n}")
	add("stmt/inc-nonvar", "func FN(x uint64) uint64 {\n\tv := x\n\tv++\n\treturn v\n}")
	add("stmt/redefine-partial", "func FNtwo(x uint64) (uint64, uint64) {\n\treturn x, x + 1\n}\n\nfunc FN(x uint64) uint64 {\n\ta, b := FNtwo(x)\n\ta, c := FNtwo(b)\n\treturn a + c\n}")
	add("func/named-results", "func FN(x uint64) (r uint64) {\n\tr = x + 1\n\treturn\n}")
	add("func/named-results-explicit", "func FN(x uint64) (r uint64, ok bool) {\n\treturn x + 1, true\n}")
	add("func/variadic", "func FNsum(xs ...uint64) uint64 {\n\tvar s uint64 = 0\n\tfor _, v := range xs {\n\t\ts += v\n\t}\n\treturn s\n}\n\nfunc FN(x uint64) uint64 {\n\treturn FNsum(x, 2, 3)\n}")
	add("func/method-value", "func FN(p Pt) uint64 {\n\tf := p.Area\n\treturn f()\n}")
	add("func/method-expr", "func FN(p Pt) uint64 {\n\tf := Pt.Area\n\treturn f(p)\n}")
	add("func/closure-in-loop", "func FN(n uint64) uint64 {\n\tvar s uint64 = 0\n\tfor i := uint64(0); i < n; i++ {\n\t\tf := func() uint64 {\n\t\t\treturn i\n\t\t}\n\t\ts += f()\n\t}\n\treturn s\n}", "small:n")
	add("func/immediately-invoked", "func FN(x uint64) uint64 {\n\treturn func(a uint64) uint64 {\n\t\treturn a + 1\n\t}(x)\n}")
	add("struct/embedded", "func FN(x uint64) uint64 {\n\tvar e Emb\n\te.X = x\n\te.Z = 1\n\treturn e.X + e.Z\n}")
	add("struct/unkeyed-literal", "func FN(x uint64) uint64 {\n\tp := Pt{x, 2}\n\treturn p.X + p.Y\n}")
	add("struct/compare", "func FN(p Pt, q Pt) bool {\n\treturn p == q\n}")
	add("struct/anonymous", "func FN(x uint64) uint64 {\n\ts := struct{ A uint64 }{A: x}\n\treturn s.A\n}")
	add("log/bound-results", "func FN(x uint64) uint64 {\n\tn, _ := fmt.Println(\"x\")\n\t_ = n\n\treturn x\n}")
	add("log/discarded-results", "func FN(x uint64) uint64 {\n\t_, _ = fmt.Println(\"x\")\n\treturn x\n}")
	add("log/only-statement-of-then", "func FN(x uint64) uint64 {\n\tif x > 1 {\n\t\tlog.Println(\"big\")\n\t}\n\treturn x\n}")
	add("log/only-statement-of-else", "func FN(x uint64) uint64 {\n\tvar r uint64 = 0\n\tif x > 1 {\n\t\tr = 1\n\t} else {\n\t\tfmt.Println(\"small\")\n\t}\n\treturn r\n}")
	add("log/only-statement-of-loop", "func FN(n uint64) uint64 {\n\tfor i := uint64(0); i < n; i++ {\n\t\tlog.Printf(\"i %d\", i)\n\t}\n\treturn n\n}", "small:n")
	add("log/last-statement", "func FN(p *Pt) {\n\tp.X = 1\n\tlog.Println(\"done\")\n}")
	add("log/before-return-in-then", "func FN(x uint64) uint64 {\n\tif x > 1 {\n\t\tlog.Println(\"big\")\n\t\treturn 1\n\t}\n\treturn 2\n}")
	// value semantics, nested containers, evaluation order, captured variables
	add("sem/value-receiver-field-assign", "func (p Pt) FNset(v uint64) uint64 {\n\tp.X = v\n\treturn p.X\n}\n\nfunc FN(x uint64) uint64 {\n\tp := Pt{X: 1, Y: 2}\n\tr := p.FNset(x)\n\treturn r + p.X\n}")
	add("sem/struct-param-field-assign", "func FNf(p Pt, v uint64) uint64 {\n\tp.Y = v\n\treturn p.Y + p.X\n}\n\nfunc FN(x uint64) uint64 {\n\tp := Pt{X: 1, Y: 2}\n\treturn FNf(p, x) + p.Y\n}")
	add("sem/nested-map", "func FN(k uint64, j uint64, v uint64) uint64 {\n\tm := make(map[uint64]map[uint64]uint64)\n\tm[k] = make(map[uint64]uint64)\n\tm[k][j] = v\n\treturn m[k][j] + uint64(len(m[k]))\n}")
	add("sem/map-of-slices-append", "func FN(k uint64, v uint64) uint64 {\n\tm := make(map[uint64][]uint64)\n\tm[k] = append(m[k], v)\n\tm[k] = append(m[k], v+1)\n\treturn m[k][1] + uint64(len(m[k])) + uint64(len(m[k+1]))\n}")
	add("sem/slice-of-slices", "func FN(x uint64) uint64 {\n\ta := make([][]uint64, 2)\n\ta[0] = append(a[0], x)\n\ta[1] = a[0]\n\ta[1][0] = x + 1\n\treturn a[0][0] + uint64(len(a[1]))\n}")
	add("sem/and-with-effects", "func FNbump(p *uint64) bool {\n\t*p = *p + 1\n\treturn *p > 1\n}\n\nfunc FN(x uint64) uint64 {\n\tc := new(uint64)\n\tif x > 5 && FNbump(c) && FNbump(c) {\n\t\treturn *c + 10\n\t}\n\treturn *c\n}")
	add("sem/or-with-effects", "func FNmark(p *uint64) bool {\n\t*p = *p + 1\n\treturn false\n}\n\nfunc FN(x uint64) uint64 {\n\tc := new(uint64)\n\tif x > 5 || FNmark(c) || FNmark(c) {\n\t\treturn *c + 10\n\t}\n\treturn *c\n}")
	add("sem/shift-by-symbolic", "func FN(x uint64, y uint64) uint64 {\n\treturn x<<y + x>>y\n}")
	add("sem/shift-u32-by-symbolic", "func FN(x uint32, y uint32) uint32 {\n\treturn x<<y | x>>y\n}")
	add("sem/nil-map-read", "func FN(k uint64) uint64 {\n\tvar m map[uint64]uint64\n\treturn m[k] + uint64(len(m))\n}")
	add("sem/map-nil-compare", "func FN(m map[uint64]uint64) bool {\n\treturn m == nil\n}")
	add("sem/closure-modifies-captured", "func FN(x uint64) uint64 {\n\tvar n = x\n\tinc := func() {\n\t\tn = n + 1\n\t}\n\tinc()\n\tinc()\n\treturn n\n}")
	add("sem/closure-captures-param", "func FN(x uint64) uint64 {\n\tf := func(d uint64) uint64 {\n\t\treturn x + d\n\t}\n\treturn f(1) + f(2)\n}")
	add("sem/infinite-loop-break", "func FN(n uint64) uint64 {\n\tvar i uint64 = 0\n\tfor {\n\t\tif i >= n {\n\t\t\tbreak\n\t\t}\n\t\ti = i + 1\n\t}\n\treturn i\n}", "small:n")
	add("sem/struct-slice-field-append", "type FNbox struct {\n\tV uint64\n\tS []uint64\n}\n\nfunc FN(x uint64) uint64 {\n\tb := &FNbox{V: 1}\n\tb.S = append(b.S, x)\n\tb.S = append(b.S, x+1)\n\treturn b.S[1] + uint64(len(b.S)) + b.V\n}")
	add("sem/args-evaluated-left-to-right", "func FNnext(p *uint64) uint64 {\n\t*p = *p + 1\n\treturn *p\n}\n\nfunc FNpair(a uint64, b uint64) uint64 {\n\treturn a*10 + b\n}\n\nfunc FN(x uint64) uint64 {\n\tc := new(uint64)\n\t*c = x\n\treturn FNpair(FNnext(c), FNnext(c))\n}")
	add("sem/binop-operands-left-to-right", "func FNtick(p *uint64) uint64 {\n\t*p = *p * 2\n\treturn *p\n}\n\nfunc FN(x uint64) uint64 {\n\tc := new(uint64)\n\t*c = x\n\treturn FNtick(c) - FNtick(c)\n}")
	add("sem/method-on-map-element-struct", "func FN(k uint64, x uint64) uint64 {\n\tm := make(map[uint64]Pt)\n\tp := m[k]\n\tp.X = x\n\tm[k] = p\n\treturn m[k].X + p.X\n}")
	add("lit/char-compare", "func FN(b byte) bool {\n\treturn b == 'a'\n}")
	add("lit/char-convert", "func FN(x uint64) uint64 {\n\treturn x + uint64('0')\n}")
	add("lit/rune-escape", "func FN(b byte) bool {\n\treturn b == '\\n'\n}")
	// values that are merely *named* like the logging packages: their methods are ordinary calls
	add("log/local-named-log", "type FNjournal struct {\n\ttotal uint64\n}\n\nfunc (j *FNjournal) Println(v uint64) {\n\tj.total = j.total + v\n}\n\nfunc FN(x uint64) uint64 {\n\tlog := &FNjournal{}\n\tlog.Println(x)\n\tlog.Println(4)\n\treturn log.total\n}")
	add("log/local-named-fmt", "type FNsink struct {\n\tn uint64\n}\n\nfunc (s *FNsink) Printf(v uint64, w uint64) {\n\ts.n = s.n + v*2 + w\n}\n\nfunc FN(x uint64) uint64 {\n\tfmt := &FNsink{}\n\tfmt.Printf(x, 1)\n\treturn fmt.n\n}")
	add("log/param-named-log", "type FNrec struct {\n\tlast uint64\n}\n\nfunc (r *FNrec) Print(v uint64) {\n\tr.last = v\n}\n\nfunc FNuse(log *FNrec, v uint64) {\n\tlog.Print(v)\n}\n\nfunc FN(x uint64) uint64 {\n\tr := &FNrec{}\n\tFNuse(r, x)\n\treturn r.last\n}")
	add("log/two-in-a-row", "func FN(x uint64) uint64 {\n\tlog.Println(\"a\")\n\tlog.Println(\"b\")\n\treturn x\n}")
	// shapes on which goose used to end with a Go panic instead of a located error
	add("crash/five-results-define", "func FNfive() (uint64, uint64, uint64, uint64, uint64) {\n\treturn 1, 2, 3, 4, 5\n}\n\nfunc FN() uint64 {\n\ta, b, c, d, e := FNfive()\n\treturn a + b + c + d + e\n}")
	add("crash/five-results-assign", "func FNfive() (uint64, uint64, uint64, uint64, uint64) {\n\treturn 1, 2, 3, 4, 5\n}\n\nfunc FN() uint64 {\n\tvar a uint64\n\tvar b uint64\n\tvar c uint64\n\tvar d uint64\n\tvar e uint64\n\ta, b, c, d, e = FNfive()\n\treturn a + b + c + d + e\n}")
	add("crash/copy-into-named-slice", "type FNbuf []byte\n\nfunc FN(b FNbuf, src []byte) uint64 {\n\tn := copy(b, src)\n\treturn uint64(n)\n}")
	add("crash/error-method", "func FNfail() error {\n\treturn nil\n}\n\nfunc FN() string {\n\terr := FNfail()\n\treturn err.Error()\n}")
	add("crash/named-pointer-deref", "type FNp *uint64\n\nfunc FN(p FNp) uint64 {\n\treturn *p\n}")
	add("crash/method-on-type-param", "type FNstringer interface {\n\tString() string\n}\n\nfunc FN[T FNstringer](x T) string {\n\treturn x.String()\n}")
	add("crash/pointer-to-error", "func FN() bool {\n\tvar e *error\n\treturn e == nil\n}")
	add("crash/append-constraint-slice", "func FN[S ~[]uint64](s S) S {\n\treturn append(s, 1)\n}")
	add("generic/two-param-struct-method", "type FNpair[K any, V any] struct {\n\tk K\n\tv V\n}\n\nfunc (p *FNpair[K, V]) FNkey() K {\n\treturn p.k\n}\n\nfunc FN(x uint64) uint64 {\n\tp := &FNpair[uint64, bool]{k: x, v: true}\n\treturn p.FNkey()\n}")
	add("generic/two-param-func", "func FNsnd[A any, B any](a A, b B) B {\n\treturn b\n}\n\nfunc FN(x uint64) uint64 {\n\treturn FNsnd[bool, uint64](true, x)\n}")
	add("ctl/else-if-chain-of-returns-no-final-else", "func FN(on bool, a uint64, b uint64) uint64 {\n\tif on {\n\t\tif a > 10 {\n\t\t\treturn 1\n\t\t} else if b > 10 {\n\t\t\treturn 2\n\t\t}\n\t}\n\treturn a + b\n}")
	add("ctl/else-if-chain-break-continue-in-loop", "func FN(xs []uint64, lim uint64) uint64 {\n\tvar hits uint64 = 0\n\tfor i := uint64(0); i < uint64(len(xs)); i++ {\n\t\tif xs[i] > 0 {\n\t\t\tif xs[i] > lim {\n\t\t\t\tbreak\n\t\t\t} else if xs[i] == lim {\n\t\t\t\tcontinue\n\t\t\t}\n\t\t}\n\t\thits = hits + 1\n\t}\n\treturn hits\n}")
	add("ctl/else-returns-then-shadows", "func FN(amount uint64, express bool) uint64 {\n\tfee := amount / 10\n\tvar total uint64 = amount\n\tif express {\n\t\tfee := amount / 2\n\t\ttotal = total + fee\n\t} else {\n\t\treturn total\n\t}\n\treturn total + fee\n}")
	add("ctl/else-breaks-then-shadows", "func FN(xs []uint64, step uint64) uint64 {\n\tvar sum uint64 = 0\n\tfor i := uint64(0); i < uint64(len(xs)); i++ {\n\t\tx := xs[i]\n\t\tif x > 0 {\n\t\t\tstep := x\n\t\t\tsum = sum + step\n\t\t} else {\n\t\t\tbreak\n\t\t}\n\t\tsum = sum + step\n\t}\n\treturn sum\n}")
	add("ctl/three-level-if-return-fallthrough", "func FN(a uint64, b uint64, c uint64) uint64 {\n\tvar r uint64 = 0\n\tif a > 1 {\n\t\tif b > 1 {\n\t\t\tif c > 1 {\n\t\t\t\treturn 7\n\t\t\t}\n\t\t\tr = 1\n\t\t}\n\t\tr = r + 2\n\t}\n\treturn r\n}")
	add("ctl/early-return-else-if", "func FN(x uint64) uint64 {\n\tvar r uint64 = 0\n\tif x > 3 {\n\t\treturn 1\n\t} else if x > 1 {\n\t\tr = 2\n\t}\n\treturn r\n}")
	add("ctl/early-return-else-if-else", "func FN(x uint64) uint64 {\n\tvar r uint64 = 0\n\tif x > 3 {\n\t\treturn 1\n\t} else if x > 1 {\n\t\tr = 2\n\t} else {\n\t\tr = 3\n\t}\n\treturn r\n}")
	add("ctl/break-else-if", "func FN(n uint64) uint64 {\n\tvar s uint64 = 0\n\tfor i := uint64(0); i < n; i++ {\n\t\tif i > 2 {\n\t\t\tbreak\n\t\t} else if i > 0 {\n\t\t\ts += 1\n\t\t}\n\t\ts += 10\n\t}\n\treturn s\n}", "small:n")
	add("ptr/addr-of-param", "func FN(x uint64) uint64 {\n\tq := &x\n\t*q = 5\n\treturn x\n}")
	add("ptr/addr-of-defined", "func FN(x uint64) uint64 {\n\tn := x + 1\n\tq := &n\n\t*q = *q + 1\n\treturn n\n}")
	add("struct/addr-of-nonvar", "func FN(x uint64) uint64 {\n\tp := Pt{X: x}\n\tq := &p\n\tq.X = 5\n\treturn p.X\n}")
	add("struct/ptr-compare", "func FN(p *Pt, q *Pt) bool {\n\treturn p == q\n}")
	add("string/index", "func FN(s string) byte {\n\tif uint64(len(s)) == 0 {\n\t\treturn 0\n\t}\n\treturn s[0]\n}")
	add("string/range", "func FN(s string) uint64 {\n\tvar n uint64 = 0\n\tfor range s {\n\t\tn++\n\t}\n\treturn n\n}")
	add("string/slice", "func FN(s string) string {\n\tif uint64(len(s)) < 1 {\n\t\treturn s\n\t}\n\treturn s[1:]\n}")
	add("string/less", "func FN(s string, t string) bool {\n\treturn s < t\n}")
	add("string/quote-literal", "func FN() string {\n\treturn \"a\\\"b\"\n}")
	add("string/newline-literal", "func FN() string {\n\treturn \"a\\nb\"\n}")
	add("string/copy-into-bytes", "func FN(s string) uint64 {\n\tb := make([]byte, 2)\n\treturn uint64(copy(b, s))\n}")
	add("int/signed", "func FN(x int) int {\n\treturn x - 1\n}")
	add("int/signed-compare", "func FN(x uint64, y uint64) bool {\n\treturn int(x) < int(y)\n}")
	add("int/len-minus-one-compare", "func FN(a []uint64) bool {\n\treturn len(a)-1 < 0\n}")
	add("int/signed-div", "func FN(x uint64) uint64 {\n\treturn uint64(int(x) / 2)\n}")
	add("int/signed-rem", "func FN(x uint64) uint64 {\n\treturn uint64(int(x) % 3)\n}")
	add("int/signed-shr", "func FN(x uint64) uint64 {\n\treturn uint64(int(x) >> 1)\n}")
	add("int/countdown-loop", "func FN(a []uint64) uint64 {\n\tvar s uint64 = 0\n\tfor i := len(a) - 1; i >= 0; i-- {\n\t\ts += a[i]\n\t}\n\treturn s\n}")
	add("int/signed-local", "func FN(x uint64) bool {\n\tvar d int = int(x) - 10\n\treturn d > 0\n}")
	add("conv/paren-type-name-widen", "func FN(x uint32) uint64 {\n\treturn (uint64)(x) + 1\n}")
	add("conv/paren-type-name-narrow", "func FN(x uint64) byte {\n\treturn (byte)(x)\n}")
	add("conv/paren-bytes-of-string", "func FN(s string) uint64 {\n\tb := ([]byte)(s)\n\treturn uint64(len(b))\n}")
	add("conv/paren-string-of-bytes", "func FN(b []byte) string {\n\treturn (string)(b) + \"x\"\n}")
	add("conv/paren-builtin-call", "func FN(a []uint64) uint64 {\n\treturn uint64((len)(a))\n}")
	add("int/newtype-width-conv", "type FNT uint32\n\nfunc FN(a []byte) bool {\n\treturn FNT(len(a)) == FNT(2)\n}")
	add("int/int64", "func FN(x int64) int64 {\n\treturn x / 2\n}")
	add("int/uint16", "func FN(x uint16) uint16 {\n\treturn x + 1\n}")
	add("int/uint8-spelling", "func FN(x uint8) uint8 {\n\treturn x + 1\n}")
	add("int/len-as-int", "func FN(a []uint64) bool {\n\treturn len(a) > 1\n}")
	add("int/untyped-const", "const FNc = 41\n\nfunc FN(x uint32) uint32 {\n\treturn x + FNc\n}")
	add("int/shift-mixed-width", "func FN(x uint64, y uint32) uint64 {\n\treturn x << y\n}")
	add("int/shift-by-byte", "func FN(x uint32, y byte) uint32 {\n\treturn x >> y\n}")
	add("int/conv-in-compare", "func FN(x uint64, y uint32) bool {\n\treturn x < uint64(y)\n}")
	add("int/u32-literal-compare", "func FN(x uint32) bool {\n\treturn x > 7\n}")
	add("int/u8-literal-arith", "func FN(x byte) byte {\n\treturn x*3 + 1\n}")
	add("iface/type-assert", "func FN(x uint64) uint64 {\n\tvar i interface{} = x\n\tv, ok := i.(uint64)\n\tif ok {\n\t\treturn v\n\t}\n\treturn 0\n}")
	add("iface/type-assert-plain", "func FN(x uint64) uint64 {\n\tvar i interface{} = x\n\treturn i.(uint64)\n}")
	add("iface/type-switch", "func FN(x uint64) uint64 {\n\tvar i interface{} = x\n\tswitch i.(type) {\n\tcase uint64:\n\t\treturn 1\n\t}\n\treturn 0\n}")
	add("iface/method-call", "func FNarea(s Shape) uint64 {\n\treturn s.Area()\n}\n\nfunc FN(x uint64) uint64 {\n\treturn FNarea(Pt{X: x, Y: 2})\n}")
	add("builtin/append-multi", "func FN(a []uint64, x uint64, y uint64) []uint64 {\n\treturn append(a, x, y)\n}")
	add("builtin/append-three", "func FN(x uint64) uint64 {\n\tvar a []uint64\n\ta = append(a, x, x+1, x+2)\n\treturn uint64(len(a))\n}")
	add("builtin/min", "func FN(x uint64, y uint64) uint64 {\n\treturn min(x, y)\n}")
	add("builtin/max", "func FN(x uint64, y uint64) uint64 {\n\treturn max(x, y)\n}")
	add("builtin/clear", "func FN(m map[uint64]uint64) uint64 {\n\tclear(m)\n\treturn uint64(len(m))\n}")
	add("builtin/clear-slice", "func FN(a []uint64) uint64 {\n\tclear(a)\n\tif uint64(len(a)) > 0 {\n\t\treturn a[0]\n\t}\n\treturn 1\n}")
	add("named/map-elem-assign", "type FNSet map[uint64]bool\n\nfunc FN(k uint64) bool {\n\ts := make(FNSet)\n\ts[k] = true\n\treturn s[k]\n}")
	add("named/slice-elem-assign", "func FN(x uint64) uint64 {\n\tl := make(List, 2)\n\tl[1] = x\n\treturn l[1]\n}")
	add("named/slice-empty-literal", "func FN() uint64 {\n\tl := List{}\n\treturn uint64(len(l))\n}")
	add("named/slice-singleton-literal", "func FN(x uint64) uint64 {\n\tl := List{x}\n\treturn l[0]\n}")
	add("generic/struct-method", "type FNBox[T any] struct {\n\tv T\n}\n\nfunc (b *FNBox[T]) Get() T {\n\treturn b.v\n}\n\nfunc FN(x uint64) uint64 {\n\tb := &FNBox[uint64]{v: x}\n\treturn b.Get()\n}")
	add("generic/func", "func FNid[T any](x T) T {\n\treturn x\n}\n\nfunc FN(x uint64) uint64 {\n\treturn FNid[uint64](x) + FNid(x)\n}")
	add("const/float", "const FNLoad = 0.75\n\nfunc FN(x uint64) uint64 {\n\treturn x\n}")
	add("const/untyped-string", "const FNs = \"ab\"\n\nfunc FN() string {\n\treturn FNs\n}")
	add("const/iota-group", "const (\n\tFNa uint64 = iota\n\tFNb\n\tFNc\n)\n\nfunc FN() uint64 {\n\treturn FNa + FNb*10 + FNc*100\n}")
	add("var/global-with-call", "var FNg = FNmk()\n\nfunc FNmk() uint64 {\n\treturn 3\n}\n\nfunc FN() uint64 {\n\treturn FNg\n}")
	add("type/func-type", "type FNfn func(uint64) uint64\n\nfunc FN(f FNfn, x uint64) uint64 {\n\treturn f(x)\n}")
	add("type/chan", "func FN(x uint64) uint64 {\n\tc := make(chan uint64, 1)\n\tc <- x\n\treturn <-c\n}")
	add("builtin/cap-of-make", "func FN() uint64 {\n\ta := make([]uint64, 2)\n\treturn uint64(cap(a))\n}")
	add("builtin/new-basic", "func FN(x uint64) uint64 {\n\tp := new(uint64)\n\t*p = x\n\treturn *p\n}")
	add("builtin/delete-missing", "func FN(m map[uint64]uint64) uint64 {\n\tdelete(m, 5)\n\tdelete(m, 5)\n\treturn uint64(len(m))\n}")
	add("builtin/panic-nonliteral", "func FN(x uint64) uint64 {\n\tif x > 10 {\n\t\tmsg := \"big\"\n\t\tpanic(msg)\n\t}\n\treturn x\n}")
	add("ctl/return-in-one-arm-then-code", "func FN(x uint64, y uint64) uint64 {\n\tvar r uint64 = 0\n\tif x > 1 {\n\t\tif y > 1 {\n\t\t\treturn 1\n\t\t} else {\n\t\t\tr = 2\n\t\t}\n\t\treturn r + 10\n\t}\n\treturn r\n}")
	add("ctl/early-return-with-else", "func FN(x uint64) uint64 {\n\tvar r uint64 = 0\n\tif x > 1 {\n\t\treturn 1\n\t} else {\n\t\tr = 2\n\t}\n\treturn r\n}")
	add("ctl/return-inside-loop", "func FN(n uint64) uint64 {\n\tfor i := uint64(0); i < n; i++ {\n\t\tif i == 2 {\n\t\t\treturn i\n\t\t}\n\t}\n\treturn 99\n}", "small:n")
	add("ctl/break-in-nested-if", "func FN(n uint64) uint64 {\n\tvar s uint64 = 0\n\tfor i := uint64(0); i < n; i++ {\n\t\tif i > 0 {\n\t\t\tif i == 2 {\n\t\t\t\tbreak\n\t\t\t}\n\t\t}\n\t\ts++\n\t}\n\treturn s\n}", "small:n")
	add("ctl/continue-mid-block", "func FN(n uint64) uint64 {\n\tvar s uint64 = 0\n\tfor i := uint64(0); i < n; i++ {\n\t\tif i == 1 {\n\t\t\tcontinue\n\t\t}\n\t\ts += 2\n\t\tif i == 2 {\n\t\t\tcontinue\n\t\t}\n\t\ts++\n\t}\n\treturn s\n}", "small:n")
	add("ctl/range-int", "func FN(n uint64) uint64 {\n\tvar s uint64 = 0\n\tfor i := range n {\n\t\ts += i\n\t}\n\treturn s\n}", "small:n")
	add("ctl/loop-assign-outer-define", "func FN(n uint64) uint64 {\n\ts := uint64(0)\n\tfor i := uint64(0); i < n; i++ {\n\t\ts = s + 1\n\t}\n\treturn s\n}", "small:n")
	add("ctl/for-post-assign", "func FN(n uint64) uint64 {\n\tvar s uint64 = 0\n\tfor i := uint64(0); i < n; i = i + 2 {\n\t\ts++\n\t}\n\treturn s\n}", "small:n")
	add("ctl/for-two-vars", "func FN(n uint64) uint64 {\n\tvar s uint64 = 0\n\tfor i, j := uint64(0), n; i < j; i++ {\n\t\ts++\n\t}\n\treturn s\n}", "small:n")
	add("ctl/range-modify-slice", "func FN(a []uint64) uint64 {\n\tfor i := range a {\n\t\ta[i] = uint64(i)\n\t}\n\treturn uint64(len(a))\n}")
	add("ctl/map-range-order", "func FN(m map[uint64]uint64) uint64 {\n\tvar last uint64 = 0\n\tfor k := range m {\n\t\tlast = k\n\t}\n\treturn last & 0\n}")
	add("scope/shadow-builtin-type", "func FN(x uint64) uint64 {\n\ttype local uint64\n\tvar v local = local(x)\n\treturn uint64(v)\n}")
	pkgs := b.packages("look", `import "github.com/goose-lang/goose/machine"`+"\n", 40)
	// user declarations named like the GooseLang vocabulary: one package each (the definition shadows
	// the primitive for the rest of its file, so it must not share a file with other cases)
	for i, v := range []struct {
		id, src string
		small   bool
	}{
		{"vocab/func-named-Continue", "func Continue() uint64 {\n\treturn 7\n}\n\nfunc FN(n uint64) uint64 {\n\tvar s uint64 = 0\n\tfor i := uint64(0); i < n; i++ {\n\t\tif i == 1 {\n\t\t\tcontinue\n\t\t}\n\t\ts += i\n\t}\n\treturn s + Continue()\n}", true},
		{"vocab/func-named-NewMap", "func NewMap(x uint64) uint64 {\n\treturn x + 1\n}\n\nfunc FN(k uint64) uint64 {\n\tm := make(map[uint64]uint64)\n\tm[k] = NewMap(k)\n\treturn m[k]\n}", false},
		{"vocab/func-named-Skip", "func Skip() uint64 {\n\treturn 5\n}\n\nfunc FN(n uint64) uint64 {\n\tvar s uint64 = Skip()\n\tfor i := uint64(0); i < n; i++ {\n\t\ts += i\n\t}\n\treturn s\n}", true},
		{"vocab/const-named-Break", "const Break uint64 = 3\n\nfunc FN(n uint64) uint64 {\n\tvar s uint64 = Break\n\tfor i := uint64(0); i < n; i++ {\n\t\tif i == 2 {\n\t\t\tbreak\n\t\t}\n\t\ts += i\n\t}\n\treturn s\n}", true},
	} {
		name := fmt.Sprintf("vocab%d", i)
		fn := "F" + sanitize(v.id)
		src := strings.ReplaceAll(v.src, "FN", fn)
		file := "package " + name + "\n\n// " + v.id + "\n" + src + "\n"
		c := tv.Case{ID: v.id, Func: fn, Reject: "may", File: "gen.go", FromLine: 3, ToLine: strings.Count(file, "\n"), Src: src}
		if v.small {
			c.Small = []string{"n"}
		}
		pkgs = append(pkgs, &tv.Package{Name: name, Files: map[string]string{"gen.go": file}, Cases: []tv.Case{c}})
	}
	// user-defined functions that share their name with a builtin: one package each
	for _, n := range []struct{ name, decl, use string }{
		{"len", "func len(a []uint64) uint64 {\n\treturn 7\n}", "len(a)"},
		{"cap", "func cap(a []uint64) uint64 {\n\treturn 7\n}", "cap(a)"},
		{"uint64", "func uint64(x uint32) uint32 {\n\treturn x + 1\n}", "uint64(x)"},
		{"uint32", "func uint32(x uint64) uint64 {\n\treturn x + 1\n}", "uint32(x)"},
		{"uint8", "func uint8(x uint64) uint64 {\n\treturn x + 1\n}", "uint8(x)"},
		{"byte", "func byte(x uint64) uint64 {\n\treturn x + 1\n}", "byte(x)"},
		{"append", "func append(a []uint64, x uint64) uint64 {\n\treturn x + 1\n}", "append(a, x)"},
		{"copy", "func copy(a []uint64, b []uint64) uint64 {\n\treturn 9\n}", "copy(a, a)"},
		{"delete", "func delete(a []uint64, x uint64) uint64 {\n\treturn x + 2\n}", "delete(a, x)"},
		{"panic", "func panic(x uint64) uint64 {\n\treturn x\n}", "panic(x)"},
		{"make", "func make(x uint64) uint64 {\n\treturn x + 5\n}", "make(x)"},
		{"new", "func new(x uint64) uint64 {\n\treturn x + 6\n}", "new(x)"},
		{"string", "func string(x uint64) uint64 {\n\treturn x + 6\n}", "string(x)"},
		{"clear", "func clear(a []uint64) uint64 {\n\treturn 5\n}", "clear(a)"},
		{"min", "func min(x uint64, y uint64) uint64 {\n\treturn x + y\n}", "min(x, x)"},
		{"max", "func max(x uint64, y uint64) uint64 {\n\treturn x + y + 1\n}", "max(x, x)"},
		{"close", "func close(x uint64) uint64 {\n\treturn x + 9\n}", "close(x)"},
		{"recover", "func recover() uint64 {\n\treturn 3\n}", "recover() + x"},
		{"print", "func print(x uint64) uint64 {\n\treturn x + 4\n}", "print(x)"},
		{"bool", "func bool(x uint64) uint64 {\n\treturn x + 8\n}", "bool(x)"},
	} {
		p := &tv.Package{Name: "shadow" + n.name, Files: map[string]string{}}
		src := "package " + p.Name + "\n\n" + n.decl + "\n\nfunc F(a []" + uintT(n.name) + ", x " + uintT(n.name) + ") " + uintT(n.name) + " {\n\treturn " + n.use + "\n}\n"
		p.Files["gen.go"] = src
		p.Cases = []tv.Case{{ID: "shadow-builtin/" + n.name, Func: "F", Reject: "may", File: "gen.go", FromLine: 1, ToLine: 100, Src: src}}
		pkgs = append(pkgs, p)
	}
	return pkgs
}

// uintT: inside a package that redefines uint64 as a function the type is unavailable; use uint32 there.
func uintT(shadowed string) string {
	if shadowed == "uint64" {
		return "uint32"
	}
	return "uint64"
}
