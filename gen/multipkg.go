package gen

import (
	"fmt"
	"strings"

	"verif/tv"
)

// MultiPkg: programs that use a second generated package (calls, constants, struct types and
// methods of another user package). goose prints such references as dep.X and emits
// "From Goose Require" for the import; the imported package is translated in the same run and
// loaded under the qualified names.
func MultiPkg() []*tv.Package {
	dep := `package dep

type Pt struct {
	X uint64
	Y uint64
}

const K uint64 = 7

type Id uint64

func Add(a uint64, b uint64) uint64 {
	return a + b*2
}

func Two(a uint64) (uint64, bool) {
	return a + 1, a > 3
}

func (p *Pt) Sum() uint64 {
	return p.X + p.Y
}

func (p Pt) Scale(k uint64) Pt {
	return Pt{X: p.X * k, Y: p.Y * k}
}

func Mk(x uint64) *Pt {
	return &Pt{X: x, Y: K}
}

func Bump(p *Pt, d uint64) {
	p.X = p.X + d
}

func Fill(a []uint64, v uint64) {
	for i := range a {
		a[i] = v
	}
}
`
	b := &builder{alwaysHeader: true}
	imp := "import \"example.com/tvmod/mp0/dep\"\n"
	b.types = []string{"type Loc struct {\n\tP dep.Pt\n\tN uint64\n}"}
	b.add("mp/call", "func FN(x uint64, y uint64) uint64 {\n\treturn dep.Add(x, y) + 1\n}")
	b.add("mp/call-arg-order", "func FN(x uint64, y uint64) uint64 {\n\treturn dep.Add(y, x) - dep.Add(x, x)\n}")
	b.add("mp/two-results", "func FN(x uint64) uint64 {\n\ta, ok := dep.Two(x)\n\tif ok {\n\t\treturn a\n\t}\n\treturn 0\n}")
	b.add("mp/const", "func FN(x uint64) uint64 {\n\treturn x + dep.K\n}")
	b.add("mp/named-int-type", "func FN(x uint64) dep.Id {\n\treturn dep.Id(x) + 1\n}")
	b.add("mp/struct-literal", "func FN(x uint64) dep.Pt {\n\treturn dep.Pt{X: x, Y: dep.K}\n}")
	b.add("mp/struct-param-field", "func FN(p dep.Pt) uint64 {\n\treturn p.X*2 + p.Y\n}")
	b.add("mp/ptr-param-store", "func FN(p *dep.Pt, v uint64) {\n\tp.Y = v\n\tp.X = p.X + dep.K\n}")
	b.add("mp/method-ptr-recv", "func FN(p *dep.Pt) uint64 {\n\treturn p.Sum() + 1\n}")
	b.add("mp/method-value-recv", "func FN(p dep.Pt, k uint64) dep.Pt {\n\treturn p.Scale(k)\n}")
	b.add("mp/constructor", "func FN(x uint64) uint64 {\n\tp := dep.Mk(x)\n\tdep.Bump(p, 2)\n\treturn p.X + p.Y\n}")
	b.add("mp/effect-on-arg", "func FN(p *dep.Pt, d uint64) uint64 {\n\tdep.Bump(p, d)\n\tdep.Bump(p, 1)\n\treturn p.X\n}")
	b.add("mp/slice-effect", "func FN(a []uint64, v uint64) uint64 {\n\tdep.Fill(a, v)\n\treturn uint64(len(a))\n}")
	b.add("mp/nested-struct", "func FN(x uint64) uint64 {\n\tl := Loc{P: dep.Pt{X: x}, N: 2}\n\treturn l.P.X + l.N + l.P.Y\n}")
	b.add("mp/new-imported-struct", "func FN(x uint64) uint64 {\n\tp := new(dep.Pt)\n\tp.X = x\n\treturn p.Sum()\n}")
	b.add("mp/slice-of-imported", "func FN(x uint64) uint64 {\n\ta := make([]dep.Pt, 2)\n\ta[1] = dep.Pt{X: x, Y: 1}\n\treturn a[1].X + a[0].Y\n}")
	b.add("mp/map-of-imported", "func FN(k uint64, x uint64) uint64 {\n\tm := make(map[uint64]dep.Pt)\n\tm[k] = dep.Pt{X: x}\n\treturn m[k].X + m[k+1].Y\n}")
	b.add("mp/func-value", "func FN(x uint64) uint64 {\n\tf := dep.Add\n\treturn f(x, 1)\n}")
	pkgs := b.packages("mp", imp, 60)
	for _, p := range pkgs {
		p.Deps = map[string]map[string]string{"dep": {"dep.go": dep}}
	}
	return pkgs
}

// MultiPkgLookalikes: user packages that are merely *named* like the packages goose treats specially
// (log, fmt, util, machine, disk, sync, filesys). Their functions are ordinary Go with effects; a
// translator that recognises the special packages by the spelling of the qualifier turns the calls into
// comments or into primitives with a different meaning. Rejected or equivalent (C02).
func MultiPkgLookalikes() []*tv.Package {
	deps := map[string]map[string]string{
		"log":     {"log.go": "package log\n\nfunc Println(p *uint64, v uint64) {\n\t*p = *p + v\n}\n\nfunc Printf(p *uint64, v uint64) {\n\t*p = *p + v + v\n}\n\nfunc Print(p *uint64) {\n\t*p = 9\n}\n"},
		"fmt":     {"fmt.go": "package fmt\n\nfunc Println(p *uint64) {\n\t*p = 7\n}\n\nfunc Printf(p *uint64, v uint64) {\n\t*p = v\n}\n"},
		"plain":   {"plain.go": "package plain\n\nconst K uint64 = 5\n\ntype Pair struct {\n\tA uint64\n\tB uint64\n}\n\nfunc Inc(x uint64) uint64 {\n\treturn x + 1\n}\n"},
		"util":    {"util.go": "package util\n\nfunc DPrintf(p *uint64, v uint64, w uint64) {\n\t*p = v + w\n}\n"},
		"machine": {"machine.go": "package machine\n\nfunc UInt64Get(a []byte) uint64 {\n\treturn uint64(len(a)) + 100\n}\n\nfunc UInt64ToString(x uint64) uint64 {\n\treturn x + 5\n}\n"},
		"disk":    {"disk.go": "package disk\n\nfunc Size() uint64 {\n\treturn 42\n}\n\ntype Block struct {\n\tId uint64\n}\n\nconst BlockSize uint64 = 7\n"},
		"sync":    {"sync.go": "package sync\n\nfunc NewCond(x uint64) uint64 {\n\treturn x + 1\n}\n\ntype Mutex struct {\n\tN uint64\n}\n\nfunc (m *Mutex) Lock() {\n\tm.N = m.N + 1\n}\n\nfunc (m *Mutex) Unlock() {\n\tm.N = m.N + 10\n}\n\ntype WaitGroup struct {\n\tK uint64\n}\n\nfunc (w *WaitGroup) Add(d uint64) {\n\tw.K = w.K + d\n}\n"},
		"filesys": {"filesys.go": "package filesys\n\nfunc Names(x uint64) uint64 {\n\treturn x + 3\n}\n"},
	}
	type lk struct{ id, dep, src string }
	cases := []lk{
		{"mpl/user-log-println", "log", "func FN(x uint64) uint64 {\n\tp := new(uint64)\n\tlog.Println(p, x)\n\tlog.Println(p, 1)\n\treturn *p\n}"},
		{"mpl/user-log-printf", "log", "func FN(x uint64) uint64 {\n\tp := new(uint64)\n\tlog.Printf(p, x)\n\treturn *p\n}"},
		{"mpl/user-log-print-last", "log", "func FN(p *uint64) {\n\tlog.Print(p)\n}"},
		{"mpl/user-fmt-println", "fmt", "func FN(x uint64) uint64 {\n\tp := new(uint64)\n\t*p = x\n\tfmt.Println(p)\n\treturn *p\n}"},
		{"mpl/user-fmt-printf", "fmt", "func FN(x uint64) uint64 {\n\tp := new(uint64)\n\tfmt.Printf(p, x)\n\treturn *p + 1\n}"},
		{"mpl/user-util-dprintf", "util", "func FN(x uint64) uint64 {\n\tp := new(uint64)\n\tutil.DPrintf(p, x, 2)\n\treturn *p\n}"},
		{"mpl/user-machine-uint64get", "machine", "func FN(a []byte) uint64 {\n\treturn machine.UInt64Get(a)\n}"},
		{"mpl/user-machine-tostring", "machine", "func FN(x uint64) uint64 {\n\treturn machine.UInt64ToString(x)\n}"},
		{"mpl/user-disk-size", "disk", "func FN(x uint64) uint64 {\n\treturn disk.Size() + x\n}"},
		{"mpl/user-sync-newcond", "sync", "func FN(x uint64) uint64 {\n\treturn sync.NewCond(x)\n}"},
		{"mpl/user-sync-mutex-new", "sync", "func FN(x uint64) uint64 {\n\tm := new(sync.Mutex)\n\tm.Lock()\n\tm.Unlock()\n\treturn m.N + x\n}"},
		{"mpl/user-sync-mutex-param", "sync", "func FN(m *sync.Mutex) uint64 {\n\tm.Lock()\n\treturn m.N\n}"},
		{"mpl/user-sync-waitgroup", "sync", "func FN(x uint64) uint64 {\n\tw := new(sync.WaitGroup)\n\tw.Add(x)\n\treturn w.K\n}"},
		{"mpl/user-disk-block-type", "disk", "func FN(x uint64) uint64 {\n\tb := disk.Block{Id: x}\n\treturn b.Id + disk.BlockSize\n}"},
		// the same user package under a local import name: the reference must still reach its definition
		{"mpl/import-alias-call", "d2=plain", "func FN(x uint64) uint64 {\n\treturn d2.Inc(x) + d2.K\n}"},
		{"mpl/import-alias-named-like-builtin", "log=plain", "func FN(x uint64) uint64 {\n\treturn log.Inc(x)\n}"},
		{"mpl/import-alias-type", "d2=plain", "func FN(x uint64) uint64 {\n\tp := d2.Pair{A: x, B: 2}\n\treturn p.A + p.B\n}"},
		{"mpl/import-dot", ".=plain", "func FN(x uint64) uint64 {\n\treturn Inc(x) + K\n}"},
		{"mpl/user-filesys-names", "filesys", "func FN(x uint64) uint64 {\n\treturn filesys.Names(x)\n}"},
	}
	var out []*tv.Package
	for i, c := range cases {
		name := fmt.Sprintf("mpl%d", i)
		fn := "F" + sanitize(c.id)
		src := strings.ReplaceAll(c.src, "FN", fn)
		depName, alias := c.dep, ""
		if i := strings.Index(c.dep, "="); i >= 0 {
			alias, depName = c.dep[:i]+" ", c.dep[i+1:]
		}
		pre := "import " + alias + "\"example.com/tvmod/" + name + "/" + depName + "\"\n"
		file := "package " + name + "\n\n" + pre + "\n// " + c.id + "\n" + src + "\n"
		from := strings.Count("package "+name+"\n\n"+pre+"\n", "\n") + 1
		p := &tv.Package{Name: name, Files: map[string]string{"gen.go": file}, Prelude: pre,
			Deps: map[string]map[string]string{depName: deps[depName]}}
		p.Cases = []tv.Case{{ID: c.id, Func: fn, Reject: "may", File: "gen.go", FromLine: from, ToLine: strings.Count(file, "\n"), Src: src}}
		out = append(out, p)
	}
	return out
}
