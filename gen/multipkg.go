package gen

import "verif/tv"

// MultiPkg: programs that use a second generated package (calls, constants, struct types and
// methods of another user package). goose prints such references as dep.X and emits
// "From Goose Require" for the import; the imported package is translated in the same run and
// loaded under the qualified names.
func MultiPkg() []*tv.Package {
	dep := `package dep

type Pt struct {
	X uint64
	Y uint64
}

const K uint64 = 7

type Id uint64

func Add(a uint64, b uint64) uint64 {
	return a + b*2
}

func Two(a uint64) (uint64, bool) {
	return a + 1, a > 3
}

func (p *Pt) Sum() uint64 {
	return p.X + p.Y
}

func (p Pt) Scale(k uint64) Pt {
	return Pt{X: p.X * k, Y: p.Y * k}
}

func Mk(x uint64) *Pt {
	return &Pt{X: x, Y: K}
}

func Bump(p *Pt, d uint64) {
	p.X = p.X + d
}

func Fill(a []uint64, v uint64) {
	for i := range a {
		a[i] = v
	}
}
`
	b := &builder{alwaysHeader: true}
	imp := "import \"example.com/tvmod/mp0/dep\"\n"
	b.types = []string{"type Loc struct {\n\tP dep.Pt\n\tN uint64\n}"}
	b.add("mp/call", "func FN(x uint64, y uint64) uint64 {\n\treturn dep.Add(x, y) + 1\n}")
	b.add("mp/call-arg-order", "func FN(x uint64, y uint64) uint64 {\n\treturn dep.Add(y, x) - dep.Add(x, x)\n}")
	b.add("mp/two-results", "func FN(x uint64) uint64 {\n\ta, ok := dep.Two(x)\n\tif ok {\n\t\treturn a\n\t}\n\treturn 0\n}")
	b.add("mp/const", "func FN(x uint64) uint64 {\n\treturn x + dep.K\n}")
	b.add("mp/named-int-type", "func FN(x uint64) dep.Id {\n\treturn dep.Id(x) + 1\n}")
	b.add("mp/struct-literal", "func FN(x uint64) dep.Pt {\n\treturn dep.Pt{X: x, Y: dep.K}\n}")
	b.add("mp/struct-param-field", "func FN(p dep.Pt) uint64 {\n\treturn p.X*2 + p.Y\n}")
	b.add("mp/ptr-param-store", "func FN(p *dep.Pt, v uint64) {\n\tp.Y = v\n\tp.X = p.X + dep.K\n}")
	b.add("mp/method-ptr-recv", "func FN(p *dep.Pt) uint64 {\n\treturn p.Sum() + 1\n}")
	b.add("mp/method-value-recv", "func FN(p dep.Pt, k uint64) dep.Pt {\n\treturn p.Scale(k)\n}")
	b.add("mp/constructor", "func FN(x uint64) uint64 {\n\tp := dep.Mk(x)\n\tdep.Bump(p, 2)\n\treturn p.X + p.Y\n}")
	b.add("mp/effect-on-arg", "func FN(p *dep.Pt, d uint64) uint64 {\n\tdep.Bump(p, d)\n\tdep.Bump(p, 1)\n\treturn p.X\n}")
	b.add("mp/slice-effect", "func FN(a []uint64, v uint64) uint64 {\n\tdep.Fill(a, v)\n\treturn uint64(len(a))\n}")
	b.add("mp/nested-struct", "func FN(x uint64) uint64 {\n\tl := Loc{P: dep.Pt{X: x}, N: 2}\n\treturn l.P.X + l.N + l.P.Y\n}")
	b.add("mp/new-imported-struct", "func FN(x uint64) uint64 {\n\tp := new(dep.Pt)\n\tp.X = x\n\treturn p.Sum()\n}")
	b.add("mp/slice-of-imported", "func FN(x uint64) uint64 {\n\ta := make([]dep.Pt, 2)\n\ta[1] = dep.Pt{X: x, Y: 1}\n\treturn a[1].X + a[0].Y\n}")
	b.add("mp/map-of-imported", "func FN(k uint64, x uint64) uint64 {\n\tm := make(map[uint64]dep.Pt)\n\tm[k] = dep.Pt{X: x}\n\treturn m[k].X + m[k+1].Y\n}")
	b.add("mp/func-value", "func FN(x uint64) uint64 {\n\tf := dep.Add\n\treturn f(x, 1)\n}")
	pkgs := b.packages("mp", imp, 60)
	for _, p := range pkgs {
		p.Deps = map[string]map[string]string{"dep": {"dep.go": dep}}
	}
	return pkgs
}
