package gen

import (
	"fmt"
	"strings"

	"verif/tv"
)

type refKind struct {
	name     string
	provider string // declarations that provide the referenced entity (K = unique suffix)
	user     string // a declaration that mentions it
}

var refKinds = []refKind{
	{"call", "func PK() uint64 {\n\treturn 1\n}", "func UK() uint64 {\n\treturn PK() + 1\n}"},
	{"method-value-recv", "type SK struct {\n\tA uint64\n}\n\nfunc (s SK) M() uint64 {\n\treturn s.A\n}", "func UK(s SK) uint64 {\n\treturn s.M()\n}"},
	{"method-ptr-recv", "type SK struct {\n\tA uint64\n}\n\nfunc (s *SK) M(d uint64) {\n\ts.A = d\n}", "func UK(s *SK) {\n\ts.M(3)\n}"},
	{"method-value", "type SK struct {\n\tA uint64\n}\n\nfunc (s SK) M(d uint64) uint64 {\n\treturn s.A + d\n}", "func UK(s SK) uint64 {\n\tf := s.M\n\treturn f(2)\n}"},
	{"struct-literal", "type SK struct {\n\tA uint64\n}", "func UK() uint64 {\n\ts := SK{A: 1}\n\treturn s.A\n}"},
	{"struct-ptr-literal", "type SK struct {\n\tA uint64\n}", "func UK() uint64 {\n\ts := &SK{A: 1}\n\treturn s.A\n}"},
	{"new", "type SK struct {\n\tA uint64\n}", "func UK() uint64 {\n\ts := new(SK)\n\treturn s.A\n}"},
	{"field-read-ptr", "type SK struct {\n\tA uint64\n}", "func UK(p *SK) uint64 {\n\treturn p.A\n}"},
	{"field-write-ptr", "type SK struct {\n\tA uint64\n}", "func UK(p *SK) {\n\tp.A = 1\n}"},
	{"field-ref", "type SK struct {\n\tA uint64\n}", "func UK(p *SK) *uint64 {\n\treturn &p.A\n}"},
	{"deref-load", "type SK struct {\n\tA uint64\n}", "func UK(p *SK) SK {\n\treturn *p\n}"},
	{"deref-store", "type SK struct {\n\tA uint64\n}\n\nfunc MkK() SK {\n\treturn SK{A: 2}\n}", "func UK(p *SK) {\n\t*p = MkK()\n}"},
	{"field-read-value", "type SK struct {\n\tA uint64\n}", "func UK(s SK) uint64 {\n\treturn s.A\n}"},
	{"var-decl", "type SK struct {\n\tA uint64\n}", "func UK() uint64 {\n\tvar s SK\n\treturn s.A\n}"},
	{"slice-of", "type SK struct {\n\tA uint64\n}", "func UK() uint64 {\n\ta := make([]SK, 1)\n\treturn a[0].A\n}"},
	{"map-value", "type SK struct {\n\tA uint64\n}", "func UK() uint64 {\n\tm := make(map[uint64]SK)\n\treturn m[0].A\n}"},
	{"struct-field-type", "type SK struct {\n\tA uint64\n}", "type WK struct {\n\tIn SK\n\tN  uint64\n}"},
	{"named-type", "type NK uint64", "func UK(x NK) NK {\n\treturn x + 1\n}"},
	{"named-type-conversion", "type NK uint64", "func UK(x uint64) uint64 {\n\treturn uint64(NK(x)) + 1\n}"},
	{"named-slice-field", "type NK uint64\n\ntype TagsK []NK", "type EK struct {\n\tId   NK\n\tTags TagsK\n}"},
	{"alias", "type AK = uint64", "func UK(x AK) AK {\n\treturn x + 1\n}"},
	{"const-in-expr", "const CK uint64 = 5", "func UK() uint64 {\n\treturn CK + 1\n}"},
	{"const-in-const", "const CK uint64 = 5", "const DK uint64 = CK * 2"},
	{"global-var", "var GK uint64 = 7", "func UK() uint64 {\n\treturn GK + 1\n}"},
	{"func-value", "func PK(x uint64) uint64 {\n\treturn x\n}", "func UK() uint64 {\n\tf := PK\n\treturn f(1)\n}"},
	{"self-recursion", "func PK(n uint64) uint64 {\n\tif n == 0 {\n\t\treturn 0\n\t}\n\treturn PK(n-1) + 1\n}", "func UK() uint64 {\n\treturn PK(2)\n}"},
	{"method-self-recursion", "type SK struct {\n\tA uint64\n}\n\nfunc (s SK) R(n uint64) uint64 {\n\tif n == 0 {\n\t\treturn s.A\n\t}\n\treturn s.R(n - 1)\n}", "func UK(s SK) uint64 {\n\treturn s.R(1)\n}"},
	// names that only look like references: a parameter, a local and a struct field spelled like a
	// top-level declaration which itself depends on the function (a spurious dependency closes a cycle)
	{"param-named-like-decl", "func incK(x uint64) uint64 {\n\treturn x + 1\n}\n\nfunc stepK(x uint64) uint64 {\n\treturn twiceK(incK, x)\n}", "func twiceK(stepK func(uint64) uint64, x uint64) uint64 {\n\treturn stepK(stepK(x))\n}"},
	{"local-named-like-decl", "func totalK(x uint64) uint64 {\n\treturn sumK(x) + 1\n}", "func sumK(x uint64) uint64 {\n\ttotalK := x + 2\n\treturn totalK * 2\n}"},
	{"closure-local-named-like-decl", "func applyK(x uint64) uint64 {\n\treturn runK(x) + 1\n}", "func runK(x uint64) uint64 {\n\tapplyK := func(y uint64) uint64 {\n\t\treturn y + 3\n\t}\n\treturn applyK(x)\n}"},
	{"function-named-like-a-method", "type SK struct {\n\tA uint64\n}\n\nfunc (s SK) getK() uint64 {\n\treturn s.A\n}\n\nfunc SK__getK() uint64 {\n\treturn 77\n}", "func UK(s SK) uint64 {\n\treturn s.getK() + SK__getK()\n}"},
	{"same-method-name-as-function", "type SK struct {\n\tA uint64\n}\n\nfunc (s *SK) resetK() {\n\ts.A = 0\n}\n\nfunc resetK() uint64 {\n\treturn 9\n}", "func UK(s *SK) uint64 {\n\ts.resetK()\n\treturn resetK()\n}"},
}

// scaleDecls is just above 2^16: the number of filler declarations of the scale layouts.
const scaleDecls = 65600

func scaleFiller(prefix string, n int) string {
	var b strings.Builder
	for i := 0; i < n; i++ {
		fmt.Fprintf(&b, "const %sill%d uint64 = %d\n", prefix, i, i)
	}
	return b.String()
}

// DepOrder generates the C04 corpus: every reference kind under four layouts.
func DepOrder(level int) []*tv.Package {
	layouts := []string{"user-first", "provider-first", "two-files-user-in-a", "two-files-user-in-z",
		// the same references across more declarations than fit in 16 bits: any bookkeeping of the
		// ordering kernel that is narrower than int shows up here and nowhere else
		"scale-user-first", "scale-two-files"}
	var out []*tv.Package
	for li, layout := range layouts {
		p := &tv.Package{Name: fmt.Sprintf("dep%d", li), Files: map[string]string{}}
		var users, provs []string
		for ki, k := range refKinds {
			if strings.HasPrefix(layout, "scale-") && k.name == "function-named-like-a-method" {
				continue // a pinned known finding under the four small layouts; nothing new at scale
			}
			suffix := fmt.Sprintf("%d", ki)
			u := strings.ReplaceAll(k.user, "K", suffix)
			pr := strings.ReplaceAll(k.provider, "K", suffix)
			users = append(users, "// "+k.name+" (user)\n"+u)
			provs = append(provs, "// "+k.name+" (provider)\n"+pr)
			p.Cases = append(p.Cases, tv.Case{ID: "dep/" + k.name + "/" + layout, Func: "-", Src: u + "\n\n" + pr})
		}
		hdr := "package " + p.Name + "\n\n"
		switch layout {
		case "user-first":
			p.Files["gen.go"] = hdr + strings.Join(users, "\n\n") + "\n\n" + strings.Join(provs, "\n\n") + "\n"
		case "provider-first":
			p.Files["gen.go"] = hdr + strings.Join(provs, "\n\n") + "\n\n" + strings.Join(users, "\n\n") + "\n"
		case "two-files-user-in-a":
			p.Files["a_api.go"] = hdr + strings.Join(users, "\n\n") + "\n"
			p.Files["z_impl.go"] = hdr + strings.Join(provs, "\n\n") + "\n"
		case "two-files-user-in-z":
			p.Files["z_api.go"] = hdr + strings.Join(users, "\n\n") + "\n"
			p.Files["a_impl.go"] = hdr + strings.Join(provs, "\n\n") + "\n"
		case "scale-user-first":
			p.Files["gen.go"] = hdr + strings.Join(users, "\n\n") + "\n\n" + scaleFiller("F", scaleDecls) + "\n" + strings.Join(provs, "\n\n") + "\n"
		case "scale-two-files":
			p.Files["a_api.go"] = hdr + scaleFiller("F", scaleDecls) + "\n" + strings.Join(users, "\n\n") + "\n"
			p.Files["z_impl.go"] = hdr + scaleFiller("G", scaleDecls) + "\n" + strings.Join(provs, "\n\n") + "\n"
		}
		out = append(out, p)
	}
	return out
}
