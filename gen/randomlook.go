package gen

import "fmt"

// Out-of-subset constructs injected (one per program) into random subset programs: the C02
// relation "rejected, or accepted and equivalent" is then checked on the host function. Each
// entry is valid Go in any statement position of the generated programs. Constructs that reproduce
// a recorded known finding (& of a parameter or of a := variable, ++ on a 32-bit variable) are
// pinned in the catalogue (gen/lookalike.go) and not injected here.
var injections = []string{
	"opassign-shl", "opassign-shr", "opassign-mul", "opassign-quo", "opassign-rem", "opassign-andnot",
	"op-andnot", "switch-tagless", "switch-tag", "defer", "return-in-loop", "multi-var", "multi-define", "swap",
	"int-compare", "int-arith", "slice3", "if-init", "positional-struct", "array", "string-index", "string-range",
	"min-builtin", "labeled-continue", "else-asym-return", "closure-call", "chan", "float", "assign-param",
	"assign-defined", "incdec-field", "for-two-vars", "unary-minus", "uint16", "map-literal",
	"struct-compare", "string-less", "goto", "shadow-loopvar", "fallthrough-else-if-return",
	"anonymous-struct", "func-literal-arg", "slice-of-string", "bool-to-int-branch", "nested-return-in-range",
	"compound-index-opassign", "variadic-append", "return-then-else-if", "log-bound-results",
}

func (g *rgen) injectNow(ind, d int, mode blockMode) {
	if !g.chance(35) {
		return
	}
	emit := func(lines ...string) {
		for _, l := range lines {
			g.line(ind, l)
		}
		g.done = true
	}
	e := func() string { return g.e(tU64, 1) }
	switch g.inject {
	case "opassign-shl", "opassign-shr", "opassign-mul", "opassign-quo", "opassign-rem", "opassign-andnot":
		op := map[string]string{"opassign-shl": "<<=", "opassign-shr": ">>=", "opassign-mul": "*=", "opassign-quo": "/=", "opassign-rem": "%=", "opassign-andnot": "&^="}[g.inject]
		n := g.fresh()
		rhs := e()
		if g.inject == "opassign-quo" || g.inject == "opassign-rem" {
			rhs = "(" + rhs + " | 1)"
		}
		if g.inject == "opassign-shl" || g.inject == "opassign-shr" {
			rhs = "(" + rhs + " % 8)"
		}
		emit("var "+n+" uint64 = "+e(), n+" "+op+" "+rhs)
		g.vars = append(g.vars, rvar{name: n, ty: tU64, mutable: true})
	case "op-andnot":
		n := g.fresh()
		emit(n + " := x &^ " + e())
		g.vars = append(g.vars, rvar{name: n, ty: tU64})
	case "switch-tagless":
		n := g.fresh()
		emit("var "+n+" uint64 = 1", "switch {", "case "+g.cond(1)+":", "\t"+n+" = "+e(), "default:", "\t"+n+" = 9", "}")
		g.vars = append(g.vars, rvar{name: n, ty: tU64, mutable: true})
	case "switch-tag":
		n := g.fresh()
		emit("var "+n+" uint64 = 1", "switch x {", "case 1:", "\t"+n+" = "+e(), "case 2:", "\t"+n+" = 5", "}")
		g.vars = append(g.vars, rvar{name: n, ty: tU64, mutable: true})
	case "defer":
		if mode == modeLoop {
			return
		}
		if ps := g.varsOf(tPPt, false); len(ps) > 0 {
			emit("defer hBump(" + g.use(ps) + ", " + e() + ")")
		}
	case "return-in-loop", "nested-return-in-range":
		if mode != modeLoop {
			return
		}
		emit("if "+g.cond(1)+" {", "\treturn "+e(), "}")
	case "multi-var":
		a, b := g.fresh(), g.fresh()
		emit("var "+a+", "+b+" uint64", a+" = "+e(), b+" = "+a+" + 1")
		g.vars = append(g.vars, rvar{name: a, ty: tU64, mutable: true}, rvar{name: b, ty: tU64, mutable: true})
	case "multi-define":
		a, b := g.fresh(), g.fresh()
		emit(a + ", " + b + " := " + g.typedExpr(tU64, 1) + ", " + g.typedExpr(tU64, 1))
		g.vars = append(g.vars, rvar{name: a, ty: tU64}, rvar{name: b, ty: tU64})
	case "swap":
		a, b := g.fresh(), g.fresh()
		emit("var "+a+" uint64 = "+e(), "var "+b+" uint64 = "+e(), a+", "+b+" = "+b+", "+a)
		g.vars = append(g.vars, rvar{name: a, ty: tU64, mutable: true}, rvar{name: b, ty: tU64, mutable: true})
	case "int-compare":
		n := g.fresh()
		emit("var "+n+" uint64 = 0", "if int(x)-5 < int(hAdd(x, 3)) {", "\t"+n+" = 1", "}")
		g.vars = append(g.vars, rvar{name: n, ty: tU64, mutable: true})
	case "int-arith":
		n := g.fresh()
		emit(n + " := uint64(int(x) / (int(hAdd(x, 1)) | 1))")
		g.vars = append(g.vars, rvar{name: n, ty: tU64})
	case "slice3":
		as := g.varsOf(tSl64, false)
		if len(as) == 0 {
			return
		}
		a := g.use(as)
		n := g.fresh()
		emit("var "+n+" []uint64", "if uint64(cap("+a+")) >= 2 {", "\t"+n+" = "+a+"[0:1:2]", "}")
		g.vars = append(g.vars, rvar{name: n, ty: tSl64, mutable: true})
	case "if-init":
		n, t := g.fresh(), g.fresh()
		emit("var "+n+" uint64 = 0", "if "+t+" := "+g.typedExpr(tU64, 1)+"; "+t+" > 2 {", "\t"+n+" = "+t, "}")
		g.vars = append(g.vars, rvar{name: n, ty: tU64, mutable: true})
	case "positional-struct":
		n := g.fresh()
		emit(n + " := Pt{" + e() + ", " + e() + "}")
		g.vars = append(g.vars, rvar{name: n, ty: tPt})
	case "array":
		n, a := g.fresh(), g.fresh()
		emit("var "+a+" [3]uint64", a+"[1] = "+e(), n+" := "+a+"[1] + "+a+"[0]")
		g.vars = append(g.vars, rvar{name: n, ty: tU64})
	case "string-index":
		ss := g.varsOf(tStr, false)
		if len(ss) == 0 {
			return
		}
		s := g.use(ss)
		n := g.fresh()
		emit("var "+n+" byte = 0", "if uint64(len("+s+")) > 0 {", "\t"+n+" = "+s+"[0]", "}")
		g.vars = append(g.vars, rvar{name: n, ty: tU8, mutable: true})
	case "string-range":
		ss := g.varsOf(tStr, false)
		if len(ss) == 0 {
			return
		}
		n, r := g.fresh(), g.fresh()
		emit("var "+n+" uint64 = 0", "for _, "+r+" := range "+g.use(ss)+" {", "\t"+n+" += uint64("+r+")", "}")
		g.vars = append(g.vars, rvar{name: n, ty: tU64, mutable: true})
	case "min-builtin":
		n := g.fresh()
		emit(n + " := min(x, " + e() + ") + max(x, 3)")
		g.vars = append(g.vars, rvar{name: n, ty: tU64})
	case "labeled-continue":
		n, i, j := g.fresh(), g.fresh(), g.fresh()
		L := "L" + n
		emit("var "+n+" uint64 = 0", L+":", fmt.Sprintf("for %s := uint64(0); %s < 2; %s++ {", i, i, i),
			fmt.Sprintf("\tfor %s := uint64(0); %s < 2; %s++ {", j, j, j), "\t\tif "+j+" > "+i+" {", "\t\t\tcontinue "+L, "\t\t}", "\t\t"+n+" += 1", "\t}", "}")
		g.vars = append(g.vars, rvar{name: n, ty: tU64, mutable: true})
	case "else-asym-return":
		if mode != modeRet {
			return
		}
		n := g.fresh()
		emit("var "+n+" uint64 = 0", "if "+g.cond(1)+" {", "\treturn "+e(), "} else {", "\t"+n+" = "+e(), "}")
		g.vars = append(g.vars, rvar{name: n, ty: tU64, mutable: true})
	case "fallthrough-else-if-return":
		if mode != modeRet {
			return
		}
		n := g.fresh()
		emit("var "+n+" uint64 = 0", "if "+g.cond(1)+" {", "\t"+n+" = 1", "} else if "+g.cond(1)+" {", "\treturn "+e(), "}")
		g.vars = append(g.vars, rvar{name: n, ty: tU64, mutable: true})
	case "return-then-else-if":
		if mode != modeRet {
			return
		}
		n := g.fresh()
		emit("var "+n+" uint64 = 0", "if "+g.cond(1)+" {", "\treturn "+e(), "} else if "+g.cond(1)+" {", "\t"+n+" = 1", "}")
		g.vars = append(g.vars, rvar{name: n, ty: tU64, mutable: true})
	case "log-bound-results":
		n := g.fresh()
		emit(n+", _ := fmt.Println(\"v\", x)", "_ = "+n)
	case "closure-call":
		n := g.fresh()
		emit("var "+n+" uint64 = 0", "func() {", "\t"+n+" = "+e(), "}()")
		g.vars = append(g.vars, rvar{name: n, ty: tU64, mutable: true})
	case "chan":
		n, c := g.fresh(), g.fresh()
		emit(c+" := make(chan uint64, 1)", c+" <- "+e(), n+" := <-"+c)
		g.vars = append(g.vars, rvar{name: n, ty: tU64})
	case "float":
		n := g.fresh()
		emit(n + " := uint64(float64(x) / 2)")
		g.vars = append(g.vars, rvar{name: n, ty: tU64})
	case "assign-param":
		emit("x = hAdd(" + g.e(tU64, 1) + ", 1)")
	case "assign-defined":
		n := g.fresh()
		emit(n+" := "+g.typedExpr(tU64, 1), n+" = "+n+" + "+e())
		g.vars = append(g.vars, rvar{name: n, ty: tU64})
	case "incdec-field":
		if ps := g.varsOf(tPPt, false); len(ps) > 0 {
			emit(g.use(ps) + ".X++")
		}
	case "incdec-u32":
		n := g.fresh()
		emit("var "+n+" uint32 = uint32(x)", n+"++")
		g.vars = append(g.vars, rvar{name: n, ty: tU32, mutable: true})
	case "addr-of-param":
		n := g.fresh()
		emit(n+" := &x", "*"+n+" = "+e())
		g.used[n] = true
	case "for-two-vars":
		n, i, j := g.fresh(), g.fresh(), g.fresh()
		emit("var "+n+" uint64 = 0", fmt.Sprintf("for %s, %s := uint64(0), uint64(3); %s < %s; %s++ {", i, j, i, j, i), "\t"+n+" += "+i, "}")
		g.vars = append(g.vars, rvar{name: n, ty: tU64, mutable: true})
	case "unary-minus":
		n := g.fresh()
		emit(n + " := -x + " + e())
		g.vars = append(g.vars, rvar{name: n, ty: tU64})
	case "uint16":
		n := g.fresh()
		emit(n + " := uint64(uint16(x) + 1)")
		g.vars = append(g.vars, rvar{name: n, ty: tU64})
	case "map-literal":
		n := g.fresh()
		emit(n + " := map[uint64]uint64{1: " + e() + "}")
		g.vars = append(g.vars, rvar{name: n, ty: tMap})
	case "struct-compare":
		n := g.fresh()
		emit("var "+n+" uint64 = 0", "if (Pt{X: "+e()+"}) == (Pt{X: x}) {", "\t"+n+" = 1", "}")
		g.vars = append(g.vars, rvar{name: n, ty: tU64, mutable: true})
	case "string-less":
		ss := g.varsOf(tStr, false)
		if len(ss) == 0 {
			return
		}
		n := g.fresh()
		emit("var "+n+" uint64 = 0", "if "+g.use(ss)+" < \"b\" {", "\t"+n+" = 1", "}")
		g.vars = append(g.vars, rvar{name: n, ty: tU64, mutable: true})
	case "goto":
		if mode != modeRet || g.loops > 0 || ind != 1 {
			return
		}
		n := g.fresh()
		L := "G" + n
		emit("var "+n+" uint64 = 0", "if x > 3 {", "\tgoto "+L, "}", n+" = 5", L+":", n+" += 1")
		g.vars = append(g.vars, rvar{name: n, ty: tU64, mutable: true})
	case "shadow-loopvar":
		// the recorded known finding C01:scope/loopvar-hides-outer is about a loop variable that
		// hides an *outer variable of the same name used after the loop*; this shape reuses the
		// name only inside the loop body
		n, i := g.fresh(), g.fresh()
		emit("var "+n+" uint64 = 0", fmt.Sprintf("for %s := uint64(0); %s < 2; %s++ {", i, i, i), "\t"+i+" := "+i+" + 5", "\t"+n+" += "+i, "}")
		g.vars = append(g.vars, rvar{name: n, ty: tU64, mutable: true})
	case "anonymous-struct":
		n := g.fresh()
		emit(n+"s := struct{ A uint64 }{A: "+e()+"}", n+" := "+n+"s.A")
		g.vars = append(g.vars, rvar{name: n, ty: tU64})
	case "func-literal-arg":
		n := g.fresh()
		emit(n + " := func(f func(uint64) uint64) uint64 { return f(x) }(func(a uint64) uint64 { return a + 1 })")
		g.vars = append(g.vars, rvar{name: n, ty: tU64})
	case "slice-of-string":
		ss := g.varsOf(tStr, false)
		if len(ss) == 0 {
			return
		}
		s := g.use(ss)
		n := g.fresh()
		emit("var "+n+" string", "if uint64(len("+s+")) > 0 {", "\t"+n+" = "+s+"[1:]", "}")
		g.vars = append(g.vars, rvar{name: n, ty: tStr, mutable: true})
	case "bool-to-int-branch":
		n := g.fresh()
		emit("var "+n+" uint64", "if "+g.cond(1)+" {", "\t"+n+" = 1", "} else if "+g.cond(1)+" {", "\t"+n+" = 2", "} else {", "\t"+n+" = 3", "}")
		g.vars = append(g.vars, rvar{name: n, ty: tU64, mutable: true})
	case "compound-index-opassign":
		ms := g.varsOf(tMap, false)
		if len(ms) == 0 {
			return
		}
		emit(g.use(ms) + "[" + e() + "] *= 3")
	case "ptr-to-local-define":
		n, q := g.fresh(), g.fresh()
		emit(n+" := "+g.typedExpr(tU64, 1), q+" := &"+n, "*"+q+" = *"+q+" + 1")
		g.vars = append(g.vars, rvar{name: n, ty: tU64})
	case "variadic-append":
		as := g.varsOf(tSl64, false)
		if len(as) == 0 {
			return
		}
		n := g.fresh()
		emit(n + " := append([]uint64{}, " + g.use(as) + "...)")
		g.vars = append(g.vars, rvar{name: n, ty: tSl64})
	}
}
