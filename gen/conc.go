package gen

import "verif/tv"

// Concurrent generates the C03 templates: race-free concurrent programs in the Goose subset,
// each returning an integer that exposes the behaviour (values, aliasing, wake-ups).
func Concurrent(level int) []*tv.Package {
	b := &builder{}
	hdr := "import (\n\t\"sync\"\n\n\t\"github.com/goose-lang/goose/machine\"\n)\n"
	add := func(id, src string, opts ...string) { b.add(id, src+"\n\nvar _ = machine.Sleep", opts...) }
	_ = add
	b.add("conc/spawn-join", "func FN(x uint64) uint64 {\n\tv := new(uint64)\n\twg := new(sync.WaitGroup)\n\twg.Add(1)\n\tgo func() {\n\t\t*v = x + 1\n\t\twg.Done()\n\t}()\n\twg.Wait()\n\treturn *v\n}")
	b.add("conc/captured-var", "func FN(x uint64) uint64 {\n\tvar v = x\n\twg := new(sync.WaitGroup)\n\twg.Add(1)\n\tgo func() {\n\t\tv = v * 2\n\t\twg.Done()\n\t}()\n\twg.Wait()\n\treturn v\n}")
	b.add("conc/mutex-counter", "func FN(x uint64) uint64 {\n\tmu := new(sync.Mutex)\n\tc := new(uint64)\n\t*c = x\n\twg := new(sync.WaitGroup)\n\twg.Add(2)\n\tgo func() {\n\t\tmu.Lock()\n\t\t*c = *c + 1\n\t\tmu.Unlock()\n\t\twg.Done()\n\t}()\n\tgo func() {\n\t\tmu.Lock()\n\t\t*c = *c + 10\n\t\tmu.Unlock()\n\t\twg.Done()\n\t}()\n\twg.Wait()\n\tmu.Lock()\n\tr := *c\n\tmu.Unlock()\n\treturn r\n}")
	b.add("conc/last-writer", "func FN(x uint64) uint64 {\n\tmu := new(sync.Mutex)\n\tc := new(uint64)\n\twg := new(sync.WaitGroup)\n\twg.Add(2)\n\tgo func() {\n\t\tmu.Lock()\n\t\t*c = x\n\t\tmu.Unlock()\n\t\twg.Done()\n\t}()\n\tgo func() {\n\t\tmu.Lock()\n\t\t*c = x + 5\n\t\tmu.Unlock()\n\t\twg.Done()\n\t}()\n\twg.Wait()\n\treturn *c\n}")
	b.add("conc/cond-handoff", "func FN(x uint64) uint64 {\n\tmu := new(sync.Mutex)\n\tcond := sync.NewCond(mu)\n\tready := new(bool)\n\tv := new(uint64)\n\tgo func() {\n\t\tmu.Lock()\n\t\t*v = x + 3\n\t\t*ready = true\n\t\tcond.Signal()\n\t\tmu.Unlock()\n\t}()\n\tmu.Lock()\n\tfor !*ready {\n\t\tcond.Wait()\n\t}\n\tr := *v\n\tmu.Unlock()\n\treturn r\n}")
	b.add("conc/cond-broadcast", "func FN(x uint64) uint64 {\n\tmu := new(sync.Mutex)\n\tcond := sync.NewCond(mu)\n\tgoFlag := new(bool)\n\tsum := new(uint64)\n\twg := new(sync.WaitGroup)\n\twg.Add(2)\n\tgo func() {\n\t\tmu.Lock()\n\t\tfor !*goFlag {\n\t\t\tcond.Wait()\n\t\t}\n\t\t*sum = *sum + x\n\t\tmu.Unlock()\n\t\twg.Done()\n\t}()\n\tgo func() {\n\t\tmu.Lock()\n\t\tfor !*goFlag {\n\t\t\tcond.Wait()\n\t\t}\n\t\t*sum = *sum + 1\n\t\tmu.Unlock()\n\t\twg.Done()\n\t}()\n\tmu.Lock()\n\t*goFlag = true\n\tcond.Broadcast()\n\tmu.Unlock()\n\twg.Wait()\n\treturn *sum\n}")
	b.add("conc/wg-two-adds", "func FN(x uint64) uint64 {\n\ta := new(uint64)\n\tb := new(uint64)\n\twg := new(sync.WaitGroup)\n\twg.Add(1)\n\tgo func() {\n\t\t*a = x\n\t\twg.Done()\n\t}()\n\twg.Add(1)\n\tgo func() {\n\t\t*b = x + 1\n\t\twg.Done()\n\t}()\n\twg.Wait()\n\treturn *a + *b\n}")
	b.add("conc/trailing-statement-in-goroutine", "func FN(x uint64) uint64 {\n\tmu := new(sync.Mutex)\n\tv := new(uint64)\n\twg := new(sync.WaitGroup)\n\twg.Add(1)\n\tgo func() {\n\t\tmu.Lock()\n\t\tif x > 2 {\n\t\t\t*v = 7\n\t\t}\n\t\tmu.Unlock()\n\t\twg.Done()\n\t}()\n\twg.Wait()\n\treturn *v\n}")
	b.add("conc/go-last-in-block", "func FN(x uint64) uint64 {\n\tv := new(uint64)\n\twg := new(sync.WaitGroup)\n\twg.Add(1)\n\tif x > 1 {\n\t\tgo func() {\n\t\t\t*v = 9\n\t\t\twg.Done()\n\t\t}()\n\t} else {\n\t\twg.Done()\n\t}\n\twg.Wait()\n\treturn *v\n}")
	b.add("conc/lock-protects-two-cells", "func FN(x uint64) uint64 {\n\tmu := new(sync.Mutex)\n\ta := new(uint64)\n\tb := new(uint64)\n\twg := new(sync.WaitGroup)\n\twg.Add(1)\n\tgo func() {\n\t\tmu.Lock()\n\t\t*a = x\n\t\t*b = x\n\t\tmu.Unlock()\n\t\twg.Done()\n\t}()\n\tmu.Lock()\n\td := *a - *b\n\tmu.Unlock()\n\twg.Wait()\n\treturn d\n}")
	b.add("conc/waittimeout-with-signal", "func FN(x uint64) uint64 {\n\tmu := new(sync.Mutex)\n\tcond := sync.NewCond(mu)\n\tdone := new(bool)\n\tgo func() {\n\t\tmu.Lock()\n\t\t*done = true\n\t\tcond.Signal()\n\t\tmu.Unlock()\n\t}()\n\tmu.Lock()\n\tfor !*done {\n\t\tmachine.WaitTimeout(cond, 10)\n\t}\n\tmu.Unlock()\n\treturn x\n}")
	b.add("conc/if-last-in-goroutine", "func FN(x uint64) uint64 {\n\tmu := new(sync.Mutex)\n\tv := new(uint64)\n\twg := new(sync.WaitGroup)\n\twg.Add(1)\n\tgo func() {\n\t\tmu.Lock()\n\t\t*v = x\n\t\tmu.Unlock()\n\t\tif x > 2 {\n\t\t\twg.Done()\n\t\t} else {\n\t\t\twg.Done()\n\t\t}\n\t}()\n\twg.Wait()\n\treturn *v\n}")
	b.add("conc/if-without-else-last-in-goroutine", "func FN(x uint64) uint64 {\n\tmu := new(sync.Mutex)\n\tv := new(uint64)\n\tdone := new(bool)\n\tgo func() {\n\t\tmu.Lock()\n\t\t*done = true\n\t\tif x > 2 {\n\t\t\t*v = 5\n\t\t}\n\t\tmu.Unlock()\n\t}()\n\tmu.Lock()\n\tvar r = *v\n\tif !*done {\n\t\tr = 99\n\t}\n\tmu.Unlock()\n\treturn r\n}")
	b.add("conc/single-call-goroutine", "func FNwork(p *uint64, wg *sync.WaitGroup, x uint64) {\n\t*p = x + 2\n\twg.Done()\n}\n\nfunc FN(x uint64) uint64 {\n\tv := new(uint64)\n\twg := new(sync.WaitGroup)\n\twg.Add(1)\n\tgo func() {\n\t\tFNwork(v, wg, x)\n\t}()\n\twg.Wait()\n\treturn *v\n}")
	b.add("conc/read-captured-var", "func FN(x uint64) uint64 {\n\tvar n = x\n\tout := new(uint64)\n\twg := new(sync.WaitGroup)\n\twg.Add(1)\n\tgo func() {\n\t\t*out = n + 1\n\t\twg.Done()\n\t}()\n\twg.Wait()\n\treturn *out\n}")
	b.add("conc/sleep", "func FN(x uint64) uint64 {\n\tmachine.Sleep(1000)\n\treturn x + 1\n}")
	return b.packages("conc", hdr, 40)
}
