package gen

import (
	"fmt"
	"math/rand"
	"strings"

	"verif/tv"
)

// Random program generator for the Goose subset (C01 thorough tier, C02 with one injected
// out-of-subset construct). Programs are derived from a typed grammar with a fixed seed, so the
// corpus is the same on every run; the *inputs* of every generated function stay symbolic and
// are decided by the solver. The relation checked on these programs is "rejected, or accepted
// and equivalent" (the generator follows the documented subset but does not promise that every
// program is accepted).
//
// Shapes that reproduce a recorded known finding are not generated (they are pinned in the rule
// corpus instead): loop variables never reuse the name of another variable, ++/-- only on
// uint64 variables, results are never pointers.

type rty int

const (
	tU64 rty = iota
	tU32
	tU8
	tBool
	tStr
	tSl64
	tSlB
	tPPt
	tPt
	tMap
	nTypes
)

var rtyName = [...]string{"uint64", "uint32", "byte", "bool", "string", "[]uint64", "[]byte", "*Pt", "Pt", "map[uint64]uint64"}

type rvar struct {
	name    string
	ty      rty
	mutable bool // declared with var (heap cell in GooseLang)
	loopVar bool
}

type rgen struct {
	r       *rand.Rand
	vars    []rvar
	n       int
	loops   int // loop nesting
	sb      strings.Builder
	used    map[string]bool
	liberal bool   // C02: control flow outside the subset is allowed (returns, break/continue and else-if chains anywhere, shadowing, assignment to := variables)
	inject  string // C02: construct to inject once ("" = none)
	done    bool   // injected already
}

const randPrelude = `func hAdd(a uint64, b uint64) uint64 {
	return a + b*3
}

func hTwo(a uint64) (uint64, bool) {
	return a + 1, a > 5
}

func hBump(p *Pt, d uint64) {
	p.X = p.X + d
}

func hPick(c bool, a uint64, b uint64) uint64 {
	if c {
		return a
	}
	return b
}

func (p *Pt) Sum() uint64 {
	return p.X + p.Y
}`

func (g *rgen) pick(n int) int { return g.r.Intn(n) }

// use picks one of vs and records that it is read (Go rejects unused locals).
func (g *rgen) use(vs []rvar) string {
	v := vs[g.pick(len(vs))]
	g.used[v.name] = true
	return v.name
}
func (g *rgen) chance(pct int) bool { return g.r.Intn(100) < pct }

func (g *rgen) snapshot() map[string]bool {
	c := make(map[string]bool, len(g.used))
	for k, v := range g.used {
		c[k] = v
	}
	return c
}

func (g *rgen) fresh() string {
	g.n++
	return fmt.Sprintf("v%d", g.n)
}

func (g *rgen) varsOf(t rty, mutableOnly bool) []rvar {
	var out []rvar
	seen := map[string]bool{}
	for i := len(g.vars) - 1; i >= 0; i-- {
		v := g.vars[i]
		if seen[v.name] {
			continue // shadowed
		}
		seen[v.name] = true
		if v.ty == t && (!mutableOnly || v.mutable) && !(mutableOnly && v.loopVar) {
			out = append(out, v)
		}
	}
	return out
}

func (g *rgen) lit(t rty) string {
	switch t {
	case tU64:
		return []string{"0", "1", "2", "3", "7", "10", "255", "256", "65536", "4294967296", "9223372036854775808", "18446744073709551615"}[g.pick(12)]
	case tU32:
		return []string{"0", "1", "2", "3", "200", "65535", "4294967295"}[g.pick(7)]
	case tU8:
		return []string{"0", "1", "2", "3", "100", "255"}[g.pick(6)]
	case tBool:
		return []string{"true", "false"}[g.pick(2)]
	case tStr:
		return []string{`""`, `"a"`, `"ab"`, `"b"`, `"("`, `")"`}[g.pick(6)]
	}
	panic("lit")
}

// expr returns an expression of type t and whether it is a Go constant expression.
func (g *rgen) expr(t rty, d int) (string, bool) {
	vs := g.varsOf(t, false)
	leaf := func() (string, bool) {
		if len(vs) > 0 && g.chance(75) {
			return g.use(vs), false
		}
		switch t {
		case tU64, tU32, tU8, tBool, tStr:
			if t == tBool && len(vs) == 0 {
				// avoid constant conditions: compare something
				a, _ := g.expr(tU64, 0)
				return "(" + a + " > 2)", false
			}
			return g.lit(t), true
		}
		return "", true
	}
	if d <= 0 {
		return leaf()
	}
	nonConst := func(t rty, d int) string {
		for i := 0; i < 8; i++ {
			save := g.snapshot()
			if e, c := g.expr(t, d); !c {
				return e
			}
			g.used = save
		}
		// fall back on a conversion of the always-present parameter x
		switch t {
		case tU64:
			return "x"
		case tU32:
			return "uint32(x)"
		case tU8:
			return "byte(x)"
		case tStr:
			return "s0"
		}
		return "(x > 1)"
	}
	switch t {
	case tU64, tU32, tU8:
		k := g.pick(10)
		switch {
		case k < 2:
			return leaf()
		case k < 6:
			ops := []string{"+", "-", "*", "&", "|", "^", "/", "%", "<<", ">>"}
			op := ops[g.pick(len(ops))]
			a := nonConst(t, d-1)
			var b string
			switch op {
			case "*", "/", "%":
				// multiplication and division of two symbolic words stall the bit-blaster: the
				// right operand is a literal (symbolic×symbolic is covered by the rule corpus)
				b = []string{"1", "2", "3", "7", "10", "100"}[g.pick(6)]
			case "<<", ">>":
				if g.chance(75) {
					b = []string{"0", "1", "3", "7"}[g.pick(4)]
				} else {
					b = "(" + nonConst(t, 0) + " % 8)"
				}
			default:
				b, _ = g.expr(t, d-1)
			}
			return "(" + a + " " + op + " " + b + ")", false
		case k < 8:
			// conversions
			from := []rty{tU64, tU32, tU8}[g.pick(3)]
			if from == t {
				return leaf()
			}
			return rtyName[t] + "(" + nonConst(from, d-1) + ")", false
		default:
			if t != tU64 {
				return leaf()
			}
			switch g.pick(7) {
			case 0:
				if a := g.varsOf(tSl64, false); len(a) > 0 {
					return "uint64(len(" + g.use(a) + "))", false
				}
			case 1:
				if a := g.varsOf(tStr, false); len(a) > 0 {
					return "uint64(len(" + g.use(a) + "))", false
				}
			case 2:
				if a := g.varsOf(tMap, false); len(a) > 0 {
					k, _ := g.expr(tU64, d-1)
					return g.use(a) + "[" + k + "]", false
				}
			case 3:
				if a := g.varsOf(tPPt, false); len(a) > 0 {
					return g.use(a) + "." + []string{"X", "Y"}[g.pick(2)], false
				}
			case 4:
				if a := g.varsOf(tPt, false); len(a) > 0 {
					return g.use(a) + "." + []string{"X", "Y"}[g.pick(2)], false
				}
			case 5:
				a, _ := g.expr(tU64, d-1)
				b, _ := g.expr(tU64, d-1)
				return "hAdd(" + a + ", " + b + ")", false
			case 6:
				if a := g.varsOf(tPPt, false); len(a) > 0 {
					return g.use(a) + ".Sum()", false
				}
			}
			return leaf()
		}
	case tBool:
		k := g.pick(10)
		switch {
		case k < 2:
			return leaf()
		case k < 6:
			ct := []rty{tU64, tU64, tU32, tU8}[g.pick(4)]
			op := []string{"==", "!=", "<", "<=", ">", ">="}[g.pick(6)]
			a := nonConst(ct, d-1)
			b, _ := g.expr(ct, d-1)
			return "(" + a + " " + op + " " + b + ")", false
		case k < 7:
			return "!" + nonConst(tBool, d-1), false
		case k < 9:
			op := []string{"&&", "||"}[g.pick(2)]
			return "(" + nonConst(tBool, d-1) + " " + op + " " + nonConst(tBool, d-1) + ")", false
		default:
			if a := g.varsOf(tStr, false); len(a) > 0 {
				b, _ := g.expr(tStr, d-1)
				return "(" + g.use(a) + " " + []string{"==", "!="}[g.pick(2)] + " " + b + ")", false
			}
			return leaf()
		}
	case tStr:
		if g.chance(40) {
			a := nonConst(tStr, d-1)
			b, _ := g.expr(tStr, d-1)
			return "(" + a + " + " + b + ")", false
		}
		return leaf()
	case tPt:
		switch g.pick(3) {
		case 0:
			return "Pt{X: " + g.e(tU64, d-1) + ", Y: " + g.e(tU64, d-1) + "}", false
		case 1:
			return "Pt{Y: " + g.e(tU64, d-1) + "}", false
		}
		if len(vs) > 0 {
			return g.use(vs), false
		}
		return "Pt{X: " + g.e(tU64, d-1) + "}", false
	case tPPt:
		if len(vs) > 0 && g.chance(60) {
			return g.use(vs), false
		}
		if g.chance(50) {
			return "&Pt{X: " + g.e(tU64, d-1) + ", Y: 1}", false
		}
		return "new(Pt)", false
	case tSl64:
		if len(vs) > 0 && g.chance(60) {
			return g.use(vs), false
		}
		switch g.pick(3) {
		case 0:
			return "make([]uint64, 2)", false
		case 1:
			return "[]uint64{" + g.e(tU64, d-1) + "}", false
		}
		return "make([]uint64, 1, 3)", false
	case tSlB:
		if len(vs) > 0 && g.chance(60) {
			return g.use(vs), false
		}
		if a := g.varsOf(tStr, false); len(a) > 0 && g.chance(50) {
			return "[]byte(" + g.use(a) + ")", false
		}
		return "make([]byte, 2)", false
	case tMap:
		if len(vs) > 0 && g.chance(70) {
			return g.use(vs), false
		}
		return "make(map[uint64]uint64)", false
	}
	return leaf()
}

func (g *rgen) e(t rty, d int) string {
	s, _ := g.expr(t, d)
	return s
}

func (g *rgen) line(ind int, s string) {
	g.sb.WriteString(strings.Repeat("\t", ind))
	g.sb.WriteString(s)
	g.sb.WriteString("\n")
}

// cond: a non-constant boolean expression
func (g *rgen) cond(d int) string {
	for i := 0; i < 8; i++ {
		save := g.snapshot()
		if e, c := g.expr(tBool, d); !c {
			return e
		}
		g.used = save
	}
	return "(x > 3)"
}

type blockMode int

const (
	modeFall blockMode = iota // must not return
	modeRet                   // must end by returning on every path
	modeLoop                  // loop body: falls through, may break/continue
)

// simple emits one non-control statement.
func (g *rgen) simple(ind, d int) {
	for try := 0; try < 6; try++ {
		switch g.pick(14) {
		case 0, 1:
			t := []rty{tU64, tU64, tU32, tU8, tBool, tStr, tPt, tPPt, tSl64, tMap, tSlB}[g.pick(11)]
			n := g.fresh()
			g.line(ind, n+" := "+g.typedExpr(t, d))
			g.vars = append(g.vars, rvar{name: n, ty: t})
			return
		case 2, 3:
			t := []rty{tU64, tU64, tU32, tU8, tBool, tStr, tPt, tSl64}[g.pick(8)]
			n := g.fresh()
			switch {
			case g.chance(30):
				g.line(ind, "var "+n+" "+rtyName[t])
			case g.chance(50) && t != tSl64 && t != tPt:
				g.line(ind, "var "+n+" "+rtyName[t]+" = "+g.e(t, d))
			default:
				g.line(ind, "var "+n+" = "+g.typedExpr(t, d))
			}
			g.vars = append(g.vars, rvar{name: n, ty: t, mutable: true})
			return
		case 4, 5:
			// assignment to a mutable variable
			t := []rty{tU64, tU64, tU32, tU8, tBool, tStr, tPt}[g.pick(7)]
			ms := g.varsOf(t, true)
			if len(ms) == 0 {
				continue
			}
			v := ms[g.pick(len(ms))].name // an assignment is not a use
			if t <= tU8 && g.chance(40) {
				op := []string{"+=", "-=", "|=", "&=", "^="}[g.pick(5)]
				g.line(ind, v+" "+op+" "+g.e(t, d))
			} else if t == tU64 && g.chance(25) {
				g.line(ind, v+[]string{"++", "--"}[g.pick(2)])
			} else {
				g.line(ind, v+" = "+g.e(t, d))
			}
			return
		case 6:
			ps := g.varsOf(tPPt, false)
			if len(ps) == 0 {
				continue
			}
			p := g.use(ps)
			f := []string{"X", "Y"}[g.pick(2)]
			if g.chance(30) {
				g.line(ind, p+"."+f+" "+[]string{"+=", "-=", "^="}[g.pick(3)]+" "+g.e(tU64, d))
			} else {
				g.line(ind, p+"."+f+" = "+g.e(tU64, d))
			}
			return
		case 7:
			ss := g.varsOf(tPt, true)
			if len(ss) == 0 {
				continue
			}
			g.line(ind, ss[g.pick(len(ss))].name+"."+[]string{"X", "Y"}[g.pick(2)]+" = "+g.e(tU64, d))
			return
		case 8:
			as := g.varsOf(tSl64, false)
			if len(as) == 0 {
				continue
			}
			a := g.use(as)
			k := g.pick(2)
			g.line(ind, fmt.Sprintf("if uint64(len(%s)) > %d {", a, k))
			if g.chance(30) {
				g.line(ind+1, fmt.Sprintf("%s[%d] += %s", a, k, g.e(tU64, d)))
			} else {
				g.line(ind+1, fmt.Sprintf("%s[%d] = %s", a, k, g.e(tU64, d)))
			}
			g.line(ind, "}")
			return
		case 9:
			ms := g.varsOf(tMap, false)
			if len(ms) == 0 {
				continue
			}
			m := g.use(ms)
			if g.chance(25) {
				g.line(ind, "delete("+m+", "+g.e(tU64, d)+")")
			} else {
				g.line(ind, m+"["+g.e(tU64, d)+"] = "+g.e(tU64, d))
			}
			return
		case 10:
			as := g.varsOf(tSl64, true)
			if len(as) == 0 {
				continue
			}
			a := g.use(as)
			g.line(ind, a+" = append("+a+", "+g.e(tU64, d)+")")
			return
		case 11:
			ps := g.varsOf(tPPt, false)
			if len(ps) == 0 {
				continue
			}
			g.line(ind, "hBump("+g.use(ps)+", "+g.e(tU64, d)+")")
			return
		case 12:
			a, b := g.fresh(), g.fresh()
			g.line(ind, a+", "+b+" := hTwo("+g.e(tU64, d)+")")
			g.vars = append(g.vars, rvar{name: a, ty: tU64}, rvar{name: b, ty: tBool})
			return
		case 13:
			ms := g.varsOf(tMap, false)
			if len(ms) == 0 {
				continue
			}
			a, b := g.fresh(), g.fresh()
			g.line(ind, a+", "+b+" := "+g.use(ms)+"["+g.e(tU64, d)+"]")
			g.vars = append(g.vars, rvar{name: a, ty: tU64}, rvar{name: b, ty: tBool})
			return
		}
	}
	n := g.fresh()
	g.line(ind, n+" := "+g.typedExpr(tU64, d))
	g.vars = append(g.vars, rvar{name: n, ty: tU64})
}

// typedExpr: an expression whose static type is exactly t even when it is a constant
func (g *rgen) typedExpr(t rty, d int) string {
	e, c := g.expr(t, d)
	if c {
		switch t {
		case tU64, tU32, tU8:
			return rtyName[t] + "(" + e + ")"
		}
	}
	return e
}

// retExpr builds the returned value from the variables in scope.
func (g *rgen) retExpr() string {
	var parts []string
	add := func(s string) { parts = append(parts, s) }
	seen := map[string]bool{}
	for i := len(g.vars) - 1; i >= 0 && len(parts) < 4; i-- {
		v := g.vars[i]
		if seen[v.name] || !(g.chance(50) || !g.used[v.name]) {
			seen[v.name] = true
			continue
		}
		seen[v.name] = true
		switch v.ty {
		case tU64, tU32, tU8, tStr, tSl64, tPt, tPPt, tBool, tMap:
			g.used[v.name] = true
		}
		switch v.ty {
		case tU64:
			add(v.name)
		case tU32, tU8:
			add("uint64(" + v.name + ")")
		case tStr:
			add("uint64(len(" + v.name + "))")
		case tSl64:
			add("uint64(len(" + v.name + "))")
		case tPt:
			add(v.name + ".X")
		case tPPt:
			add(v.name + ".Y")
		case tBool:
			add("hPick(" + v.name + ", 1, 2)")
		case tMap:
			add("uint64(len(" + v.name + "))")
		}
	}
	if len(parts) == 0 {
		return g.e(tU64, 1)
	}
	ops := []string{" + ", " ^ ", " + "}
	out := parts[0]
	for _, p := range parts[1:] {
		out += ops[g.pick(3)] + p
	}
	return out
}

func (g *rgen) block(ind, d int, mode blockMode) {
	mark := len(g.vars)
	defer func() { g.vars = g.vars[:mark] }()
	sink := func() { g.sinkFrom(mark, ind) }
	n := 1 + g.pick(3)
	if d <= 0 {
		n = 1 + g.pick(2)
	}
	for i := 0; i < n; i++ {
		g.maybeInject(ind, d, mode)
		if g.liberal && g.liberalStmt(ind, d, mode) {
			continue
		}
		k := g.pick(100)
		switch {
		case d <= 0 || k < 45:
			g.simple(ind, 2)
		case k < 60:
			// if / if-else without returns
			g.line(ind, "if "+g.cond(2)+" {")
			g.block(ind+1, d-1, modeFall)
			if g.chance(50) {
				g.line(ind, "} else {")
				g.block(ind+1, d-1, modeFall)
			}
			g.line(ind, "}")
		case k < 70 && mode == modeRet:
			// early return
			g.line(ind, "if "+g.cond(2)+" {")
			g.block(ind+1, d-1, modeRet)
			g.line(ind, "}")
		case k < 70 && mode == modeLoop:
			// early continue / break
			g.line(ind, "if "+g.cond(2)+" {")
			if g.chance(50) {
				m2 := len(g.vars)
				g.simple(ind+1, 1)
				g.sinkFrom(m2, ind+1)
				g.vars = g.vars[:m2]
			}
			g.line(ind+1, []string{"continue", "break"}[g.pick(2)])
			g.line(ind, "}")
		case k < 82 && g.loops < 2:
			g.loop(ind, d)
		case k < 88 && g.loops < 2:
			g.rangeLoop(ind, d)
		case k < 92:
			g.line(ind, "{")
			g.block(ind+1, d-1, modeFall)
			g.line(ind, "}")
		default:
			g.simple(ind, 2)
		}
	}
	if mode == modeRet {
		if d > 0 && g.chance(25) {
			c := g.cond(2)
			sink()
			g.line(ind, "if "+c+" {")
			g.block(ind+1, d-1, modeRet)
			g.line(ind, "} else {")
			g.block(ind+1, d-1, modeRet)
			g.line(ind, "}")
		} else {
			r := g.retExpr()
			sink()
			g.line(ind, "return "+r)
		}
		return
	}
	sink()
}

// sinkFrom reads every still-unused variable declared since mark (Go rejects unused locals).
func (g *rgen) sinkFrom(mark, ind int) {
	for _, v := range g.vars[mark:] {
		if !g.used[v.name] && v.ty < nTypes {
			g.used[v.name] = true
			g.line(ind, "_ = "+v.name)
		}
	}
}

func (g *rgen) loop(ind, d int) {
	g.loops++
	defer func() { g.loops-- }()
	K := 1 + g.pick(3)
	switch g.pick(3) {
	case 0, 1:
		i := g.fresh()
		g.line(ind, fmt.Sprintf("for %s := uint64(0); %s < %d; %s++ {", i, i, K, i))
		mark := len(g.vars)
		g.vars = append(g.vars, rvar{name: i, ty: tU64, loopVar: true})
		g.used[i] = true
		g.block(ind+1, d-1, modeLoop)
		g.vars = g.vars[:mark]
		g.line(ind, "}")
	default:
		i := g.fresh()
		g.line(ind, fmt.Sprintf("var %s uint64 = 0", i))
		g.line(ind, fmt.Sprintf("for %s < %d {", i, K))
		g.line(ind+1, i+" = "+i+" + 1")
		// the counter is visible but must not be assigned by the body (termination)
		g.vars = append(g.vars, rvar{name: i, ty: tU64, mutable: true, loopVar: true})
		g.used[i] = true
		g.block(ind+1, d-1, modeLoop)
		g.line(ind, "}")
	}
}

func (g *rgen) rangeLoop(ind, d int) {
	as := g.varsOf(tSl64, false)
	if len(as) == 0 {
		g.simple(ind, 2)
		return
	}
	g.loops++
	defer func() { g.loops-- }()
	a := g.use(as)
	i, v := g.fresh(), g.fresh()
	mark := len(g.vars)
	switch g.pick(3) {
	case 0:
		g.line(ind, fmt.Sprintf("for %s, %s := range %s {", i, v, a))
		g.vars = append(g.vars, rvar{name: i, ty: tU64 + 100, loopVar: true}, rvar{name: v, ty: tU64, loopVar: true})
		g.line(ind+1, fmt.Sprintf("%s := uint64(%s)", i+"u", i))
		g.vars = append(g.vars, rvar{name: i + "u", ty: tU64})
	case 1:
		g.line(ind, fmt.Sprintf("for _, %s := range %s {", v, a))
		g.vars = append(g.vars, rvar{name: v, ty: tU64, loopVar: true})
	default:
		g.line(ind, fmt.Sprintf("for %s := range %s {", i, a))
		g.line(ind+1, fmt.Sprintf("%s := uint64(%s)", i+"u", i))
		g.vars = append(g.vars, rvar{name: i + "u", ty: tU64})
	}
	g.block(ind+1, d-1, modeLoop)
	g.sinkFrom(mark, ind+1)
	g.vars = g.vars[:mark]
	g.line(ind, "}")
}

var randParams = []rvar{
	{name: "y", ty: tU64}, {name: "w", ty: tU32}, {name: "c", ty: tU8}, {name: "p", ty: tBool}, {name: "s0", ty: tStr},
	{name: "a", ty: tSl64}, {name: "pt", ty: tPPt}, {name: "m", ty: tMap}, {name: "bs", ty: tSlB},
}

func (g *rgen) function(name string, depth int) string {
	g.sb.Reset()
	g.vars = []rvar{{name: "x", ty: tU64}}
	g.used = map[string]bool{}
	params := "x uint64"
	need := map[string]bool{}
	// s0 is the string fall-back of nonConst
	perm := g.r.Perm(len(randParams))
	k := 1 + g.pick(3)
	for _, i := range perm[:k] {
		need[randParams[i].name] = true
	}
	need["s0"] = need["s0"] || g.chance(30)
	for _, p := range randParams {
		if need[p.name] {
			params += ", " + p.name + " " + rtyName[p.ty]
			g.vars = append(g.vars, p)
		}
	}
	hasS0 := need["s0"]
	g.block(1, depth, modeRet)
	body := g.sb.String()
	if !hasS0 && strings.Contains(body, "s0") {
		params += ", s0 string"
	}
	return "func " + name + "(" + params + ") uint64 {\n" + body + "}"
}

// Random generates n functions of nesting depth ≤ depth from the given seed.
func Random(seed int64, n, depth int) []*tv.Package {
	b := &builder{}
	b.types = []string{"type Pt struct {\n\tX uint64\n\tY uint64\n}", randPrelude}
	g := &rgen{r: rand.New(rand.NewSource(seed))}
	for i := 0; i < n; i++ {
		g.n = 0
		id := fmt.Sprintf("rand/s%d/%03d", seed, i)
		b.add(id, g.function("FN", 1+i%depth))
	}
	return b.packages(fmt.Sprintf("rnd%d_", seed), "", 40)
}

// maybeInject is the C02 hook (see randomlook.go); a no-op for the C01 corpus.
func (g *rgen) maybeInject(ind, d int, mode blockMode) {
	if g.inject == "" || g.done {
		return
	}
	g.injectNow(ind, d, mode)
}

// RandomLookalikes: random subset programs with one out-of-subset construct injected (C02).
func RandomLookalikes(seed int64, n, depth int) []*tv.Package {
	b := &builder{}
	b.types = []string{"type Pt struct {\n\tX uint64\n\tY uint64\n}", randPrelude}
	g := &rgen{r: rand.New(rand.NewSource(seed))}
	for i := 0; i < n; i++ {
		g.n = 0
		g.inject = injections[i%len(injections)]
		g.done = false
		src := g.function("FN", 1+i%depth)
		if !g.done {
			continue
		}
		b.add(fmt.Sprintf("randlook/s%d/%03d/%s", seed, i, g.inject), src)
	}
	return b.packages(fmt.Sprintf("rlk%d_", seed), "", 40)
}

// liberalStmt (C02 only): with some probability emits one statement whose control-flow shape may be
// outside the subset — the relation checked on these programs is "rejected, or accepted and
// equivalent", so any valid Go is a legitimate test input. Returns false if nothing was emitted.
func (g *rgen) liberalStmt(ind, d int, mode blockMode) bool {
	if !g.chance(30) {
		return false
	}
	switch g.pick(7) {
	case 0: // a return in the middle of any block
		if g.chance(50) {
			g.line(ind, "if "+g.cond(1)+" {")
			g.line(ind+1, "return "+g.retExpr())
			g.line(ind, "}")
		} else {
			g.line(ind, "if "+g.cond(1)+" {")
			g.simpleScoped(ind + 1)
			g.line(ind, "} else {")
			g.line(ind+1, "return "+g.retExpr())
			g.line(ind, "}")
		}
		return true
	case 1: // else-if chain whose arms return, break, continue or fall through
		if d <= 0 {
			return false
		}
		arms := 2 + g.pick(2)
		for a := 0; a < arms; a++ {
			if a == 0 {
				g.line(ind, "if "+g.cond(1)+" {")
			} else {
				g.line(ind, "} else if "+g.cond(1)+" {")
			}
			g.liberalArm(ind+1, mode)
		}
		if g.chance(40) {
			g.line(ind, "} else {")
			g.liberalArm(ind+1, mode)
		}
		g.line(ind, "}")
		return true
	case 2: // break / continue at an arbitrary position of a loop body
		if g.loops == 0 {
			return false
		}
		g.line(ind, "if "+g.cond(1)+" {")
		g.simpleScoped(ind + 1)
		g.line(ind+1, []string{"break", "continue"}[g.pick(2)])
		g.line(ind, "}")
		return true
	case 3: // shadow a variable of an enclosing scope
		var cands []rvar
		for _, v := range g.vars {
			if v.ty == tU64 && !v.loopVar {
				cands = append(cands, v)
			}
		}
		if len(cands) == 0 || d <= 0 {
			return false
		}
		v := cands[g.pick(len(cands))]
		g.line(ind, "if "+g.cond(1)+" {")
		g.line(ind+1, v.name+" := "+g.typedExpr(tU64, 1))
		if ms := g.varsOf(tU64, true); len(ms) > 0 {
			m := ms[g.pick(len(ms))].name
			g.line(ind+1, m+" = "+m+" + "+v.name)
		} else {
			g.line(ind+1, "_ = "+v.name)
		}
		g.line(ind, "}")
		return true
	case 4: // assignment to a := variable or a parameter
		var cands []rvar
		for _, v := range g.vars {
			if v.ty == tU64 && !v.mutable && !v.loopVar {
				cands = append(cands, v)
			}
		}
		if len(cands) == 0 {
			return false
		}
		v := cands[g.pick(len(cands))]
		g.line(ind, v.name+" = "+g.e(tU64, 1))
		return true
	case 5: // nested if whose inner arm returns while the outer continues
		if d <= 0 {
			return false
		}
		g.line(ind, "if "+g.cond(1)+" {")
		g.line(ind+1, "if "+g.cond(1)+" {")
		g.liberalArm(ind+2, mode)
		g.line(ind+1, "}")
		g.simpleScoped(ind + 1)
		g.line(ind, "}")
		return true
	case 6: // if/else where the else arm leaves and the then arm falls through (possibly shadowing)
		g.line(ind, "if "+g.cond(1)+" {")
		var outer []rvar
		for _, v := range g.vars {
			if v.ty == tU64 && !v.loopVar {
				outer = append(outer, v)
			}
		}
		ms := g.varsOf(tU64, true)
		if len(outer) > 0 && len(ms) > 0 && g.chance(50) {
			v := outer[g.pick(len(outer))]
			m := ms[g.pick(len(ms))].name
			g.line(ind+1, v.name+" := "+g.typedExpr(tU64, 1))
			g.line(ind+1, m+" = "+m+" + "+v.name)
		} else {
			g.simpleScoped(ind + 1)
		}
		g.line(ind, "} else {")
		g.liberalArm(ind+1, mode)
		g.line(ind, "}")
		return true
	}
	return false
}

// liberalArm: one arm of a liberal if: some statements, then return / break / continue / nothing.
func (g *rgen) liberalArm(ind int, mode blockMode) {
	if g.chance(60) {
		g.simpleScoped(ind)
	}
	switch k := g.pick(4); {
	case k == 0:
		g.line(ind, "return "+g.retExpr())
	case k == 1 && g.loops > 0:
		g.line(ind, "break")
	case k == 2 && g.loops > 0:
		g.line(ind, "continue")
	}
}

// simpleScoped emits one simple statement in its own scope bookkeeping (for arms written inline).
func (g *rgen) simpleScoped(ind int) {
	m := len(g.vars)
	g.simple(ind, 1)
	g.sinkFrom(m, ind)
	g.vars = g.vars[:m]
}

// RandomLiberal: random programs whose control flow is not restricted to the subset (C02).
func RandomLiberal(seed int64, n, depth int) []*tv.Package {
	b := &builder{}
	b.types = []string{"type Pt struct {\n\tX uint64\n\tY uint64\n}", randPrelude}
	g := &rgen{r: rand.New(rand.NewSource(seed)), liberal: true}
	for i := 0; i < n; i++ {
		g.n = 0
		b.add(fmt.Sprintf("randlib/s%d/%03d", seed, i), g.function("FN", 1+i%depth))
	}
	return b.packages(fmt.Sprintf("rlb%d_", seed), "", 40)
}
