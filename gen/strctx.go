package gen

import (
	"fmt"
	"strconv"
	"strings"

	"verif/tv"
)

// hostile string contents: every character class that means something to one of the layers the text
// passes through on its way into the .v file (printf verbs, Coq comment and string delimiters,
// sentence terminators, GooseLang notation tokens)
var strctxContents = []string{
	"%", "%d", "100% done", "%s and %v", "%!", "\\", "\\n", "(*", "*)", "(* x *)", "(", ")", ".", ". ", ";;", "'", "in", "let:", "#()", " ", "",
}

// printing contexts of a string literal; C is replaced by the quoted literal, N by a unique suffix
var strctxContexts = []struct{ name, src string }{
	{"return", "func FN(s string) string {\n\treturn s + C\n}"},
	{"binding", "func FN(s string) string {\n\tx := C\n\treturn s + x\n}"},
	{"var-decl", "func FN(s string) string {\n\tvar x string = C\n\tx = x + s\n\treturn x\n}"},
	{"call-arg", "func FNh(a string, b string) string {\n\treturn a + b\n}\n\nfunc FN(s string) string {\n\treturn FNh(C, s)\n}"},
	{"closure-body", "func FN(s string) string {\n\tf := func(t string) string {\n\t\treturn t + C\n\t}\n\treturn f(s)\n}"},
	{"closure-as-argument", "func FNapply(f func(string) string, s string) string {\n\treturn f(s)\n}\n\nfunc FN(s string) string {\n\treturn FNapply(func(t string) string {\n\t\treturn t + C\n\t}, s)\n}"},
	{"closure-in-loop", "func FN(s string, n uint64) string {\n\tvar acc = s\n\tfor i := uint64(0); i < n; i++ {\n\t\tf := func(t string) string {\n\t\t\treturn t + C\n\t\t}\n\t\tacc = f(acc)\n\t}\n\treturn acc\n}"},
	{"nested-closure", "func FN(s string) string {\n\tf := func(t string) string {\n\t\tg := func(u string) string {\n\t\t\treturn u + C\n\t\t}\n\t\treturn g(t) + C\n\t}\n\treturn f(s)\n}"},
	{"struct-field", "type FNrec struct {\n\tname string\n\tn    uint64\n}\n\nfunc FN(s string) string {\n\tr := FNrec{name: C, n: 1}\n\treturn r.name + s\n}"},
	{"if-compare", "func FN(s string) uint64 {\n\tif s == C {\n\t\treturn 1\n\t}\n\treturn 2\n}"},
	{"loop-body", "func FN(n uint64) string {\n\tvar acc = \"\"\n\tfor i := uint64(0); i < n; i++ {\n\t\tacc = acc + C\n\t}\n\treturn acc\n}"},
	{"slice-literal", "func FN(s string) string {\n\ta := []string{C, s}\n\treturn a[0] + a[1]\n}"},
	{"map-key", "func FN(s string) uint64 {\n\tm := make(map[string]uint64)\n\tm[C] = 1\n\treturn m[s]\n}"},
	{"const-decl", "const FNc = C\n\nfunc FN(s string) string {\n\treturn s + FNc\n}"},
	{"global-var", "var FNg string = C\n\nfunc FN(s string) string {\n\treturn s + FNg\n}"},
	{"goroutine-body", "func FN(p *string) {\n\tgo func() {\n\t\t*p = C\n\t}()\n}"},
	{"store-through-ptr", "func FN(p *string) {\n\t*p = *p + C\n}"},
	{"append-arg", "func FN(a []string) []string {\n\treturn append(a, C)\n}"},
	{"method-body", "type FNt struct {\n\tv string\n}\n\nfunc (t *FNt) FNm() string {\n\treturn t.v + C\n}\n\nfunc FN(t *FNt) string {\n\treturn t.FNm()\n}"},
	{"else-branch", "func FN(b bool) string {\n\tif b {\n\t\treturn C\n\t} else {\n\t\treturn C + C\n\t}\n}"},
}

// StringContexts: one package per hostile content, one function per printing context (C05: the
// content of a string literal reaches the output unchanged and never alters its structure, wherever
// the literal stands).
func StringContexts() []*tv.Package {
	var out []*tv.Package
	for ci, content := range strctxContents {
		p := &tv.Package{Name: fmt.Sprintf("strctx%d", ci), Files: map[string]string{}}
		var srcs []string
		for xi, cx := range strctxContexts {
			suffix := fmt.Sprintf("S%dX%d", ci, xi)
			src := strings.ReplaceAll(cx.src, "FN", "F"+suffix)
			src = strings.ReplaceAll(src, "C", strconv.Quote(content))
			srcs = append(srcs, "// "+cx.name+"\n"+src)
			p.Cases = append(p.Cases, tv.Case{ID: fmt.Sprintf("strctx/%d/%s", ci, cx.name), Func: "F" + suffix, Src: src})
		}
		p.Files["gen.go"] = "package " + p.Name + "\n\n" + strings.Join(srcs, "\n\n") + "\n"
		out = append(out, p)
	}
	return out
}

// StringContextContent returns the literal content of package strctx<i> and the text that
// maskGoLiterals-style masking (one letter per source character between the quotes) turns it into.
func StringContextContent(pkg string) (content string, ok bool) {
	var i int
	if _, err := fmt.Sscanf(pkg, "strctx%d", &i); err != nil || i < 0 || i >= len(strctxContents) {
		return "", false
	}
	return strctxContents[i], true
}
